"""A cooperative scheduler for dataflows.processors.parallelize.

The module's globals `mp`, `threading`, `queue` are replaced (in this process only) by shims whose every queue
operation, start and join is a scheduling point: all actors (collector, producer thread, fetcher thread, worker
"processes") are real Python threads running the UNMODIFIED producer / fetcher / work / fork bodies, but exactly one
is released at a time, chosen by a `chooser`.  A multiprocessing.Queue is modelled as it behaves: one buffer per
putting actor, moved to the shared pipe by explicit feeder steps; items are pickled on put (a process boundary).
Every granted operation is logged under the name of the Parallelize.tla action it must be.
"""
import pickle
import sys
import threading as real_threading


class Deadlock(Exception):
    pass


class Actor:
    def __init__(self, name, kind):
        self.name = name
        self.kind = kind          # 'thread' | 'process' | 'main'
        self.state = 'new'        # new | running | waiting | done
        self.pending = None
        self.granted = False
        self.result = None
        self.thread = None
        self.error = None


class MPQueue:
    def __init__(self, sched, name):
        self.sched, self.name = sched, name
        self.buf = {}             # actor name -> list of pickled items
        self.pipe = []
        # mp.Queue.close() as CPython implements it: the calling process will put nothing more; its feeder thread flushes what
        # is buffered and then closes BOTH pipe ends of that process.  A process forked after that inherits closed handles.
        self.closing = set()      # processes that called close()
        self.closed_in = set()    # processes whose pipe ends are closed (the feeder has flushed)
        self.dead_for = set()     # actors (forked children) that inherited closed handles

    def put(self, item):
        self.sched.point(('put', self, item))

    def get(self, block=True, timeout=None):
        return self.sched.point(('get', self, timeout if block else 0))

    def close(self):
        self.sched.point(('close', self))

    def join_thread(self):
        pass

    def cancel_join_thread(self):
        pass


_CLOSE = b'<close sentinel>'


class TQueue:
    def __init__(self, sched, name):
        self.sched, self.name = sched, name
        self.items = []

    def put(self, item):
        self.sched.point(('put', self, item))

    def get(self, block=True, timeout=None):
        return self.sched.point(('get', self, timeout if block else 0))


class _Raise:
    def __init__(self, exc):
        self.exc = exc


class Handle:
    """mp.Process / threading.Thread shim"""

    def __init__(self, sched, kind, target, args):
        self.sched, self.kind, self.target, self.args = sched, kind, target, args
        self.actor = None

    def start(self):
        self.sched.point(('start', self))

    def join(self, timeout=None):
        self.sched.point(('join', self, timeout))

    def close(self):
        if self.actor is not None and self.actor.state != 'done':
            raise ValueError('Cannot close a process while it is still running. You should first call join() or terminate().')

    def kill(self):
        pass

    def is_alive(self):
        return self.actor is not None and self.actor.state != 'done'


class Sched:
    def __init__(self, chooser, nworkers_hint=0):
        self.cv = real_threading.Condition()
        self.actors = {}
        self.by_thread = {}
        self.chooser = chooser
        self.log = []
        self.nq = 0
        self.queues = []
        self.wcount = 0
        self.started = False
        self.steps = 0
        self.deadlock = None
        self.timeouts_fired = 0

    # ---- shims handed to the module under test
    def mp_shim(self):
        s = self

        class MP:
            @staticmethod
            def Queue(*a, **k):
                q = MPQueue(s, 'mpq%d' % len(s.queues))
                s.queues.append(q)
                return q

            @staticmethod
            def Process(target=None, args=(), **k):
                return Handle(s, 'process', target, args)
        return MP

    def threading_shim(self):
        s = self

        class TH:
            @staticmethod
            def Thread(target=None, args=(), **k):
                return Handle(s, 'thread', target, args)
        return TH

    def queue_shim(self):
        s = self

        class Q:
            Empty = __import__('queue').Empty

            @staticmethod
            def Queue(*a, **k):
                q = TQueue(s, 'tq%d' % len(s.queues))
                s.queues.append(q)
                return q
        return Q

    # ---- actor side
    def me(self):
        return self.by_thread[real_threading.get_ident()]

    def point(self, op):
        with self.cv:
            a = self.me()
            a.pending = op
            a.state = 'waiting'
            self.cv.notify_all()
            while not a.granted:
                self.cv.wait()
            a.granted = False
            a.state = 'running'
            r = a.result
            a.result = None
        if isinstance(r, _Raise):
            raise r.exc
        return r

    def _run_actor(self, actor, fn, args):
        self.by_thread[real_threading.get_ident()] = actor
        with self.cv:
            while not actor.granted:
                self.cv.wait()
            actor.granted = False
            actor.state = 'running'
        try:
            fn(*args)
        except BaseException as e:      # noqa
            actor.error = e
        finally:
            with self.cv:
                actor.state = 'done'
                self.cv.notify_all()

    def spawn(self, name, kind, fn, args):
        a = Actor(name, kind)
        self.actors[name] = a
        a.state = 'waiting'
        a.pending = ('begin',)
        th = real_threading.Thread(target=self._run_actor, args=(a, fn, args), daemon=True)
        a.thread = th
        th.start()
        return a

    # ---- naming queues/actors the way Parallelize.tla does
    def role_of_queue(self, q):
        # creation order in fork(): q_in (mp), q_internal (thread), q_out (mp)
        i = self.queues.index(q)
        return ['q_in', 'q_internal', 'q_out'][i] if i < 3 else 'q%d' % i

    # ---- scheduler loop: call from the controlling thread
    def run(self, main_fn, max_steps=100000):
        main = self.spawn('collector', 'main', main_fn, ())
        while True:
            with self.cv:
                while any(a.state == 'running' for a in self.actors.values()):
                    self.cv.wait(timeout=5)
                if main.state == 'done':
                    break
                enabled = self.enabled()
                if not enabled:
                    # a join with a timeout is the only thing that can still move: let the timeout fire
                    tj = [(a, a.pending) for a in self.actors.values() if a.state == 'waiting' and a.pending[0] == 'join' and a.pending[2]]
                    if tj:
                        a, op = tj[0]
                        self.timeouts_fired += 1
                        self.log.append(['JoinTimeout', op[1].actor.name])
                        a.result = None
                        a.granted = True
                        a.state = 'running'
                        self.cv.notify_all()
                        continue
                    self.deadlock = {n: (a.state, self.describe(a.pending)) for n, a in self.actors.items()}
                    break
                choice = self.chooser(enabled, self)
                self.steps += 1
                if self.steps > max_steps:
                    self.deadlock = {'livelock': self.steps}
                    break
                self.grant(choice)
        return main

    def describe(self, op):
        if not op:
            return None
        if op[0] in ('put', 'get'):
            return (op[0], self.role_of_queue(op[1]))
        if op[0] in ('start', 'join'):
            return (op[0], getattr(op[1].actor, 'name', op[1].target.__name__))
        return op

    def enabled(self):
        out = []
        for name in sorted(self.actors):
            a = self.actors[name]
            if a.state != 'waiting' or a.pending is None:
                continue
            op = a.pending
            if op[0] in ('begin', 'put', 'start', 'close'):
                out.append(('act', name))
            elif op[0] == 'get':
                q = op[1]
                if isinstance(q, MPQueue) and (name in q.dead_for or self.proc_of(a) in q.closed_in):
                    out.append(('act', name))          # a closed handle: the get fails at once
                elif (isinstance(q, MPQueue) and q.pipe) or (isinstance(q, TQueue) and q.items):
                    out.append(('act', name))
                elif op[2] is not None:
                    out.append(('timeout', name))      # a get with a timeout on an empty queue may give up (the other side is slow)
            elif op[0] == 'join':
                tgt = op[1].actor
                if tgt is not None and tgt.state == 'done' and not any(q.buf.get(tgt.name) for q in self.queues if isinstance(q, MPQueue)):
                    out.append(('act', name))
        for q in self.queues:
            if isinstance(q, MPQueue):
                for an in sorted(q.buf):
                    if q.buf[an]:
                        out.append(('feed', q, an))
        return out

    def grant(self, choice):
        if choice[0] == 'feed':
            _, q, an = choice
            item = q.buf[an].pop(0)
            if item == _CLOSE:
                q.closed_in.add(self.proc_of(self.actors[an]))
                return
            if an in q.dead_for or self.proc_of(self.actors[an]) in q.closed_in:
                return                                  # the feeder writes to a closed pipe end: the item is dropped (the error is only logged)
            q.pipe.append(item)
            v = self.vid(pickle.loads(item))
            if self.role_of_queue(q) == 'q_in':
                self.log.append(['FeedIn', v])
            else:
                self.log.append(['FeedOut', self.windex(an), v])
            return
        a = self.actors[choice[1]]
        op = a.pending
        if choice[0] == 'timeout':
            import queue as _q
            self.log.append(['GetTimeout', a.name])
            a.result = _Raise(_q.Empty())
            a.pending = None
            a.granted = True
            a.state = 'running'
            self.cv.notify_all()
            return
        if op[0] == 'close':
            q = op[1]
            proc = self.proc_of(a)
            if proc not in q.closing:
                q.closing.add(proc)
                if a.name in q.buf or any(self.proc_of(self.actors[n]) == proc for n in q.buf):
                    q.buf.setdefault(a.name, []).append(_CLOSE)       # the sentinel travels behind what is buffered
        elif op[0] == 'put' and isinstance(op[1], MPQueue) and self.proc_of(a) in op[1].closing:
            a.result = _Raise(ValueError('Queue %r is closed' % op[1].name))
        elif op[0] == 'get' and isinstance(op[1], MPQueue) and (a.name in op[1].dead_for or self.proc_of(a) in op[1].closed_in):
            a.result = _Raise(OSError('handle is closed'))
        elif op[0] == 'put':
            q, item = op[1], op[2]
            if isinstance(q, MPQueue):
                q.buf.setdefault(a.name, []).append(pickle.dumps(item))
            else:
                q.items.append(item)
            self.log_put(a, q, item)
        elif op[0] == 'get':
            q = op[1]
            item = pickle.loads(q.pipe.pop(0)) if isinstance(q, MPQueue) else q.items.pop(0)
            a.result = item
            self.log_get(a, q, item)
        elif op[0] == 'start':
            h = op[1]
            tn = h.target.__name__
            if tn == 'work':
                self.wcount += 1
                name = 'w%d' % self.wcount
            else:
                name = tn
            if not self.started:
                self.started = True
                self.log.append(['CStart'])          # the producer thread
            elif tn == 'work':
                self.log.append(['CFork', self.wcount])
            elif tn == 'fetcher':
                self.log.append(['CStartF'])
            h.actor = self.spawn(name, h.kind, h.target, h.args)
            if h.kind == 'process':
                # fork: the child gets a copy of the parent's handles as they are NOW
                for q in self.queues:
                    if isinstance(q, MPQueue) and self.proc_of(a) in q.closed_in:
                        q.dead_for.add(name)
        elif op[0] == 'join':
            tn = op[1].actor.name
            if tn == 'producer':
                self.log.append(['CJoinProd'])
            elif tn == 'fetcher':
                self.log.append(['CJoinF'])
            else:
                self.log.append(['CJoinW', self.windex(tn)])
        a.pending = None
        a.granted = True
        a.state = 'running'
        self.cv.notify_all()

    @staticmethod
    def proc_of(actor):
        return actor.name if actor.kind == 'process' else 'main'

    def windex(self, name):
        return int(name[1:])

    @staticmethod
    def vid(item):
        return 0 if item is None else item['id']

    def log_put(self, a, q, item):
        role = self.role_of_queue(q)
        v = self.vid(item)
        if a.name == 'producer':
            if item is None and role == 'q_in':
                self.log.append(['PMarker'])
            elif item is None:
                self.log.append(['PFail'])
            else:
                self.log.append(['PPut', v])
        elif a.name.startswith('w'):
            self.log.append(['WExit', self.windex(a.name)] if item is None else ['WPut', self.windex(a.name), v])
        elif a.name == 'fetcher':
            self.log.append(['FEnd'] if item is None else ['FFwd', v])
        else:
            self.log.append(['?put', a.name, role, v])

    def log_get(self, a, q, item):
        v = self.vid(item)
        if a.name.startswith('w'):
            self.log.append(['WGet', self.windex(a.name), v])
        elif a.name == 'fetcher':
            self.log.append(['FGet', v])
        elif a.name == 'collector':
            self.log.append(['CGet', v])
        else:
            self.log.append(['?get', a.name, v])


class UpstreamError(Exception):
    pass


def row_func(row):
    row['n'] += 1


def run_schedule(item):
    """item: dict(R, N, sel (list of ids), seed, strategy) -> trace record"""
    import random
    from .common import setup_repo
    setup_repo()
    pm = sys.modules['dataflows.processors.parallelize']
    R, N, sel = item['R'], item['N'], set(item['sel'])
    rnd = random.Random(item['seed'])
    strategy = item.get('strategy', 'uniform')
    prio = {}

    def chooser(enabled, s):
        if strategy == 'uniform':
            return rnd.choice(enabled)
        if strategy == 'feeders_last':
            acts = [e for e in enabled if e[0] in ('act', 'timeout')]
            return rnd.choice(acts) if acts and rnd.random() < 0.9 else rnd.choice(enabled)
        if strategy == 'priority':       # PCT-like: fixed random priorities with occasional priority change
            def key(e):
                k = (e[0], e[1]) if e[0] in ('act', 'timeout') else (e[0], e[1].name, e[2])
                if k not in prio:
                    prio[k] = rnd.random()
                return prio[k]
            if rnd.random() < 0.05 and prio:
                prio[rnd.choice(list(prio))] = rnd.random()
            return max(enabled, key=key)
        return rnd.choice(enabled)
    s = Sched(chooser)
    saved = (pm.mp, pm.threading, pm.queue)
    pm.mp, pm.threading, pm.queue = s.mp_shim(), s.threading_shim(), s.queue_shim()
    delivered, applied = [], []
    state = {'terminated': False, 'error': None}
    rows = [dict(id=i + 1, n=0) for i in range(R)]

    def predicate(row):
        return row['id'] in sel
    fail_ids = set(item.get('fail_ids') or [])

    def row_func_(row):
        if row['id'] in fail_ids:
            raise ValueError('row_func fails on row %d' % row['id'])
        row['n'] += 1

    fail_after = item.get('fail_after')

    def failing(rs):
        for i, row in enumerate(rs):
            if fail_after is not None and i == fail_after:
                raise UpstreamError('upstream failed at row %d' % i)
            yield row

    def consumer():
        it = failing(rows) if fail_after is not None else iter(rows)
        gen = pm.fork(_Res(it), row_func_, N, predicate)
        try:
            for row in gen:
                if not s.started:
                    s.log.append(['CPeekYield', row['id']])
                delivered.append(row['id'])
                applied.append(row['n'])
        except UpstreamError:
            if not s.started:
                s.log.append(['CPeekFail'])
            raise
        if not s.started:
            s.log.append(['CPeekEnd'])
        state['terminated'] = True
    import contextlib
    import io
    try:
        with contextlib.redirect_stdout(io.StringIO()):      # work() prints row_func failures
            main = s.run(consumer)
        if main.error is not None:
            state['error'] = '%s: %s' % (type(main.error).__name__, main.error)
    finally:
        pm.mp, pm.threading, pm.queue = saved
    leftovers = {n: a.state for n, a in s.actors.items() if a.state != 'done'}
    return dict(r=R, n=N, sel=sorted(sel), seed=item['seed'], strategy=strategy, ev=s.log, feeds=True,
                fin=dict(delivered=delivered, applied=applied,
                         terminated=bool(state['terminated'] and not leftovers and s.deadlock is None and state['error'] is None),
                         failed=isinstance(main.error, UpstreamError), clean=bool(not leftovers and s.deadlock is None)),
                deadlock=s.deadlock, error=state['error'], error_type=type(main.error).__name__ if main.error is not None else None,
                leftovers=leftovers, steps=s.steps, timeouts_fired=s.timeouts_fired)


class Diverged(Exception):
    pass


_ACTOR_OF = {'CFork': 'collector', 'CStartF': 'collector', 'PPut': 'producer', 'PMarker': 'producer', 'FGet': 'fetcher', 'FFwd': 'fetcher', 'FEnd': 'fetcher',
             'CGet': 'collector', 'CJoinProd': 'collector', 'CJoinW': 'collector', 'CJoinF': 'collector'}
_OP_OF = {'CFork': 'start', 'CStartF': 'start', 'PPut': 'put', 'PMarker': 'put', 'WGet': 'get', 'WPut': 'put', 'WExit': 'put', 'FGet': 'get', 'FFwd': 'put', 'FEnd': 'put',
          'CGet': 'get', 'CJoinProd': 'join', 'CJoinW': 'join', 'CJoinF': 'join'}
_INTERNAL = ('CPeekYield', 'CPeekEnd', 'CPeekFail', 'CStart')


def run_script(item):
    """spec -> code: item = dict(R, N, sel, fail_ids, script=[{a, w, st}...]) - one complete behaviour of Parallelize.tla
    (spec/ParallelizeSim.tla).  The scheduler grants exactly the scripted operation at every step (starting the actors
    belongs to CStart and is granted eagerly) and compares the projected state of the real queues with the spec state
    after every step.  If the implementation cannot follow (scripted operation not enabled, state differs, steps left
    over) the divergence is recorded and the run is finished under a uniform random schedule, so that the outcome can
    still be judged."""
    import random
    from .common import setup_repo
    setup_repo()
    pm = sys.modules['dataflows.processors.parallelize']
    R, N, sel = item['R'], item['N'], set(item['sel'])
    script = item['script']
    rnd = random.Random(item.get('seed', 0))
    pos = [0]
    div = {}
    delivered, applied = [], []
    calls = {}
    checked = [0]

    def ids(pickled):
        return [Sched.vid(pickle.loads(x)) for x in pickled]

    def project(s):
        qs = s.queues
        q_in = qs[0] if len(qs) > 0 else None
        q_int = qs[1] if len(qs) > 1 else None
        q_out = qs[2] if len(qs) > 2 else None
        return dict(qin=ids(q_in.pipe) if q_in else [], pbuf=ids(q_in.buf.get('producer', [])) if q_in else [],
                    qout=ids(q_out.pipe) if q_out else [],
                    obuf=[ids(q_out.buf.get('w%d' % w, [])) if q_out else [] for w in range(1, N + 1)],
                    qint=[Sched.vid(x) for x in q_int.items] if q_int else [],
                    delivered=list(delivered), applied=[calls.get(r, 0) for r in range(1, R + 1)])

    def expected(st):
        return dict(qin=list(st['qin']), pbuf=list(st['pbuf']), qout=list(st['qout']), obuf=[list(x) for x in st['obuf']],
                    qint=list(st['qint']), delivered=list(st['delivered']), applied=list(st['applied'] or []))

    def diverge(why, **kw):
        if not div:
            div.update(dict(why=why, at=pos[0], **kw))

    def chooser(enabled, s):
        if div:
            return rnd.choice(enabled)
        # starting the producer thread is CStart; an actor's first step only brings it to its first queue operation; the forks of
        # the workers and the start of the fetcher are steps of the specification (CFork, CStartF)
        for e in enabled:
            if e[0] == 'act' and (s.actors[e[1]].pending[0] == 'begin' or (s.actors[e[1]].pending[0] == 'start' and not s.started)):
                return e
        while pos[0] < len(script) and script[pos[0]]['a'] in _INTERNAL:
            pos[0] += 1
        if pos[0] > 0:
            exp, got = expected(script[pos[0] - 1]['st']), project(s)
            checked[0] += 1
            if exp != got:
                diverge('the state after step %d (%s) differs from the specification' % (pos[0], script[pos[0] - 1]['a']), expected=exp, actual=got)
                return rnd.choice(enabled)
        if pos[0] >= len(script):
            diverge('the behaviour of the specification has ended but the implementation still has operations to perform',
                    enabled=[str(s.describe(s.actors[e[1]].pending)) if e[0] != 'feed' else 'feed' for e in enabled])
            return rnd.choice(enabled)
        ent = script[pos[0]]
        a, w = ent['a'], ent['w']
        if a == 'FeedIn':
            want = [e for e in enabled if e[0] == 'feed' and s.role_of_queue(e[1]) == 'q_in' and e[2] == 'producer']
        elif a == 'FeedOut':
            want = [e for e in enabled if e[0] == 'feed' and s.role_of_queue(e[1]) == 'q_out' and e[2] == 'w%d' % w]
        else:
            name = _ACTOR_OF.get(a) or 'w%d' % w
            want = [e for e in enabled if e[0] == 'act' and e[1] == name and s.actors[name].pending[0] == _OP_OF[a]]
        if not want:
            diverge('the operation the specification takes next (%s%s) is not enabled in the implementation' % (a, ' w=%d' % w if w else ''),
                    enabled=[(e[1] + ':' + str(s.describe(s.actors[e[1]].pending))) if e[0] != 'feed' else 'feed:%s' % e[2] for e in enabled])
            return rnd.choice(enabled)
        pos[0] += 1
        return want[0]
    s = Sched(chooser)
    saved = (pm.mp, pm.threading, pm.queue)
    pm.mp, pm.threading, pm.queue = s.mp_shim(), s.threading_shim(), s.queue_shim()
    state = {'terminated': False, 'error': None}
    rows = [dict(id=i + 1, n=0) for i in range(R)]
    fail_ids = set(item.get('fail_ids') or [])

    def predicate(row):
        return row['id'] in sel

    def row_func_(row):
        if row['id'] in fail_ids:
            raise ValueError('row_func fails on row %d' % row['id'])
        calls[row['id']] = calls.get(row['id'], 0) + 1
        row['n'] += 1

    fail_at = item.get('fail_at') or 0          # Parallelize!FailAt: the upstream raises when asked for its fail_at-th item

    def upstream():
        for i, row in enumerate(rows, start=1):
            if i == fail_at:
                raise UpstreamError('upstream failed at item %d' % i)
            yield row
        if fail_at == R + 1:
            raise UpstreamError('upstream failed at exhaustion')

    def consumer():
        gen = pm.fork(_Res(upstream()), row_func_, N, predicate)
        try:
            for row in gen:
                if not s.started:
                    s.log.append(['CPeekYield', row['id']])
                delivered.append(row['id'])
                applied.append(row['n'])
        except UpstreamError:
            if not s.started:
                s.log.append(['CPeekFail'])
            raise
        if not s.started:
            s.log.append(['CPeekEnd'])
        state['terminated'] = True
    import contextlib
    import io
    try:
        with contextlib.redirect_stdout(io.StringIO()):
            main = s.run(consumer)
        if main.error is not None:
            state['error'] = '%s: %s' % (type(main.error).__name__, main.error)
    finally:
        pm.mp, pm.threading, pm.queue = saved
    leftovers = {n: a.state for n, a in s.actors.items() if a.state != 'done'}
    if not div:
        while pos[0] < len(script) and script[pos[0]]['a'] in _INTERNAL:
            pos[0] += 1
        if pos[0] < len(script):
            diverge('the implementation finished although the specification still has steps (%s ...)' % script[pos[0]]['a'])
        else:
            want = [[e['a']] + ([e['w']] if e['a'] in ('WGet', 'WPut', 'WExit', 'FeedOut', 'CJoinW', 'CFork') else []) for e in script]
            got = [[e[0]] + ([e[1]] if e[0] in ('WGet', 'WPut', 'WExit', 'FeedOut', 'CJoinW', 'CFork') else []) for e in s.log]
            if want != got:
                k = next((i for i, (x, y) in enumerate(zip(want, got)) if x != y), min(len(want), len(got)))
                diverge('the recorded operations differ from the scripted ones at %d' % k, expected=want[k:k + 3], actual=got[k:k + 3])
            elif script and project(s) != expected(script[-1]['st']):
                diverge('the final state differs from the specification', expected=expected(script[-1]['st']), actual=project(s))
    return dict(r=R, n=N, sel=sorted(sel), ev=s.log, feeds=True,
                fin=dict(delivered=delivered, applied=applied,
                         terminated=bool(state['terminated'] and not leftovers and s.deadlock is None and state['error'] is None),
                         failed=isinstance(main.error, UpstreamError), clean=bool(not leftovers and s.deadlock is None)),
                deadlock=s.deadlock, error=state['error'], leftovers=leftovers, steps=s.steps, followed=not div, divergence=div or None,
                states_compared=checked[0], script_len=len(script))


class _Res:
    """stands for the ResourceWrapper handed to fork: iter() returns the one underlying iterator"""

    def __init__(self, it):
        self.it = it

    def __iter__(self):
        return self.it
