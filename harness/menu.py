"""The Menu: concrete step instances (factories - a fresh object per run) and the input catalogue shared by
the program-level checks (C01, C02, C05, C06).  Field names a b c, iterable sources named res_1, res_2 ..."""
import copy
import functools
import os
from decimal import Decimal


def catalogue():
    big = [dict(a=i % 3, b='s%d' % i) for i in range(150)]
    return {
        'I0': [[dict(a=1, b='x'), dict(a=2, b='y'), dict(a=2, b=None)]],
        'I1': [[dict(a=1, b='x'), dict(a=2, b='y'), dict(a=2, b=None)],
               [dict(a=1, c=Decimal('1.5')), dict(a=3, c=Decimal('2'))]],
        'I2': [[dict(a=1, b='x')], []],
        'I3': [big],
        'I4': [big, [dict(a=1, c=Decimal('1.5')), dict(a=0, c=Decimal('2'))]],
        'I5': [[dict(a=1, b='x', tags=['t1'], meta=dict(n=[1])), dict(a=2, b='y', tags=[], meta=dict(n=[]))],
               [dict(a=1, c=Decimal('1.5'))]],
    }


def fresh_input(name):
    return [[dict(r) for r in rows] for rows in catalogue()[name]]


class Tmp:
    """hands out fresh directories under one scratch root"""

    def __init__(self, root):
        self.root = root
        self.n = 0

    def new(self):
        self.n += 1
        p = os.path.join(self.root, 'd%d' % self.n)
        return p


def _row_inplace(row):
    row['a'] = (row['a'] or 0) + 10


def _row_new(row):
    return dict(row, a=(row['a'] or 0) + 10)


def _nested_inplace(row):
    # edits NESTED values in place (a shallow copy of the row still shares them)
    if isinstance(row.get('tags'), list):
        row['tags'].append('edited')
    if isinstance(row.get('meta'), dict):
        row['meta'].setdefault('n', []).append(9)


def _rows_gen(rows):
    for row in rows:
        if row['a'] != 1:
            yield row


def _pkg_fn(package):
    for r in package.pkg.descriptor['resources']:
        r['schema']['fields'].append(dict(name='p', type='integer'))
    yield package.pkg
    for res in package:
        yield (dict(row, p=7) for row in res)


class _Obj:
    def row(self, row):
        row['a'] = (row['a'] or 0) + 10

    def __call__(self, row):
        row['a'] = (row['a'] or 0) + 10


def _noprint(*a, **k):
    pass


def menu(tmp):
    """name -> factory() returning a fresh link.  tmp: Tmp."""
    import dataflows as DF
    m = {}
    m['add_field'] = lambda: DF.add_field('z', 'integer', 5)
    m['add_field_fn'] = lambda: DF.add_field('w', 'string', lambda row: 'k%s' % row['a'])
    m['acf_sum'] = lambda: DF.add_computed_field(target='sm', operation='sum', source=['a'])
    m['acf_format'] = lambda: DF.add_computed_field(target='f', operation='format', with_='{a}-x')
    m['acf_constant'] = lambda: DF.add_computed_field(target=dict(name='cst', type='string'), operation='constant', with_='q')
    m['delete_fields_b'] = lambda: DF.delete_fields(['b'], resources=0)
    m['select_fields_a'] = lambda: DF.select_fields(['a'])
    m['rename_a'] = lambda: DF.rename_fields({'a': 'A'}, resources=0)
    m['find_replace_b'] = lambda: DF.find_replace([dict(name='b', patterns=[dict(find='x', replace='X')])], resources=0)
    m['set_type_a_number'] = lambda: DF.set_type('a', type='number', resources=None)
    m['set_type_a_string'] = lambda: DF.set_type('a', type='string', resources=0, transform=lambda v: str(v))
    # one pattern that matches DIFFERENTLY named fields in different resources (b in res_1, c in res_2), with a transform:
    # each resource gets its own matches only (a row must never gain the keys matched in another resource)
    m['set_type_bc_tf'] = lambda: DF.set_type('[bc]', type='string', resources=None, transform=lambda v: None if v is None else str(v))
    m['validate'] = lambda: DF.validate()
    m['update_schema'] = lambda: DF.update_schema(-1, verifmark=1)
    m['set_primary_key'] = lambda: DF.set_primary_key(['a'])
    m['update_resource'] = lambda: DF.update_resource(-1, title='T')
    m['update_package'] = lambda: DF.update_package(title='P')
    m['filter_eq'] = lambda: DF.filter_rows(equals=[dict(a=2)])
    m['filter_fn'] = lambda: DF.filter_rows(condition=lambda r: r['a'] != 2)
    m['deduplicate'] = lambda: DF.Flow(DF.set_primary_key(['a']), DF.deduplicate())
    m['unpivot'] = lambda: DF.unpivot([dict(name='b', keys=dict(k='b'))], [dict(name='k', type='string')],
                                      dict(name='v', type='string'), resources=0)
    m['sort_a'] = lambda: DF.sort_rows('{a}')
    m['sort_a_rev'] = lambda: DF.sort_rows('{a}', reverse=True)
    m['duplicate'] = lambda: DF.duplicate('res_1', 'res_1_copy')
    m['duplicate_end'] = lambda: DF.duplicate('res_1', 'res_1_dup', duplicate_to_end=True)
    m['delete_first'] = lambda: DF.delete_resource(0)
    m['delete_last'] = lambda: DF.delete_resource(-1)
    m['concatenate'] = lambda: DF.concatenate(dict(a=[], b=[]), target=dict(name='cc'))
    m['join'] = lambda: DF.join('res_1', ['a'], 'res_2', ['a'], dict(b=dict(aggregate='first')), mode='half-outer')
    m['join_keep'] = lambda: DF.join('res_1', ['a'], 'res_2', ['a'], dict(cnt=dict(aggregate='count')), mode='inner',
                                     source_delete=False)
    m['join_with_self'] = lambda: DF.join_with_self('res_1', ['a'], dict(a=None, n=dict(aggregate='count')))
    m['printer'] = lambda: DF.printer(header_print=_noprint, table_print=_noprint)
    m['dump_to_path'] = lambda: DF.dump_to_path(tmp.new())
    m['dump_to_zip'] = lambda: DF.dump_to_zip(_mk(tmp.new()) + '/o.zip')
    m['stream'] = lambda: DF.stream(_mk(tmp.new()) + '/s.ndjson')
    m['checkpoint'] = lambda: DF.checkpoint('cp', checkpoint_path=tmp.new())
    m['finalizer'] = lambda: DF.finalizer(lambda: None)
    m['update_stats'] = lambda: DF.update_stats(dict(k=1))
    m['row_inplace'] = lambda: _row_inplace
    m['row_new'] = lambda: _row_new
    m['nested_inplace'] = lambda: _nested_inplace
    m['rows_gen'] = lambda: _rows_gen
    m['pkg_fn'] = lambda: _pkg_fn
    m['source_list'] = lambda: [dict(a=7, b='n'), dict(a=8, b='m')]
    m['source_gen'] = lambda: (dict(a=i, c=Decimal(i)) for i in range(3))
    # an iterable whose cells need the cast the loader applies to every row ('' is the missing value of the inferred schema: a null),
    # and a step that SEES the difference in the middle of the chain
    m['source_blank'] = lambda: [dict(a=11, b=''), dict(a=12, b='w'), dict(a=13, b='')]
    m['filter_b_notnull'] = lambda: DF.filter_rows(condition=lambda r: r.get('b', 0) is not None)
    m['sources'] = lambda: DF.sources([dict(a=5, b='u')], [dict(a=6, b='v')])
    return m


def _mk(p):
    os.makedirs(p, exist_ok=True)
    return p


# callable flavours for the dispatch part of C01: the same row edit written six ways
def flavours():
    o = _Obj()
    return {
        'def': _row_inplace,
        'lambda': (lambda row: dict(row, a=(row['a'] or 0) + 10)),
        'bound_method': o.row,
        'partial': functools.partial(lambda extra, row: dict(row, a=(row['a'] or 0) + extra), 10),
        'callable_object': o,
        'closure': (lambda k: (lambda row: dict(row, a=(row['a'] or 0) + k)))(10),
    }


def rows_flavours():
    class R:
        def rows(self, rows):
            for row in rows:
                if row['a'] != 1:
                    yield row

        def __call__(self, rows):
            for row in rows:
                if row['a'] != 1:
                    yield row
    o = R()

    def base(k, rows):
        for row in rows:
            if row['a'] != k:
                yield row
    return {'def': _rows_gen, 'bound_method': o.rows, 'partial': functools.partial(base, 1), 'callable_object': o}
