"""C11 - join computes the relational join with the documented aggregates.

Spec:   spec/ProcJoin.tla: the declarative definition (JoinDef, DedupDef, one AggDef per aggregator) and the streaming
        design of the code (IndexRow / EmitTarget / unused keys); TLC checks streaming = declarative on every case and
        exports the cases; spec/JoinTrace.tla judges recorded real joins of larger random tables by JoinDef.
Bind:   every exported case (all 12 aggregators x 3 modes x source/target tables <= 2 (quick) / 3 (thorough) rows over
        keys and values {1, 2, null}; key as field list / format string / row number; source_delete; wildcard mapping;
        deduplication mode) is run on the real join; target rows are compared in order, unmatched-source rows and
        deduplication rows as multisets.
"""
import contextlib
import io
import json
import os
from fractions import Fraction

from .. import tlc
from ..common import Report, pmap, harness_errors, rng, setup_repo, canon

PROP = 'C11'
AGGS = ["sum", "avg", "median", "min", "max", "first", "last", "count", "counters", "set", "array", "any"]


def tla_set(xs):
    return '{' + ', '.join('"%s"' % x for x in xs) + '}'


def model(rep, max_src, max_tgt, aggs, shapes, name, neg='FALSE'):
    wd = tlc.workdir('c11')
    cfg = tlc.write_cfg(os.path.join(wd, 'pj.cfg'), constants={'MaxSrc': max_src, 'MaxTgt': max_tgt, 'Aggs': tla_set(aggs),
                        'Modes': tla_set(['inner', 'half-outer', 'full-outer']), 'KeyShapes': tla_set(shapes), 'NegVals': neg},
                        invariants=['StreamingMeetsDefinition', 'DedupMeetsDefinition'], constraints=['Export'])
    res = tlc.run_tlc('ProcJoin', cfg, workers=1, allow_violation=False, timeout=7200)
    rep.add_tlc(res, name)
    return res.cases


# ---- value projection

def from_spec(v):
    """tagged spec value -> canonical comparable python value"""
    t = v[0]
    if t == 'n':
        return ('n',)
    if t == 'i':
        return ('q', Fraction(v[1]))
    if t == 'q':
        return ('q', Fraction(v[1], v[2]))
    if t == 'a':
        return ('a', tuple(from_spec(x) for x in v[1]))
    if t == 's':
        return ('s', frozenset(from_spec(x) for x in v[1]))
    if t == 'c':
        return ('c', frozenset((from_spec(x[0]), x[1]) for x in v[1]))
    raise ValueError(v)


def from_real(v, agg):
    from decimal import Decimal
    if agg == 'set' and isinstance(v, (list, set, tuple)):
        return ('s', frozenset(from_real(x, None) for x in v))
    if agg == 'counters' and isinstance(v, (list, tuple)):
        return ('c', frozenset((from_real(x[0], None), x[1]) for x in v))
    if agg == 'array' and isinstance(v, (list, tuple)):
        return ('a', tuple(from_real(x, None) for x in v))
    if v is None:
        return ('n',)
    if isinstance(v, bool):
        return ('b', v)
    if isinstance(v, float):
        return ('q', exact(v))
    if isinstance(v, (int, Decimal)):
        return ('q', Fraction(v))
    return ('?', repr(v))


def exact(x):
    """the small-denominator rational a double stands for (sum/count correctly rounded), else the double itself"""
    f = Fraction(x).limit_denominator(1000)
    return f if float(f) == x else Fraction(x)


def py(v):
    return None if v[0] == 'n' else v[1]


def to_spec(v, agg):
    """real python value -> tagged spec JSON (for JoinTrace)"""
    if v is None:
        return ['n']
    if agg == 'array':
        return ['a', [to_spec(x, None) for x in v]]
    if agg == 'set':
        return ['s', [to_spec(x, None) for x in v]]
    if agg == 'counters':
        return ['c', [[to_spec(x[0], None), x[1]] for x in v]]
    if v is None:
        return ['n']
    if isinstance(v, bool):
        return ['b', v]
    if isinstance(v, float):
        f = exact(v)
        return ['q', f.numerator, f.denominator]
    if isinstance(v, int):
        return ['i', v]
    # anything else is not a value the definition can produce here: a well-typed tag, so that the comparison fails instead of the checker
    return ['t', str(v)]


def run_join(src, tgt, mode, agg, shape_variant, source_delete, wildcard):
    """real join on python rows; returns (ordered rows [(k,t,x)], extra rows [(key, x)])"""
    from dataflows import Flow, join
    from ..common import tuple_source
    S = [dict(k=py(r['k']), v=py(r['v'])) for r in src]
    T = [dict(k=py(r['k']), t=py(r['t'])) for r in tgt]
    key = {'list': ['k'], 'format': '{k}', 'rownum': '{#}', 'format2': 'K-{k}'}[shape_variant]
    xname = 'v' if wildcard else 'x'
    fields = {'*': dict(aggregate=agg)} if wildcard else {'x': dict(name='v', aggregate=agg)}
    if wildcard:
        fields = {'v': dict(aggregate=agg), '*': dict(aggregate='any')}
    links = [tuple_source([('src', [('k', 'integer'), ('v', 'integer')], S), ('tgt', [('k', 'integer'), ('t', 'integer')], T)]),
             join('src', key, 'tgt', key, fields=fields, mode=mode, source_delete=source_delete)]
    with contextlib.redirect_stdout(io.StringIO()):
        ds = Flow(*links).datastream()
        out = [[dict(r) for r in res] for res in ds.res_iter]
        names = [r['name'] for r in ds.dp.descriptor['resources']]
        fnames = {r['name']: [f['name'] for f in r['schema']['fields']] for r in ds.dp.descriptor['resources']}
    if names != (['tgt'] if source_delete else ['src', 'tgt']):
        raise AssertionError('resources after join: %s' % names)
    # descriptors: a source that is kept keeps its own fields; the target gains exactly the joined field
    if not source_delete and fnames['src'] != ['k', 'v']:
        raise AssertionError('descriptor of the kept source altered by join: %s' % fnames['src'])
    if fnames['tgt'] != ['k', 't'] + [xname] and not wildcard:
        raise AssertionError('descriptor of the target after join: %s' % fnames['tgt'])
    if not source_delete and out[0] != S:
        raise AssertionError('source resource altered by join(source_delete=False)')
    rows = out[-1]
    # "keeps them with nulls": every emitted row - also an unmatched target row - CARRIES the joined field (a null is a value,
    # a missing key is not: the next step of the pipeline reads row[field])
    lacking = [r for r in rows if xname not in r]
    if lacking:
        raise AssertionError('a row emitted by join does not carry the joined field %r: %r' % (xname, lacking[0]))
    # ... and exactly the fields the emitted schema declares: no more (a '#' of the row-number key), no less (the row of an unmatched
    # source key has the target's own fields, null)
    odd = [r for r in rows if set(r) != set(fnames['tgt'])]
    if odd:
        raise AssertionError('a row emitted by join does not carry exactly the declared fields %s: %r' % (fnames['tgt'], odd[0]))
    # every target row gets an aggregate VALUE of its own: two rows with the same key must not share one mutable object (the next step
    # may edit a row in place)
    cont = [r[xname] for r in rows if isinstance(r.get(xname), (list, dict, set))]
    if len({id(x) for x in cont}) != len(cont):
        raise AssertionError('two rows emitted by join share one mutable aggregate object (%s)' % type(cont[0]).__name__)
    return rows, xname


def replay_case(item):
    setup_repo()
    c, variant = item['case'], item['variant']
    agg = c['agg']
    try:
        if variant.get('dedup'):
            from dataflows import Flow, join_with_self
            from ..common import tuple_source
            S = [dict(k=py(r['k']), v=py(r['v'])) for r in c['src']]
            with contextlib.redirect_stdout(io.StringIO()):
                ds = Flow(tuple_source([('src', [('k', 'integer'), ('v', 'integer')], S)]),
                          join_with_self('src', ['k'], dict(k=None, x=dict(name='v', aggregate=agg)))).datastream()
                rows = [[dict(r) for r in res] for res in ds.res_iter][0]
            got = sorted(canon([from_real(r.get('k'), None), from_real(r.get('x'), agg)]) for r in rows)
            want = sorted(canon([from_spec(d['key']), from_spec(d['x'])]) for d in c['dedup'])
            if got != want:
                return dict(ok=False, why='deduplication rows differ', got=got, want=want)
            return dict(ok=True)
        rows, xname = run_join(c['src'], c['tgt'], c['mode'], agg, variant['shape'], variant['source_delete'], variant['wildcard'])
    except Exception as e:
        return dict(ok=False, why='raised %s: %s' % (type(e).__name__, str(e)[:200]), exc=type(e).__name__)
    n = len(c['ordered'])
    got_o = [(from_real(r.get('k'), None), from_real(r.get('t'), None), from_real(r.get(xname), agg)) for r in rows[:n]]
    want_o = [(from_spec(d['k']), from_spec(d['t']), from_spec(d['x'])) for d in c['ordered']]
    if got_o != want_o:
        return dict(ok=False, why='target rows differ', got=canon(got_o), want=canon(want_o))
    if c['shape'] == 'rownum':
        got_e = sorted(canon([from_real(r.get('t', 'absent'), None), from_real(r.get(xname), agg)]) for r in rows[n:])
        want_e = sorted(canon([from_spec(d['t']), from_spec(d['x'])]) for d in c['extra'])
    else:
        got_e = sorted(canon([from_real(r.get('k'), None), from_real(r.get('t', 'absent'), None), from_real(r.get(xname), agg)]) for r in rows[n:])
        want_e = sorted(canon([from_spec(d['key']), from_spec(d['t']), from_spec(d['x'])]) for d in c['extra'])
    if got_e != want_e:
        return dict(ok=False, why='rows for unmatched source keys differ', got=got_e, want=want_e)
    return dict(ok=True)


def random_join(item):
    """code -> spec: a larger random join, recorded for JoinTrace.tla"""
    import random
    setup_repo()
    r = random.Random(item['seed'])
    vals = [['i', i] for i in (-2, -1, 0, 1, 2, 5)] + [['n']]
    keys = [['i', i] for i in (0, 1, 2, 3, 10)] + [['n']]
    ns, nt = r.randint(0, 12), r.randint(0, 12)
    src = [dict(k=r.choice(keys), v=r.choice(vals)) for _ in range(ns)]
    tgt = [dict(k=r.choice(keys), t=['i', 7]) for _ in range(nt)]
    mode = r.choice(['inner', 'half-outer', 'full-outer'])
    agg = r.choice(AGGS)
    shape = r.choice(['field', 'field', 'rownum'])
    try:
        rows, xname = run_join(src, tgt, mode, agg, 'list' if shape == 'field' else 'rownum', True, False)
    except Exception as e:
        return dict(src=src, tgt=tgt, mode=mode, agg=agg, shape=shape, raised='%s: %s' % (type(e).__name__, e))
    # the target rows come first and carry t = 7; rows for unmatched source keys have no t
    ordered = [dict(k=to_spec(x.get('k'), None), t=to_spec(x.get('t'), None), x=to_spec(x.get(xname), agg)) for x in rows if x.get('t') is not None]
    extra_rows = [x for x in rows if x.get('t') is None]
    extra = [dict(key=(to_spec(x.get('k'), None) if shape == 'field' else None), t=to_spec(x.get('t', 'absent'), None), x=to_spec(x.get(xname), agg)) for x in extra_rows]
    order_ok = all(x.get('t') is not None for x in rows[:len(ordered)])
    return dict(src=src, tgt=tgt, mode=mode, agg=agg, shape=shape, ordered=ordered, extra=extra, order_ok=order_ok)


def big_join(item):
    """more distinct keys than the key/value store's in-memory cache (10 240): the on-disk index is used"""
    from dataflows import Flow, join
    from ..common import tuple_source
    import kvfile
    setup_repo()
    n, dup, agg = item['n'], item['dup'], item['agg']
    src = [dict(k=i, v=i % 7) for i in range(1, n + 1)]
    # duplicates interleaved far from their first occurrence
    src = src[: n // 2] + [dict(k=i, v=1) for i in range(1, dup + 1)] + src[n // 2:]
    if agg in ('first',):
        pass
    tgt_keys = list(range(1, 60)) + list(range(n - 5, n + 6)) + [n // 2, n // 2 + 1, 7, 7]
    with contextlib.redirect_stdout(io.StringIO()):
        ds = Flow(tuple_source([('src', [('k', 'integer'), ('v', 'integer')], src), ('tgt', [('k', 'integer')], [dict(k=k) for k in tgt_keys])]),
                  join('src', ['k'], 'tgt', ['k'], {'x': dict(name='v', aggregate=agg)}, mode='half-outer')).datastream()
        rows = [[dict(r) for r in res] for res in ds.res_iter][0]
    out = [[r['k'], -1 if r.get('x') is None else r['x']] for r in rows]
    if agg == 'last':
        # the duplicate of key i <= dup comes after its first row only for i <= n // 2 ... both orders are in the input on purpose
        pass
    return dict(n=n, dup=dup, agg=agg, tgt=tgt_keys, out=out)


def validate_big(rep, recs):
    wd = tlc.workdir('c11b')
    tf = tlc.write_ndjson(os.path.join(wd, 'recs.ndjson'), recs)
    cfg = tlc.write_cfg(os.path.join(wd, 'tr.cfg'), constraints=['Verdict'])
    res = tlc.run_tlc('JoinBigTrace', cfg, workers=1, env={'TRACE_FILE': tf}, allow_violation=False, timeout=3000)
    rep.add_tlc(res, 'JoinBigTrace: %d joins with > 10 240 distinct keys (on-disk index)' % len(recs))
    out = {v[0]: v[1] for v in res.tuples('VERDICT')}
    if len(out) != len(recs):
        raise tlc.MachineryError('JoinBigTrace: %d verdicts for %d records' % (len(out), len(recs)))
    return [out[i + 1] for i in range(len(recs))]


def validate(rep, recs):
    wd = tlc.workdir('c11t')
    tf = tlc.write_ndjson(os.path.join(wd, 'recs.ndjson'), recs)
    cfg = tlc.write_cfg(os.path.join(wd, 'tr.cfg'), spec='TSpec', constraints=['Verdict'], constants={
        'MaxSrc': 0, 'MaxTgt': 0, 'Aggs': tla_set(AGGS), 'Modes': tla_set(['inner']), 'KeyShapes': tla_set(['field']), 'NegVals': 'FALSE'})
    res = tlc.run_tlc('JoinTrace', cfg, workers=1, env={'TRACE_FILE': tf}, allow_violation=False, timeout=3000)
    rep.add_tlc(res, 'JoinTrace: %d recorded joins of random tables (<= 12 rows)' % len(recs))
    out = {v[0]: (v[1], v[2]) for v in res.tuples('VERDICT')}
    if len(out) != len(recs):
        raise tlc.MachineryError('JoinTrace: %d verdicts for %d records' % (len(out), len(recs)))
    return [out[i + 1] for i in range(len(recs))]


def run():
    rep = Report(PROP)
    t = rep.tier
    setup_repo()
    r = rng(PROP)
    n = 2 if t == 'quick' else 3
    cases = model(rep, n, 2, AGGS, ['field'], 'ProcJoin all 12 aggregators x 3 modes, <=%d source x <=2 target rows: streaming = declarative' % n)
    cases2 = model(rep, 2, 2, ['first', 'count', 'sum', 'array'], ['rownum'], 'ProcJoin key = row number')
    # a running aggregate that is exactly 0 followed by a NEGATIVE value (0 is falsy: "no value yet" must be tested with None)
    cases3 = model(rep, n, 1, ['min', 'max', 'first', 'last', 'any', 'set', 'array', 'counters', 'count'], ['field'],
                    'ProcJoin order/collection aggregators over the values {0, -1, null}', neg='TRUE')
    items = []
    for c in cases:
        if t == 'quick' and r.random() > 0.2:
            continue
        v = r.random()
        variant = dict(shape=r.choice(['list', 'format', 'format2']), source_delete=r.random() < 0.7, wildcard=(r.random() < 0.15))
        items.append(dict(case=c, variant=variant))
        if c['tgt'] == [] and c['mode'] == 'inner' and (t == 'thorough' or r.random() < 0.5):
            items.append(dict(case=c, variant=dict(dedup=True)))
    for c in cases2:
        if t == 'quick' and r.random() > 0.3:
            continue
        items.append(dict(case=c, variant=dict(shape='rownum', source_delete=True, wildcard=False)))
    for c in cases3:
        if len(c['src']) < 2 or (t == 'quick' and r.random() > 0.5):
            continue
        items.append(dict(case=c, variant=dict(shape=r.choice(['list', 'format']), source_delete=r.random() < 0.7, wildcard=False)))
    res = pmap(replay_case, items, chunksize=32)
    errs = harness_errors(res)
    if errs:
        raise tlc.MachineryError('harness error in join replay: ' + errs[0])
    for it, out in zip(items, res):
        rep.count(1, traces=1)
        c = it['case']
        if len(c['src']) + len(c['tgt']) > 0:
            rep.mark_distinct(it)
        if not out['ok']:
            rep.violation(it, dict(agg=c['agg'], mode=c['mode'], variant=it['variant'], src=c['src'], tgt=c['tgt'], **{k: v for k, v in out.items() if k != 'ok'}),
                          category='%s/%s/%s' % (c['agg'], 'dedup' if it['variant'].get('dedup') else c['mode'], out['why'][:40]))
    rep.sample(dict(case=items[len(items) // 2]))
    # code -> spec
    ritems = [dict(seed=r.randrange(10 ** 9)) for _ in range(300 if t == 'quick' else 6000)]
    recs = pmap(random_join, ritems, chunksize=16)
    errs = harness_errors(recs)
    if errs:
        raise tlc.MachineryError('harness error in random joins: ' + errs[0])
    good = [x for x in recs if 'raised' not in x]
    for x in recs:
        if 'raised' in x:
            rep.count(1, traces=1)
            rep.violation(x, dict(why='join raised on a well-formed input', raised=x['raised'], agg=x['agg'], mode=x['mode']), category='random/%s/raised' % x['agg'])
    if good:
        for g in good:
            for e in g['extra']:
                if e['key'] is None:
                    e['key'] = ['n']
        verd = validate(rep, [dict(src=g['src'], tgt=g['tgt'], mode=g['mode'], agg=g['agg'], shape=g['shape'], ordered=g['ordered'],
                                   extra=[e if g['shape'] == 'field' else dict(key=['i', 0], t=e['t'], x=e['x']) for e in g['extra']]) for g in good])
        # the binding binds: a recorded join with its last emitted row removed must be rejected
        import copy
        probe = next((g for g in good if len(g['ordered']) >= 1 and g['shape'] == 'field'), None)
        if probe is not None:
            c1 = dict(src=probe['src'], tgt=probe['tgt'], mode=probe['mode'], agg=probe['agg'], shape=probe['shape'],
                      ordered=copy.deepcopy(probe['ordered'])[:-1], extra=probe['extra'])
            o1, _ = validate(rep, [c1])[0]
            if o1:
                raise tlc.MachineryError('JoinTrace accepted a recorded join with an output row removed: the trace spec does not bind')
            rep.notes['trace_binding_selftest'] = 'a recorded join with its last output row removed is rejected'
        for g, (o_ok, e_ok) in zip(good, verd):
            rep.count(1, traces=1)
            rep.mark_distinct(g)
            if not o_ok or not e_ok or not g['order_ok']:
                rep.violation(g, dict(why='recorded join differs from JoinDef', ordered_ok=o_ok, extra_ok=e_ok, target_rows_first=g['order_ok'],
                                      agg=g['agg'], mode=g['mode'], shape=g['shape'], src=g['src'], tgt=g['tgt'], ordered=g['ordered'], extra=g['extra']),
                              category='random/%s/%s' % (g['agg'], g['mode']))
        rep.sample(dict(random_join=dict(src=good[0]['src'], tgt=good[0]['tgt'], mode=good[0]['mode'], agg=good[0]['agg'], ordered=good[0]['ordered'])))
    # the spill path
    bitems = [dict(n=10600 if t == 'quick' else 12000, dup=40, agg=a) for a in (['sum', 'last'] if t == 'quick' else ['sum', 'count', 'max', 'first', 'last'])]
    if t == 'thorough':
        bitems.append(dict(n=25000, dup=300, agg='sum'))
    brecs = pmap(big_join, bitems, procs=len(bitems), chunksize=1)
    errs = harness_errors(brecs)
    if errs:
        raise tlc.MachineryError('harness error in big joins: ' + errs[0])
    for it, ok in zip(bitems, validate_big(rep, brecs)):
        rep.count(1, traces=1)
        rep.mark_distinct(it)
        if not ok:
            rep.violation(it, dict(why='join over > 10 240 distinct keys differs from the closed-form definition', case=it), category='spill/%s' % it['agg'])
    rep.assumptions += ['numeric aggregates are compared as exact rationals (a real float 1.5 = 3/2); set / counters / unmatched-source rows / deduplication rows as multisets',
                        'rows are read through datastream() (before the final validation of results()), values by row.get (missing = null)']
    return rep.finish(exhaustive=(t == 'thorough'))


def replay(path):
    setup_repo()
    rec = json.load(open(path))
    c = rec['case']
    if 'variant' in c:
        out = replay_case(c)
        print(out)
        bad = not out['ok']
    else:
        print('random joins are re-derived by re-running the check with the same VERIF_SEED')
        bad = False
    if bad:
        print('VIOLATION property=%s replay=%s' % (PROP, path))
    return 1 if bad else 0
