"""C01 - lazy chained execution equals step-by-step evaluation of the same steps.

Spec:   spec/Engine.tla (LazyEqualsEager: out = Eval(steps) for every program of the bounded universe),
        spec/EngineTrace.tla (recorded executions are behaviours; clause C01 on the recorded results)
Bind:   (a) probe traces of real runs of abstract programs, in three driver modes, validated by TLC;
        (b) the property's own differential on the full Menu of built-in steps: chained run vs every step run
            alone on the materialised output of the previous one, every split into nested Flows, every step
            wrapped in an always-true conditional, results()/process()/datastream();
        (c) link dispatch: every callable flavour takes effect, every non-link is rejected.
"""
import copy
import json
import io
import contextlib
import os
import shutil
import tempfile

from .. import tlc, engine
from ..common import Report, pmap, harness_errors, rng, setup_repo, canon

PROP = 'C01'
KINDS_NOFAULT = ['src', 'map', 'filter', 'del', 'obs', 'sort', 'fin', 'dup', 'cat', 'cond']


def model(rep, max_len):
    wd = tlc.workdir('c01')
    cfg = tlc.write_cfg(os.path.join(wd, 'mc.cfg'), constants={
        'MaxLen': max_len, 'Sample': 2, 'Ahead': 2, 'SwallowCast': 'FALSE', 'SrcRows': '<- SrcRowsSmall',
        'Kinds': '{' + ', '.join('"%s"' % k for k in KINDS_NOFAULT) + '}'},
        invariants=['NoDeadlock', 'LazyEqualsEager', 'ObserverComplete', 'AllObserversCommit', 'FinalizerOnce'],
        spec='FairSpec', properties=['Terminates'])
    res = tlc.run_tlc('Engine', cfg, allow_violation=False, timeout=3000, coverage=True)
    rep.add_tlc(res, 'Engine MaxLen=%d kinds=%s: LazyEqualsEager, NoDeadlock, ObserverComplete' % (max_len, ','.join(KINDS_NOFAULT)))
    # the model explains a design rule: the copy made by duplicate holds what had streamed when it is asked for, so a
    # delete_resource that skipped the rows of the resource it drops would break the equivalence (TLC must refute it)
    cfg = tlc.write_cfg(os.path.join(wd, 'mcd.cfg'), constants={
        'MaxLen': 3, 'Sample': 2, 'Ahead': 2, 'SwallowCast': 'FALSE', 'SrcRows': '<- SrcRowsSmall', 'DelDrains': '<- DelSkips',
        'Kinds': '{"src", "dup", "del"}'}, invariants=['LazyEqualsEager'])
    res = tlc.run_tlc('Engine', cfg, timeout=3000)
    if res.violated != 'LazyEqualsEager':
        raise tlc.MachineryError('vacuity: with a delete_resource that does not drain, Engine.tla must violate LazyEqualsEager (src, dup, del)')
    rep.notes['non_vacuity_delete_must_drain'] = 'with DelDrains <- DelSkips TLC refutes LazyEqualsEager on (src, dup, del), as expected'


# ---------------------------------------------------------------------------
# (b) differential on the Menu

def project(res, dp):
    out = []
    for r, rows in zip(dp.descriptor.get('resources', []), res):
        out.append(dict(name=r['name'], schema=r.get('schema'), rows=[dict(x) for x in rows]))
    if len(res) != len(dp.descriptor.get('resources', [])):
        out.append(dict(mismatch='streams=%d descriptors=%d' % (len(res), len(dp.descriptor.get('resources', [])))))
    return out


def run_guard(fn):
    try:
        with contextlib.redirect_stdout(io.StringIO()), contextlib.redirect_stderr(io.StringIO()):
            return ('ok', fn())
    except Exception as e:
        return ('raised', type(e).__name__ + ':' + type(getattr(e, 'cause', None)).__name__)


def materialise(ds):
    from dataflows import DataStream
    rows = [[copy.deepcopy(r) for r in res] for res in ds.res_iter]
    return ds.dp, rows


def as_datastream(dp, rows):
    from dataflows import DataStream, ResourceWrapper
    from datapackage import Package
    # the materialised output is a VALUE: the descriptor goes through its JSON text, so that nothing two resources (or two fields)
    # happen to share as Python objects inside one run survives into the next step
    p = Package(descriptor=json.loads(json.dumps(dp.descriptor)))
    return DataStream(p, [ResourceWrapper(res, iter(copy.deepcopy(r))) for res, r in zip(p.resources, rows)])


def final_results(dp, rows):
    """the same closing validation results() applies"""
    from dataflows import DataStreamProcessor
    from dataflows.base.schema_validator import raise_exception
    res, dp2, _ = DataStreamProcessor()(as_datastream(dp, rows)).results(on_error=raise_exception)
    return project(res, dp2)


def run_program(item):
    from dataflows import Flow, conditional, DataStreamProcessor
    from ..menu import menu, fresh_input, Tmp
    names, inp = item['prog'], item['input']
    root = tempfile.mkdtemp(prefix='c01-', dir=tlc.WORK_ROOT)
    try:
        tmp = Tmp(root)

        def links():
            m = menu(tmp)
            return [m[n]() for n in names]

        def src():
            return fresh_input(inp)

        def chained():
            res, dp, _ = Flow(*src(), *links()).results()
            return project(res, dp)

        def stepwise():
            dp, rows = materialise(Flow(*src()).datastream())
            for link in links():
                dp, rows = materialise(Flow(link).datastream(as_datastream(dp, rows)))
            return final_results(dp, rows)

        def stepwise_results():
            # ... the materialised output of a step taken the way a user takes it: through results() (rows as the closing validation
            # returns them).  What the next step sees in the chain is what it would see of that materialised output.
            from dataflows import DataStreamProcessor
            from dataflows.base.schema_validator import raise_exception

            def mat(ds):
                res, dp2, _ = DataStreamProcessor()(ds).results(on_error=raise_exception)
                return dp2, [[copy.deepcopy(dict(r)) for r in rows_] for rows_ in res]
            class _IllTyped(Exception):
                pass
            try:
                dp, rows = mat(Flow(*src()).datastream())
                ls = links()
                for link in ls[:-1]:
                    dp, rows = mat(Flow(link).datastream(as_datastream(dp, rows)))
            except Exception as e:
                if 'ValidationError' in type(getattr(e, 'cause', e)).__name__ or 'ValidationError' in type(e).__name__:
                    # an INTERMEDIATE output that does not validate (e.g. a concatenate over differently typed fields whose rows a later
                    # filter removes): the program is not well-typed, this variant says nothing about it
                    raise _IllTyped()
                raise
            if ls:
                dp, rows = mat(Flow(ls[-1]).datastream(as_datastream(dp, rows)))
            return final_results(dp, rows)

        ref = run_guard(chained)
        sw = run_guard(stepwise)
        diffs = []

        def cmp(label, other):
            if ref[0] != other[0]:
                diffs.append(dict(variant=label, chained=ref if ref[0] == 'raised' else 'ok', other=other if other[0] == 'raised' else 'ok'))
            elif ref[0] == 'ok' and canon(ref[1]) != canon(other[1]):
                diffs.append(dict(variant=label, chained=ref[1], other=other[1]))
        cmp('step-by-step', sw)
        if ref[0] == 'ok':
            swr = run_guard(stepwise_results)
            if not (swr[0] == 'raised' and '_IllTyped' in str(swr[1])):
                cmp('step-by-step through results()', swr)
        n = len(names)
        if ref[0] == 'ok':
            for k in range(0, n + 1):
                def split(k=k):
                    ls = links()
                    res, dp, _ = Flow(Flow(*src(), *ls[:k]), Flow(*ls[k:])).results() if k < n else \
                        Flow(Flow(*src(), *ls)).results()
                    return project(res, dp)
                cmp('split@%d' % k, run_guard(split))

            def cond():
                ls = [conditional(lambda dp: True, Flow(l)) for l in links()]
                res, dp, _ = Flow(*src(), *ls).results()
                return project(res, dp)
            cmp('conditional', run_guard(cond))

            def ds_mode():
                ds = Flow(*src(), *links()).datastream()
                dp, rows = materialise(ds)
                return final_results(dp, rows)
            cmp('datastream()', run_guard(ds_mode))

            def process_mode():
                seen = []

                def rec(package):
                    yield package.pkg
                    def tap(res, cur):
                        for row in res:
                            cur.append(copy.deepcopy(row))
                            yield row
                    for res in package:
                        cur = []
                        seen.append(cur)
                        yield tap(res, cur)
                dp, _ = Flow(*src(), *links(), rec).process()
                return final_results(dp, seen)
            cmp('process()', run_guard(process_mode))

            def process_last_conditional():
                # the flow ENDS in an (always-true) conditional and is run through process(): the package it returns
                ls = links()
                seen = []

                def rec(package):
                    yield package.pkg

                    def tap(res, cur):
                        for row in res:
                            cur.append(copy.deepcopy(row))
                            yield row
                    for res in package:
                        cur = []
                        seen.append(cur)
                        yield tap(res, cur)
                dp, _ = Flow(*src(), *ls[:-1], conditional(lambda dp: True, Flow(ls[-1], rec))).process()
                if dp is None:
                    raise AssertionError('process() returned no datapackage')
                return final_results(dp, seen)
            if n >= 1:
                cmp('process()-ending-in-conditional', run_guard(process_last_conditional))
        return dict(ok=not diffs, raised=ref[0] == 'raised', diffs=diffs[:3])
    finally:
        shutil.rmtree(root, ignore_errors=True)


def dispatch_cases():
    """every callable flavour must take effect exactly like the plain function; junk must be rejected"""
    from dataflows import Flow
    from ..menu import flavours, rows_flavours
    out = []
    data = [dict(a=1, b='x'), dict(a=2, b='y')]

    def rows_of(link):
        return Flow([dict(r) for r in data], link).results()[0][0]
    want = [dict(a=11, b='x'), dict(a=12, b='y')]
    for name, f in flavours().items():
        r = run_guard(lambda: rows_of(f))
        out.append(dict(kind='row', flavour=name, ok=(r[0] == 'raised') or r[1] == want,
                        rejected=r[0] == 'raised', got=r[1] if r[0] == 'ok' else r[1]))
    want2 = [dict(a=2, b='y')]
    for name, f in rows_flavours().items():
        r = run_guard(lambda: rows_of(f))
        out.append(dict(kind='rows', flavour=name, ok=(r[0] == 'raised') or r[1] == want2,
                        rejected=r[0] == 'raised', got=r[1]))
    # callables whose signature names none of row / rows / package cannot be interpreted as a step either
    def unknown_name(record):
        record['a'] = 0

    junks = [(5, '5'), (None, 'None'), (object(), 'object()'), (3.5, '3.5'), (True, 'True'),
             (lambda x: dict(x, a=0), 'lambda x'), (unknown_name, 'def f(record)'), (lambda: None, 'lambda: None'),
             (lambda item, row: None, 'lambda item, row'),
             # iterables that are not row sources: a link whose items are neither dicts nor lists cannot be interpreted as a step;
             # the same holds when the malformed item comes after well-formed rows (it would be lost otherwise, and the rows with it)
             ('abc', "'abc'"), ({'a': 1}, "{'a': 1}"), ([1, 2, 3], '[1, 2, 3]'), (b'xy', "b'xy'"), (range(3), 'range(3)'),
             ([{'a': 1}, 5], "[{'a': 1}, 5]"), ([{'a': 1}, [2]], "[{'a': 1}, [2]]"), ([[1, 2], {'a': 3}], "[[1, 2], {'a': 3}]"),
             ([{'a': i} for i in range(120)] + [7], '120 rows then 7')]
    for junk, label in junks:
        r = run_guard(lambda: rows_of(junk))
        out.append(dict(kind='junk', flavour=label, ok=r[0] == 'raised', rejected=r[0] == 'raised', got=r[1]))
    return out


def programs(r, t):
    from ..menu import menu, Tmp
    names = sorted(menu(Tmp('/nonexistent')).keys())
    progs = []
    for n in names:
        for inp in ('I1', 'I4'):
            progs.append(dict(prog=[n], input=inp))
    pairs = [(a, b) for a in names for b in names]
    r.shuffle(pairs)
    pairs = [(a, b) for a, b in pairs if a != b]
    for a, b in pairs[: (300 if t == 'quick' else len(pairs))]:
        progs.append(dict(prog=[a, b], input=r.choice(['I1', 'I1', 'I4', 'I2', 'I5'])))
    for _ in range(300 if t == 'quick' else 4000):
        n = r.randint(3, 8 if t == 'thorough' else 6)
        progs.append(dict(prog=r.sample(names, n), input=r.choice(['I0', 'I1', 'I1', 'I2', 'I3', 'I4', 'I5', 'I5'])))     # every entry at most once: a step that adds a fixed name twice is ill-typed
    # a duplicate followed by a step that edits the schema of ONE twin only (the twins are independent resources from then on)
    for a in ('duplicate', 'duplicate_end'):
        for b in ('rename_a', 'delete_fields_b', 'set_type_a_string', 'find_replace_b', 'unpivot', 'update_schema', 'update_resource', 'set_type_bc_tf'):
            progs.append(dict(prog=[a, b], input='I1'))
            progs.append(dict(prog=[a, b, 'add_field'], input='I5'))
    # what a later step sees of an iterable source is what the loader CAST (blank text is a null)
    for inp in ('I0', 'I1'):
        progs.append(dict(prog=['source_blank', 'filter_b_notnull'], input=inp))
        progs.append(dict(prog=['source_blank', 'row_new', 'filter_b_notnull', 'add_field'], input=inp))
    # a join followed by steps that read the joined field of every row (unmatched target rows carry it as a null)
    for b in ('find_replace_b', 'sort_a', 'rename_a', 'acf_format', 'set_type_bc_tf'):
        progs.append(dict(prog=['join', b], input='I1'))
    for a in ('duplicate', 'duplicate_end', 'dump_to_path', 'stream', 'checkpoint', 'sort_a', 'join_keep'):
        for b in ('nested_inplace', 'row_inplace'):
            progs.append(dict(prog=[a, b], input='I5'))
            progs.append(dict(prog=[a, 'filter_fn', b], input='I5'))
    return progs


def run():
    rep = Report(PROP)
    t = rep.tier
    setup_repo()
    r = rng(PROP)
    model(rep, 3 if t == 'quick' else 4)
    # (a) probe traces
    items = []
    for i in range(400 if t == 'quick' else 4000):
        steps = engine.random_program(r, 6, KINDS_NOFAULT)
        items.append(dict(steps=steps, variants=engine.choose_variants(r, steps),
                          mode=r.choice(['results', 'process', 'datastream'])))
    # every program of the bounded model (<= 2 steps quick / <= 3 thorough, all non-fault kinds) is executed as well
    wd = tlc.workdir('c01p')
    cfg = tlc.write_cfg(os.path.join(wd, 'progs.cfg'), constants={
        'MaxLen': 2 if t == 'quick' else 3, 'Sample': 2, 'Ahead': 2, 'SwallowCast': 'FALSE', 'SrcRows': '<- SrcRowsSmall',
        'Kinds': '{' + ', '.join('"%s"' % k for k in KINDS_NOFAULT) + '}'}, constraints=['Export'])
    pres = tlc.run_tlc('EnginePrograms', cfg, workers=1, allow_violation=False, timeout=3000)
    rep.add_tlc(pres, 'EnginePrograms: the program universe exported for replay')
    modes = ['results', 'process', 'datastream']
    for n, c in enumerate(pres.cases):
        steps = [dict(x, **({'rows': list(x['rows'])} if 'rows' in x else {})) for x in c['steps']]
        items.append(dict(steps=steps, variants=engine.choose_variants(r, steps), mode=modes[n % 3]))
    rep.notes['model_programs_replayed'] = len(pres.cases)
    engine.check_traces(rep, items, 'C01')
    # (b) differential
    progs = programs(r, t)
    res = pmap(run_program, progs, chunksize=4)
    errs = harness_errors(res)
    if errs:
        raise tlc.MachineryError('harness error in differential replay: ' + errs[0])
    welltyped = 0
    for p, out in zip(progs, res):
        rep.count(1, traces=1)
        if not out['raised']:
            welltyped += 1
            rep.mark_distinct(p)
        if not out['ok']:
            rep.violation(p, dict(program=p['prog'], input=p['input'], diffs=out['diffs']),
                          category='differential/%s/%s' % (out['diffs'][0]['variant'].split('@')[0], '+'.join(p['prog'])[:60]))
    rep.sample(dict(differential_program=progs[len(progs) // 2]))
    rep.notes['differential_programs'] = len(progs)
    rep.notes['differential_welltyped'] = welltyped
    # (c) dispatch
    for c in dispatch_cases():
        rep.count(1)
        rep.mark_distinct(dict(d=c['kind'], f=c['flavour']))
        if not c['ok']:
            rep.violation(c, dict(dispatch=c['kind'], flavour=c['flavour'], got=c['got'],
                                  why='link was neither applied nor rejected (silently skipped)' if c['kind'] != 'junk'
                                  else 'a link the framework cannot interpret was accepted silently'),
                          category='dispatch/%s/%s' % (c['kind'], c['flavour']))
    rep.assumptions += ['ill-typed programs (a step whose precondition fails) are compared only as "both runs raise"',
                        'step-by-step evaluation = each link run alone through Flow(link).datastream() on deep copies of the previous output']
    return rep.finish()


def replay(path):
    import json
    setup_repo()
    rec = json.load(open(path))
    c = rec['case']
    if 'prog' in c:
        out = run_program(c)
        print(json.dumps(out, default=str)[:3000])
        bad = not out['ok']
    elif 'steps' in c:
        tr = engine.record(c)
        _, v = engine.validate([tr])
        print(v[0])
        bad = not v[0]['C01']
    else:
        bad = any(not x['ok'] for x in dispatch_cases() if x['kind'] == c['kind'] and x['flavour'] == c['flavour'])
    if bad:
        print('VIOLATION property=%s replay=%s' % (PROP, path))
    return 1 if bad else 0
