"""C08 - an interrupted checkpoint is never used.

Spec:   spec/Checkpoint.tla (one action per file operation of the checkpoint writer; Kill, StepFails, NextRun, DeleteDir;
        PickedUpIsComplete, NeverBadResult, InterruptedNeverUsed), spec/CheckpointTrace.tla
Model:  TLC explores every interleaving of writer steps with Kill / StepFails / DeleteDir / NextRun for all shapes of
        <= MaxRes resources x <= MaxRows rows and MaxRuns runs.
Bind:   exhaustive crash-point enumeration on the real code: the recorder numbers every open / write / flush / close /
        rename of a real first run; for every k the run is repeated in a forked child that is killed right before and
        right after operation k, or in which operation k raises; further runs fail in the source (at every row) and in a
        step after the checkpoint (at every row).  The recorded operation prefix, the directory found afterwards and
        the outcome of a fresh follow-up run are validated by TLC against the model.
"""
import gc
import json
import os
import shutil
import sys
import tempfile

from .. import tlc, fsrec
from ..common import Report, pmap, harness_errors, rng, setup_repo, canon

PROP = 'C08'

SHAPES_QUICK = [[], [0], [1], [3], [1, 1], [2, 0], [0, 2], [2, 1, 3]]
SHAPES_THOROUGH = SHAPES_QUICK + [[2], [0, 0], [3, 3], [1, 0, 1], [3, 2, 1], [0, 0, 0], [5], [2, 2, 2, 2]]


def model(rep, t):
    wd = tlc.workdir('c08')
    for (mr, mw, runs) in ([(2, 2, 3), (3, 1, 2)] if t == 'quick' else [(2, 2, 3), (3, 2, 3), (3, 3, 2), (2, 3, 4)]):
        cfg = tlc.write_cfg(os.path.join(wd, 'mc%d%d%d.cfg' % (mr, mw, runs)), constants={'MaxRes': mr, 'MaxRows': mw, 'MaxRuns': runs},
                            invariants=['PickedUpIsComplete', 'NeverBadResult'],
                            properties=['InterruptedNeverUsed', 'ResumeSkipsUpstream', 'DeleteRecomputes'])
        res = tlc.run_tlc('Checkpoint', cfg, allow_violation=False, timeout=6000, coverage=(mr, mw) == (2, 2))
        rep.add_tlc(res, 'Checkpoint MaxRes=%d MaxRows=%d MaxRuns=%d: PickedUpIsComplete, NeverBadResult, InterruptedNeverUsed' % (mr, mw, runs))


def sources(shape, counter=None, fail_at=None):
    """one generator per resource; counts pulls; optionally raises at (resource, row)"""
    out = []
    for r, n in enumerate(shape, start=1):
        def gen(r=r, n=n):
            for k in range(1, n + 1):
                if counter is not None:
                    counter[0] += 1
                if fail_at == (r, k):
                    raise RuntimeError('source failed at resource %d row %d' % (r, k))
                yield dict(r=r, k=k, v='x%d' % k)
        out.append(gen())
    return out


def build(shape, cpdir, counter=None, fail_at=None, after=None):
    from dataflows import Flow, checkpoint
    links = sources(shape, counter, fail_at) + [checkpoint('cp', checkpoint_path=cpdir)]
    if after is not None:
        state = {'n': 0}

        def boom(row):
            state['n'] += 1
            if state['n'] == after:
                raise RuntimeError('step after the checkpoint failed at row %d' % after)
        links.append(boom)
    return Flow(*links)


def retry_case(item):
    """the SAME Flow object is run again after its first run failed while the checkpoint was being written (a retry loop):
    the retry recomputes from the sources and returns what an uninterrupted run returns; a third, fresh run resumes from the
    checkpoint the retry published.  Sources are lists (re-iterable); the failing step fails on its first pass only."""
    import contextlib
    import io
    import shutil
    import tempfile
    from dataflows import Flow, checkpoint
    setup_repo()
    shape, where, j = item['shape'], item['where'], item['at']
    root = tempfile.mkdtemp(prefix='c08r-', dir=tlc.WORK_ROOT)
    try:
        def lists():
            return [[dict(r=r, k=k, v='x%d' % k) for k in range(1, n + 1)] for r, n in enumerate(shape, start=1)]
        state = {'n': 0, 'armed': True}

        def boom(row):
            state['n'] += 1
            if state['armed'] and state['n'] == j:
                state['armed'] = False
                raise RuntimeError('fails once, at row %d' % j)
        with contextlib.redirect_stdout(io.StringIO()), contextlib.redirect_stderr(io.StringIO()):
            ref = result_of(Flow(*lists(), checkpoint('ref', checkpoint_path=root)))
            cp = checkpoint('cp', checkpoint_path=root)
            flow = Flow(*(lists() + ([boom, cp] if where == 'before' else [cp, boom])))
            try:
                flow.results()
                return dict(ok=False, why='the run with the failing step returned normally')
            except Exception:
                pass
            if os.path.exists(os.path.join(root, 'cp', 'stream.ndjson')):
                return dict(ok=False, why='the failed run left a checkpoint under its final name')
            try:
                second = result_of(flow)
            except Exception as e:
                return dict(ok=False, why='the retry of the same Flow raised %s: %s' % (type(e).__name__, str(getattr(e, 'cause', e))[:120]))
            if second != ref:
                return dict(ok=False, why='the retry of the same Flow does not return what an uninterrupted run returns', got=second[:300])
            third = result_of(Flow(*(lists() + [checkpoint('cp', checkpoint_path=root)])))
            if third != ref:
                return dict(ok=False, why='the run after the retry (resuming from its checkpoint) returns something else', got=third[:300])
        return dict(ok=True)
    finally:
        shutil.rmtree(root, ignore_errors=True)


def stopiter_case(item):
    """a row step in front of the checkpoint fails at row j with StopIteration (a bare next() that finds nothing) - the one exception
    class an iterator protocol may mistake for the end of the stream.  The run must fail, no checkpoint may be published, and the next
    (fresh) run recomputes from the sources and returns what an uninterrupted run returns."""
    import contextlib
    import io
    import shutil
    import tempfile
    from dataflows import Flow, checkpoint
    setup_repo()
    shape, j = item['shape'], item['at']
    root = tempfile.mkdtemp(prefix='c08s-', dir=tlc.WORK_ROOT)
    try:
        def lists():
            return [[dict(r=r, k=k, v='x%d' % k) for k in range(1, n + 1)] for r, n in enumerate(shape, start=1)]
        state = {'n': 0}

        def stopper(row):
            state['n'] += 1
            if state['n'] == j:
                next(iter(()))
        with contextlib.redirect_stdout(io.StringIO()), contextlib.redirect_stderr(io.StringIO()):
            ref = result_of(Flow(*lists(), checkpoint('ref', checkpoint_path=root)))
            try:
                Flow(*lists(), stopper, checkpoint('cp', checkpoint_path=root)).results()
                failed = False
            except Exception:
                failed = True
            published = os.path.exists(os.path.join(root, 'cp', 'stream.ndjson'))
            if not failed:
                return dict(ok=False, why='a run whose row step raised StopIteration at row %d returned normally' % j, checkpoint_published=published)
            if published:
                return dict(ok=False, why='the failed run left a checkpoint under its final name')
            second = result_of(Flow(*lists(), checkpoint('cp', checkpoint_path=root)))
            if second != ref:
                return dict(ok=False, why='the run after the failed one does not return what an uninterrupted run returns')
        return dict(ok=True)
    finally:
        shutil.rmtree(root, ignore_errors=True)


def result_of(flow):
    res, dp, _ = flow.results()
    return canon(dict(resources=[dict(name=r['name'], schema=r['schema']) for r in dp.descriptor.get('resources', [])],
                      rows=res))


def project(cpdir):
    d = os.path.join(cpdir, 'cp')
    out = {}
    for key, fn in (('active', 'stream.ndjson.active'), ('final', 'stream.ndjson')):
        p = os.path.join(d, fn)
        if os.path.exists(p):
            data = open(p, 'rb').read()
            out[key] = data.count(b'\n')
            out[key + '_bytes'] = data
        else:
            out[key] = -1
            out[key + '_bytes'] = None
    return out


def crash_case(item):
    """item: shape, kind ('kill_before'|'kill_after'|'raise'|'fail_up'|'fail_down'|'none'), k / where"""
    setup_repo()
    shape = item['shape']
    root = tempfile.mkdtemp(prefix='c08-', dir=tlc.WORK_ROOT)
    try:
        # reference: uninterrupted run
        refdir = os.path.join(root, 'ref')
        reflog = os.path.join(root, 'ref.log')
        refres = os.path.join(root, 'ref.res')

        def ref():
            rec = fsrec.Recorder(reflog)
            fsrec.install_stream(rec)
            open(refres, 'w').write(result_of(build(shape, refdir)))
        rc = fsrec.in_child(ref)
        if rc != 0:
            return {'__harness_error__': 'reference run failed rc=%s' % rc}
        ref_ops = fsrec.read_log(reflog)
        ref_final = project(refdir)['final_bytes']
        ref_result = open(refres).read()
        if item['kind'] == 'count':
            return dict(nops=len(ref_ops))
        # the interrupted run
        cpdir = os.path.join(root, 'run')
        log = os.path.join(root, 'run.log')
        kind = item['kind']

        def first():
            if kind in ('kill_before', 'kill_after', 'raise'):
                rec = fsrec.Recorder(log, mode=kind, k=item['k'])
            else:
                rec = fsrec.Recorder(log)
            fsrec.install_stream(rec)
            flow = None
            try:
                if kind == 'fail_up':
                    flow = build(shape, cpdir, fail_at=tuple(item['where']))
                elif kind == 'fail_down':
                    flow = build(shape, cpdir, after=item['where'])
                else:
                    flow = build(shape, cpdir)
                flow.results()
            except Exception:
                pass
            del flow
            gc.collect()
        rc = fsrec.in_child(first)
        ops = [o for o in fsrec.read_log(log) if o[0] != '!raise']
        raised = any(o[0] == '!raise' for o in fsrec.read_log(log))
        post = project(cpdir)
        ev = []
        for o in ops:
            if o[0] == 'open':
                ev.append(['open'])
            elif o[0] == 'write':
                ev.append(['write', o[2]])
            else:
                ev.append([o[0]])
        crash = 'kill' if rc == 77 else ('fail' if (raised or kind in ('fail_up', 'fail_down')) and len(ops) < len(ref_ops) else 'none')
        # follow-up: a fresh run of the same pipeline
        fres = os.path.join(root, 'follow.res')

        def follow():
            counter = [0]
            r = result_of(build(shape, cpdir, counter=counter))
            json.dump(dict(result=r, pulled=counter[0]), open(fres, 'w'))
        rc2 = fsrec.in_child(follow)
        # after the follow-up run the checkpoint must be complete, and a third run must pick it up and reproduce the result
        post2 = project(cpdir)
        tres = os.path.join(root, 'third.res')

        def third():
            counter = [0]
            r = result_of(build(shape, cpdir, counter=counter))
            json.dump(dict(result=r, pulled=counter[0]), open(tres, 'w'))
        rc3 = fsrec.in_child(third)
        third_ok = False
        if rc3 == 0 and os.path.exists(tres):
            t3 = json.load(open(tres))
            third_ok = t3['result'] == ref_result and (t3['pulled'] == 0)
        after_follow = dict(final_complete=(post2['final_bytes'] == ref_final), active_left=post2['active'] >= 0, third_ok=third_ok)
        if rc2 == 0 and os.path.exists(fres):
            f = json.load(open(fres))
            # with no rows at all a recomputing run pulls nothing: tell by the checkpoint file it found instead
            decision = 'resume' if post['final'] >= 0 and f['pulled'] == 0 else 'recompute'
            if sum(shape) > 0:
                decision = 'recompute' if f['pulled'] > 0 else 'resume'
            follow_rec = dict(decision=decision, result_ok=(f['result'] == ref_result))
        else:
            follow_rec = dict(decision='recompute' if post['final'] < 0 else 'resume', result_ok=False)
        return dict(shape=shape, ev=ev, crash=crash,
                    post=dict(active=post['active'], final=post['final'],
                              final_complete=(post['final_bytes'] == ref_final) if post['final'] >= 0 else False),
                    follow=dict(follow_rec, **after_follow), first_rc=rc, follow_rc=rc2)
    finally:
        shutil.rmtree(root, ignore_errors=True)


def validate(rep, traces):
    wd = tlc.workdir('c08t')
    tf = tlc.write_ndjson(os.path.join(wd, 'tr.ndjson'), [dict(shape=t['shape'], ev=t['ev'], crash=t['crash'], post=t['post'], follow=t['follow']) for t in traces])
    cfg = tlc.write_cfg(os.path.join(wd, 'tr.cfg'), spec='TraceSpec', constants={'MaxRes': 4, 'MaxRows': 5, 'MaxRuns': 2},
                        constraints=['Verdict'])
    res = tlc.run_tlc('CheckpointTrace', cfg, workers=1, env={'TRACE_FILE': tf}, allow_violation=False, timeout=3000)
    rep.add_tlc(res, 'CheckpointTrace: %d crash-point traces' % len(traces))
    out = {}
    for v in res.tuples('VERDICT'):
        out.setdefault(v[0], dict(matched=v[1], total=v[2], fs_eq=v[3], c08=v[4], model_inv=v[5]))
        if v[3]:
            out[v[0]]['fs_eq'] = True       # Kill is non-deterministic (which part of the buffer reached the disk): any branch may match
    if len(out) != len(traces):
        raise tlc.MachineryError('CheckpointTrace: %d verdicts for %d traces' % (len(out), len(traces)))
    return [out[i + 1] for i in range(len(traces))]


def run():
    rep = Report(PROP)
    t = rep.tier
    setup_repo()
    r = rng(PROP)
    model(rep, t)
    shapes = SHAPES_QUICK if t == 'quick' else SHAPES_THOROUGH
    counts = pmap(crash_case, [dict(shape=s, kind='count') for s in shapes], procs=8)
    errs = harness_errors(counts)
    if errs:
        raise tlc.MachineryError('harness error: ' + errs[0])
    items = []
    for s, c in zip(shapes, counts):
        items.append(dict(shape=s, kind='none'))
        for k in range(1, c['nops'] + 1):
            for kind in ('kill_before', 'kill_after', 'raise'):
                items.append(dict(shape=s, kind=kind, k=k))
        for ri, n in enumerate(s, start=1):
            for k in range(1, n + 1):
                items.append(dict(shape=s, kind='fail_up', where=[ri, k]))
        for j in range(1, sum(s) + 1):
            items.append(dict(shape=s, kind='fail_down', where=j))
    traces = pmap(crash_case, items, chunksize=2)
    errs = harness_errors(traces)
    if errs:
        raise tlc.MachineryError('harness error in crash enumeration: ' + errs[0])
    ritems = [dict(shape=s, where=w, at=j) for s in shapes if sum(s) > 0 for w in ('before', 'after') for j in sorted({1, sum(s)})]
    for it, out in zip(ritems, pmap(retry_case, ritems, chunksize=2)):
        if '__harness_error__' in out:
            raise tlc.MachineryError('harness error in retry cases: ' + out['__harness_error__'])
        rep.count(1, traces=1)
        rep.mark_distinct(dict(retry=it))
        if not out['ok']:
            rep.violation(dict(retry=it), dict(case=it, **{k_: v for k_, v in out.items() if k_ != 'ok'}), category='retry-same-flow/%s' % out['why'][:40])
    sitems = [dict(stopiter=True, shape=s, at=j) for s in shapes if sum(s) > 1 for j in sorted({1, 2, sum(s)})]
    for it, out in zip(sitems, pmap(stopiter_case, sitems, chunksize=2)):
        if '__harness_error__' in out:
            raise tlc.MachineryError('harness error in StopIteration cases: ' + out['__harness_error__'])
        rep.count(1, traces=1)
        rep.mark_distinct(it)
        if not out['ok']:
            rep.violation(it, dict(case=it, **{k_: v for k_, v in out.items() if k_ != 'ok'}), category='stopiteration-before-checkpoint/%s' % out['why'][:40])
    verd = validate(rep, traces)
    # the binding binds: a recorded interruption whose follow-up run "resumed" although no checkpoint was published, and one
    # whose operation log lost an entry, must be rejected
    import copy
    # (a probe is an execution that itself conforms - under a broken library another one is taken, or the self-test is skipped)
    probe = next((tr for tr, v in zip(traces, verd) if tr['post']['final'] < 0 and tr['follow']['decision'] == 'recompute' and len(tr['ev']) > 3
                  and v['c08'] and v['fs_eq'] and v['matched'] == v['total']), None)
    if probe is not None:
        c1 = copy.deepcopy(probe)
        c1['follow']['decision'] = 'resume'
        c2 = copy.deepcopy(probe)
        del c2['ev'][len(c2['ev']) // 2]
        v1, v2 = validate(rep, [c1, c2])
        if v1['c08'] or (v2['fs_eq'] and v2['matched'] == v2['total']):
            raise tlc.MachineryError('CheckpointTrace accepted a corrupted trace (c08=%s, matched=%s/%s): the trace spec does not bind' % (v1['c08'], v2['matched'], v2['total']))
        rep.notes['trace_binding_selftest'] = 'a follow-up run recorded as resuming without a published checkpoint fails C08; a log with one file operation removed is not a behaviour of Checkpoint.tla'
    for it, tr, v in zip(items, traces, verd):
        rep.count(1, traces=1)
        rep.mark_distinct(it)
        if not v['c08']:
            rep.violation(it, dict(crash_point=it, on_disk=tr['post'], follow_up=tr['follow'], ops_before=tr['ev'][-4:], crash=tr['crash']),
                          category='%s/%s' % (it['kind'], 'used-incomplete' if tr['post']['final'] >= 0 and not tr['post']['final_complete'] else 'follow-up'))
        elif not v['fs_eq'] or v['matched'] != v['total']:
            rep.model_drift('file operations / directory after the interruption differ from Checkpoint.tla (matched %d/%d ops) although C08 holds'
                            % (v['matched'], v['total']), it)
    rep.sample(dict(crash_point=items[len(items) // 2], trace=traces[len(items) // 2]))
    rep.notes['shapes'] = shapes
    rep.notes['crash_points'] = len(items)
    rep.assumptions += ['a kill is os._exit in a forked child right before / right after the numbered file operation; unflushed data of the killed process is lost',
                        'a step failure is an exception (in the file operation itself, in the source at every row, in a step after the checkpoint at every row); the interpreter then finalises the abandoned generators (gc)',
                        'the follow-up run is a freshly constructed Flow in a fresh process']
    return rep.finish(exhaustive=True)


def replay(path):
    setup_repo()
    rec = json.load(open(path))
    if rec['case'].get('stopiter'):
        out = stopiter_case(rec['case'])
        print(out)
        if not out['ok']:
            print('VIOLATION property=%s replay=%s' % (PROP, path))
        return 0 if out['ok'] else 1
    if 'retry' in rec['case']:
        out = retry_case(rec['case']['retry'])
        print(out)
        if not out['ok']:
            print('VIOLATION property=%s replay=%s' % (PROP, path))
        return 0 if out['ok'] else 1
    tr = crash_case(rec['case'])
    rep = Report(PROP)
    v = validate(rep, [tr])[0]
    print(v, tr['post'], tr['follow'])
    if not v['c08']:
        print('VIOLATION property=%s replay=%s' % (PROP, path))
        return 1
    return 0
