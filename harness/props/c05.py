"""C05 - observers are transparent and capture the complete stream at their position.

Spec:   spec/Engine.tla (ObserverComplete, AllObserversCommit, FinalizerOnce, FinalizerAtEnd),
        spec/EngineTrace.tla (clause C05 on recorded runs; the finalizer callback is a logged event whose position
        in the probe log must be the model's)
Bind:   (a) probe traces: every (prefix <= 2, observer variant, discarding suffix <= 2) abstract program, TLC-validated;
        (b) the Menu: every real observer kind inserted after a real prefix and followed by a discarding suffix;
            downstream results with vs without the observer (transparency) and what the observer persisted vs the
            results of the prefix alone (completeness); finalizer call count;
        (c) failed runs (source / a later step raising at row k or at the end): stream and checkpoint must not have
            published an incomplete stream under their final name.
"""
import contextlib
import csv
import io
import itertools
import json
import os
import shutil
import tempfile
import zipfile
from decimal import Decimal

from .. import tlc, engine
from ..common import Report, pmap, harness_errors, rng, setup_repo, canon

PROP = 'C05'
KINDS = ['src', 'map', 'filter', 'del', 'obs', 'sort', 'fin', 'dup', 'cat']


def model(rep, t):
    wd = tlc.workdir('c05')
    cfg = tlc.write_cfg(os.path.join(wd, 'mc.cfg'), constants={
        'MaxLen': 3 if t == 'quick' else 4, 'Sample': 2, 'Ahead': 2, 'SwallowCast': 'FALSE', 'SrcRows': '<- SrcRowsSmall',
        'Kinds': '{' + ', '.join('"%s"' % k for k in KINDS) + '}'},
        invariants=['NoDeadlock', 'ObserverComplete', 'AllObserversCommit', 'FinalizerOnce', 'FinalizerAtEnd', 'LazyEqualsEager'])
    res = tlc.run_tlc('Engine', cfg, allow_violation=False, timeout=6000, coverage=True)
    rep.add_tlc(res, 'Engine: ObserverComplete, AllObserversCommit, FinalizerOnce, FinalizerAtEnd')
    cfg = tlc.write_cfg(os.path.join(wd, 'mcd.cfg'), constants={
        'MaxLen': 3, 'Sample': 2, 'Ahead': 2, 'SwallowCast': 'FALSE', 'SrcRows': '<- SrcRowsSmall', 'DelDrains': '<- DelSkips',
        'Kinds': '{"src", "obs", "del"}'}, invariants=['ObserverComplete'])
    res = tlc.run_tlc('Engine', cfg, timeout=3000)
    if res.violated != 'ObserverComplete':
        raise tlc.MachineryError('vacuity: with a delete_resource that does not drain, Engine.tla must violate ObserverComplete (src, obs, del)')
    rep.notes['non_vacuity_delete_must_drain'] = 'with DelDrains <- DelSkips TLC refutes ObserverComplete on (src, obs, del), as expected'


def trace_items(r, t):
    srcs = [{'kind': 'src', 'rows': [1, 2, 3]}, {'kind': 'src', 'rows': [1]}, {'kind': 'src', 'rows': []}]
    pre_steps = [{'kind': 'map'}, {'kind': 'filter'}, {'kind': 'sort'}, {'kind': 'src', 'rows': [1, 2, 3]}]
    suf_steps = [{'kind': 'del'}, {'kind': 'filter'}, {'kind': 'sort'}, {'kind': 'map'}, {'kind': 'src', 'rows': [1]}, {'kind': 'fin'}]
    items = []
    prefixes = [[s] for s in srcs] + [[srcs[0], p] for p in pre_steps] + [[srcs[1], srcs[0], pre_steps[0]]]
    suffixes = [[]] + [[s] for s in suf_steps] + [[a, b] for a in suf_steps[:3] for b in suf_steps[:3]]
    for pre in prefixes:
        for suf in suffixes:
            for okind, variants in (('obs', engine.VARIANTS['obs']), ('fin', engine.VARIANTS['fin'])):
                for v in variants:
                    steps = pre + [{'kind': okind}] + suf
                    if not engine.well_typed(steps):
                        continue
                    vs = engine.choose_variants(r, steps)
                    vs[len(pre)] = v
                    items.append(dict(steps=steps, variants=vs, mode=r.choice(['results', 'process'])))
    if t == 'quick':
        r.shuffle(items)
        items = items[:600]
    for _ in range(100 if t == 'quick' else 2000):
        steps = engine.random_program(r, 6, KINDS, need=lambda s: any(x['kind'] in ('obs', 'fin') for x in s))
        items.append(dict(steps=steps, variants=engine.choose_variants(r, steps), mode=r.choice(['results', 'process'])))
    return items


# ---------------------------------------------------------------------------
# the Menu

PREFIXES = [[], ['add_field'], ['filter_fn'], ['filter_none'], ['set_type_a_number'], ['row_inplace', 'acf_format'], ['sort_a_rev'],
            ['duplicate'], ['source_list'], ['rename_a', 'delete_fields_b'], ['join_keep'], ['unpivot'], ['paths_in_dirs']]
SUFFIXES = [[], ['delete_first'], ['delete_last'], ['filter_none'], ['join_inner'], ['concatenate'], ['sort_a'],
            ['delete_first', 'row_inplace'], ['select_fields_a'], ['join_with_self'], ['row_inplace'], ['delete_fields_b', 'row_inplace']]
OBS = ['printer', 'dump_to_path', 'dump_to_path_json', 'dump_to_zip', 'stream', 'checkpoint', 'finalizer', 'update_stats', 'validate']


def num(x):
    d = Decimal(str(x)).normalize()
    return d + 0 if d == d.to_integral() else d


def cast(v, typ):
    if v == '' or v is None:
        return None
    if typ == 'integer':
        return int(v)
    if typ == 'number':
        return num(v)
    return v


def read_dumped(read, desc):
    out = []
    for r in desc.get('resources', []):
        fields = [(f['name'], f['type']) for f in r['schema']['fields']]
        data = read(r['path'])
        if r.get('format') == 'json':
            rows = [{n: (num(x[n]) if t == 'number' and x.get(n) is not None else x.get(n)) for n, t in fields} for x in json.loads(data.decode('utf8'))]
        else:
            rd = csv.DictReader(io.StringIO(data.decode('utf8'), newline=''))
            rows = [{n: cast(x.get(n), t) for n, t in fields} for x in rd]
        out.append(dict(name=r['name'], fields=[f[0] for f in fields], rows=rows))
    return out


def ejson_value(v):
    if isinstance(v, dict) and 'type{decimal}' in v:
        return num(v['type{decimal}'])
    return v


def read_stream(path):
    lines = open(path).read().split('\n')
    desc = json.loads(lines[0])
    out = []
    idx = 1
    for r in desc.get('resources', []):
        fields = [f['name'] for f in r['schema']['fields']]
        rows = []
        while idx < len(lines) and lines[idx].strip():
            x = json.loads(lines[idx])
            rows.append({n: ejson_value(x.get(n)) for n in fields})
            idx += 1
        idx += 1
        out.append(dict(name=r['name'], fields=fields, rows=rows))
    return out


def read_back(okind, opath):
    if okind in ('dump_to_path', 'dump_to_path_json'):
        d = json.load(open(os.path.join(opath, 'datapackage.json')))
        return read_dumped(lambda p: open(os.path.join(opath, p), 'rb').read(), d)
    if okind == 'dump_to_zip':
        z = zipfile.ZipFile(os.path.join(opath, 'o.zip'))
        return read_dumped(lambda p: z.read(p), json.loads(z.read('datapackage.json')))
    if okind == 'stream':
        return read_stream(os.path.join(opath, 's.ndjson'))
    if okind == 'checkpoint':
        return read_stream(os.path.join(opath, 'cp', 'stream.ndjson'))
    return None


def norm(res, dp):
    out = []
    for r, rows in zip(dp.descriptor.get('resources', []), res):
        fields = [f['name'] for f in r['schema']['fields']]
        out.append(dict(name=r['name'], fields=fields,
                        rows=[{n: (num(x.get(n)) if isinstance(x.get(n), (float, Decimal)) else x.get(n)) for n in fields} for x in rows]))
    return out


def run_menu_case(item):
    from dataflows import Flow
    import dataflows as DF
    from ..menu import menu, fresh_input, Tmp
    root = tempfile.mkdtemp(prefix='c05-', dir=tlc.WORK_ROOT)
    try:
        tmp = Tmp(root)

        def mk(names):
            m = menu(tmp)
            m['filter_none'] = lambda: DF.filter_rows(condition=lambda r: False)
            # both resources get the SAME file name under different directories: a dumper must keep them apart
            m['paths_in_dirs'] = lambda: DF.Flow(DF.update_resource('res_1', path='y2019/sales.csv'), DF.update_resource('res_2', path='y2020/sales.csv'))
            m['join_inner'] = lambda: DF.join('res_1', ['a'], 'res_2', ['a'], dict(b2=dict(name='a', aggregate='count')), mode='inner')
            return [m[n]() for n in names]
        state = {'fin': 0, 'printed': {}, 'validated': 0}
        okind = item['obs']
        opath = os.path.join(root, 'obs')

        def observer():
            if okind == 'printer':
                def tp(data, kw):
                    state['printed'].setdefault('tables', []).append(data)
                return DF.printer(header_print=lambda h, kw: state['printed'].setdefault('headers', []).append(h), table_print=tp,
                                  **(dict(num_rows=1) if item.get('printer_rows', 1) == 1 else dict(num_rows=2, last_rows=3)))
            if okind == 'dump_to_path':
                return DF.dump_to_path(opath)
            if okind == 'dump_to_path_json':
                return DF.dump_to_path(opath, format='json')
            if okind == 'dump_to_zip':
                os.makedirs(opath, exist_ok=True)
                return DF.dump_to_zip(os.path.join(opath, 'o.zip'))
            if okind == 'stream':
                os.makedirs(opath, exist_ok=True)
                return DF.stream(os.path.join(opath, 's.ndjson'))
            if okind == 'checkpoint':
                return DF.checkpoint('cp', checkpoint_path=opath)
            if okind == 'finalizer':
                def cb():
                    state['fin'] += 1
                return DF.finalizer(cb)
            if okind == 'update_stats':
                return DF.update_stats(dict(verif=1))
            if okind == 'validate':
                return DF.validate()
            raise ValueError(okind)

        def go(links):
            with contextlib.redirect_stdout(io.StringIO()), contextlib.redirect_stderr(io.StringIO()):
                res, dp, stats = Flow(*links).results()
            return norm(res, dp), stats
        try:
            without, _ = go(fresh_input(item['input']) + mk(item['prefix']) + mk(item['suffix']))
            prefix_only, _ = go(fresh_input(item['input']) + mk(item['prefix']))
        except Exception as e:
            return dict(ok=True, skipped='pipeline without observer raises: %s' % type(e).__name__)
        try:
            with_, stats = go(fresh_input(item['input']) + mk(item['prefix']) + [observer()] + mk(item['suffix']))
        except Exception as e:
            return dict(ok=False, why='pipeline raises only with the observer inserted: %s %s' % (type(e).__name__, str(e)[:200]))
        if canon(with_) != canon(without):
            return dict(ok=False, why='downstream results differ with the observer inserted', with_=with_, without=without)
        # completeness
        persisted = None
        try:
            persisted = read_back(okind, opath)
        except Exception as e:
            return dict(ok=False, why='what the observer persisted cannot be read back: %s: %s' % (type(e).__name__, str(e)[:150]))
        if okind in ('dump_to_path', 'dump_to_path_json', 'dump_to_zip'):
            total = sum(len(r['rows']) for r in prefix_only)
            if stats.get('count_of_rows') != total:
                return dict(ok=False, why='the dumper reports %r rows, %d passed it' % (stats.get('count_of_rows'), total))
        if False and okind in ('dump_to_path', 'dump_to_path_json'):
            d = json.load(open(os.path.join(opath, 'datapackage.json')))
            persisted = read_dumped(lambda p: open(os.path.join(opath, p), 'rb').read(), d)
        elif okind == 'printer':
            heads = state['printed'].get('headers', [])
            if heads != [r['name'] for r in prefix_only]:
                return dict(ok=False, why='printer did not print every resource at its position', printed=heads)
            counts = []
            for data in state['printed'].get('tables', []):
                last = [ln.split()[0] for ln in data.splitlines() if ln.split() and ln.split()[0].isdigit()]
                counts.append(int(last[-1]) if last else 0)
            if counts != [len(r['rows']) for r in prefix_only]:
                return dict(ok=False, why='printer did not see every row', printed_counts=counts,
                            expected=[len(r['rows']) for r in prefix_only])
            # what the printer reports is the stream AT ITS POSITION: the same tables as when it is the last step
            tables_with = list(state['printed'].get('tables', []))
            state['printed'] = {}
            go(fresh_input(item['input']) + mk(item['prefix']) + [observer()])
            if tables_with != state['printed'].get('tables', []):
                return dict(ok=False, why='the tables the printer prints depend on the steps placed after it',
                            with_suffix=tables_with, as_last_step=state['printed'].get('tables', []))
        elif okind == 'finalizer':
            if state['fin'] != 1:
                return dict(ok=False, why='finalizer fired %d times' % state['fin'])
        elif okind == 'update_stats':
            if stats.get('verif') != 1:
                return dict(ok=False, why='update_stats not reported')
        if persisted is not None and canon(persisted) != canon(prefix_only):
            return dict(ok=False, why='what the observer persisted is not the full stream at its position',
                        persisted=persisted, expected=prefix_only)
        return dict(ok=True)
    finally:
        shutil.rmtree(root, ignore_errors=True)


def upstream_observer_case(item):
    """the observer sits in a Flow whose datastream is consumed by ANOTHER Flow through load((descriptor, res_iter)): once that
    consumer has drained everything, the observer has seen the complete stream and must have finished (descriptor / file
    published, finalizer fired once)"""
    import dataflows as DF
    from dataflows import Flow
    setup_repo()
    okind, shape = item['obs'], item['shape']
    root = tempfile.mkdtemp(prefix='c05u-', dir=tlc.WORK_ROOT)
    try:
        opath = os.path.join(root, 'obs')
        fired = []
        srcs = [[dict(a=k, b='r%d-%d' % (i, k)) for k in range(n)] for i, n in enumerate(shape)]
        from ..common import tuple_source
        src = tuple_source([('res%d' % i, [('a', 'integer'), ('b', 'string')], rows) for i, rows in enumerate(srcs)])
        if okind in ('stream', 'dump_to_zip'):
            os.makedirs(opath, exist_ok=True)
        obs = {'dump_to_path': lambda: DF.dump_to_path(opath), 'dump_to_zip': lambda: DF.dump_to_zip(os.path.join(opath, 'o.zip')),
               'stream': lambda: DF.stream(os.path.join(opath, 's.ndjson')), 'checkpoint': lambda: DF.checkpoint('cp', checkpoint_path=opath),
               'finalizer': lambda: DF.finalizer(lambda: fired.append(1))}[okind]()
        sel = item.get('select')
        lim = item.get('limit')
        if item.get('inchain'):
            # the consumer is a LATER STEP OF THE SAME CHAIN that stops reading every resource early (SubFlow.tla, ObserverDrains)
            import itertools

            def stop_islice(rows):
                yield from itertools.islice(rows, lim)

            def stop_break(rows):
                n_ = 0
                for row in rows:
                    if n_ >= lim:
                        break
                    n_ += 1
                    yield row

            def stop_return(rows):
                for n_, row in enumerate(rows):
                    yield row
                    if n_ + 1 >= lim:
                        return
            stopper = {'islice': stop_islice, 'break': stop_break, 'return': stop_return}[item['inchain']]
            with contextlib.redirect_stdout(io.StringIO()), contextlib.redirect_stderr(io.StringIO()):
                res, dp, _ = Flow(src, obs, stopper).results()
        else:
            with contextlib.redirect_stdout(io.StringIO()), contextlib.redirect_stderr(io.StringIO()):
                up = Flow(src, obs).datastream()
                res, dp, _ = Flow(DF.load((up.dp.descriptor, up.res_iter), strip=False, **({} if sel is None else dict(resources=sel)),
                                          **({} if not lim else dict(limit_rows=lim)))).results()
        if lim:
            # the consumer reads only the first rows of every resource: the observer upstream still saw - and persisted - all of them
            if res != [rows[:lim] for rows in srcs]:
                return dict(ok=False, why='the consumer did not receive exactly the first %d rows of each resource' % lim, got=[len(x) for x in res])
        elif sel is not None:
            # the consumer keeps one resource only: the observer upstream still saw - and persisted - all of them
            if res != [srcs[sel]]:
                return dict(ok=False, why='the consumer did not receive exactly the selected resource', got=[len(x) for x in res])
        elif res != srcs:
            return dict(ok=False, why='the consumer did not receive the stream', got=[len(x) for x in res])
        if okind == 'finalizer':
            return dict(ok=fired == [1], why='the finalizer fired %d times' % len(fired))
        try:
            persisted = read_back(okind, opath)
        except Exception as e:
            return dict(ok=False, why='what the observer persisted cannot be read back: %s: %s' % (type(e).__name__, str(e)[:120]))
        want = [dict(name='res%d' % i, fields=['a', 'b'], rows=rows) for i, rows in enumerate(srcs)]
        if persisted is not None and canon(persisted) != canon(want):
            return dict(ok=False, why='what the observer persisted is not the full stream at its position', persisted=persisted)
        return dict(ok=True)
    except Exception as e:
        return dict(ok=False, why='raised %s: %s' % (type(e).__name__, str(e)[:160]))
    finally:
        shutil.rmtree(root, ignore_errors=True)


def finalizer_stats_case(item):
    """a finalizer whose callback takes `stats`, placed after steps that report statistics while / after the rows stream (a file
    dumper's row count and bytes, update_stats with a dict that a row step keeps updating): the callback fires after the last
    row, so what it is handed is what those steps report for the COMPLETE stream - and what process() returns in the end"""
    import dataflows as DF
    from dataflows import Flow
    setup_repo()
    shape, pos = item['shape'], item['pos']
    root = tempfile.mkdtemp(prefix='c05f-', dir=tlc.WORK_ROOT)
    try:
        seen = []
        live = dict(rows_seen=0)

        def count(row):
            live['rows_seen'] += 1
        from ..common import tuple_source
        srcs = [[dict(a=k, b='r%d-%d' % (i, k)) for k in range(n)] for i, n in enumerate(shape)]
        src = tuple_source([('res%d' % i, [('a', 'integer'), ('b', 'string')], rows) for i, rows in enumerate(srcs)])
        fin = DF.finalizer(lambda stats: seen.append(dict(stats)))
        steps = [src, count, DF.update_stats(live), DF.dump_to_path(os.path.join(root, 'o'))]
        steps = steps + [fin] if pos == 'last' else steps + [fin, DF.delete_resource(0)]
        with contextlib.redirect_stdout(io.StringIO()), contextlib.redirect_stderr(io.StringIO()):
            dp, stats = Flow(*steps).process()
        total = sum(shape)
        if len(seen) != 1:
            return dict(ok=False, why='the finalizer fired %d times' % len(seen))
        got = seen[0]
        if got.get('count_of_rows') != total or got.get('rows_seen') != total:
            return dict(ok=False, why='the stats handed to the finalizer are not those of the complete stream', got={k: got.get(k) for k in ('count_of_rows', 'rows_seen', 'bytes')}, rows=total)
        if got.get('count_of_rows') != stats.get('count_of_rows') or got.get('hash') != stats.get('hash'):
            return dict(ok=False, why='the stats handed to the finalizer differ from what process() returns', got=got, returned=stats)
        return dict(ok=True)
    except Exception as e:
        return dict(ok=False, why='raised %s: %s' % (type(e).__name__, str(e)[:160]))
    finally:
        shutil.rmtree(root, ignore_errors=True)


def model_subflow(rep):
    """SubFlow.tla: a Flow consumed through load((descriptor, res_iter)); the repaired consumer (final pull + drained skips) satisfies
    UpstreamCompletes / ObserverSawAll / FailureSurfaces / NoCommitOfUnread / Termination for every selection, each pinned half is refuted"""
    wd = tlc.workdir('c05s')
    invs = ['UpstreamCompletes', 'ObserverSawAll', 'FailureSurfaces', 'NoCommitOfUnread']
    for sel in ('{1, 2, 3}', '{2}', '{1, 3}', '{}'):
        for fe in ('FALSE', 'TRUE'):
            cfg = tlc.write_cfg(os.path.join(wd, 'ok.cfg'), spec='Spec', invariants=invs, properties=['Termination'],
                                constants={'N': 3, 'R': 2, 'Selected': sel, 'FinalPullDone': 'TRUE', 'DrainSkipped': 'TRUE', 'FailsAtEnd': fe, 'Limit': 1 if fe == 'FALSE' else 0, 'DrainLimited': 'TRUE', 'ObserverDrains': 'FALSE'})
            res = tlc.run_tlc('SubFlow', cfg, allow_violation=False)
            rep.add_tlc(res, 'SubFlow N=3 R=2 Selected=%s FailsAtEnd=%s: the repaired consumer' % (sel, fe))
            # the observer-side repair: whatever the consumer leaves unread (skipped resources, limited resources), the observer finishes
            cfg = tlc.write_cfg(os.path.join(wd, 'od.cfg'), spec='Spec', invariants=invs, properties=['Termination'],
                                constants={'N': 3, 'R': 2, 'Selected': sel, 'FinalPullDone': 'TRUE', 'DrainSkipped': 'FALSE', 'FailsAtEnd': fe, 'Limit': 1, 'DrainLimited': 'FALSE', 'ObserverDrains': 'TRUE'})
            res = tlc.run_tlc('SubFlow', cfg, allow_violation=False)
            rep.add_tlc(res, 'SubFlow N=3 R=2 Selected=%s FailsAtEnd=%s: a consumer that drains nothing, an observer that finishes what it writes' % (sel, fe))
    for fp, dr, sel, fe, want, lim, dl in (('FALSE', 'TRUE', '{1, 2, 3}', 'FALSE', 'UpstreamCompletes', 0, 'TRUE'), ('FALSE', 'TRUE', '{1, 2, 3}', 'TRUE', 'FailureSurfaces', 0, 'TRUE'),
                                           ('TRUE', 'FALSE', '{2}', 'FALSE', 'ObserverSawAll', 0, 'TRUE'), ('TRUE', 'TRUE', '{1, 2, 3}', 'FALSE', 'ObserverSawAll', 1, 'FALSE')):
        cfg = tlc.write_cfg(os.path.join(wd, 'pin.cfg'), spec='Spec', invariants=invs,
                            constants={'N': 3, 'R': 2, 'Selected': sel, 'FinalPullDone': fp, 'DrainSkipped': dr, 'FailsAtEnd': fe, 'Limit': lim, 'DrainLimited': dl, 'ObserverDrains': 'FALSE'})
        r0 = tlc.run_tlc('SubFlow', cfg)
        if r0.violated != want:
            raise tlc.MachineryError('non-vacuity: SubFlow FinalPullDone=%s DrainSkipped=%s must violate %s (got %s)' % (fp, dr, want, r0.violated))
    rep.notes['subflow_non_vacuity'] = 'without the final pull UpstreamCompletes / FailureSurfaces are refuted; with the final pull but unread skips - or half-read limited resources - ObserverSawAll is refuted'


def model_stats(rep, t):
    """Stats.tla: the dicts of the steps merged in pipeline order - for every key the report of the LAST step that reports it"""
    wd = tlc.workdir('c05st')
    consts = {'MaxLen': 3 if t == 'quick' else 4, 'Rows0': 5, 'Merge': '"update"'}
    cfg = tlc.write_cfg(os.path.join(wd, 'st.cfg'), constants=consts, invariants=['LastReportWins'], constraints=['Export'])
    res = tlc.run_tlc('Stats', cfg, workers=1, allow_violation=False)
    rep.add_tlc(res, 'Stats: every chain of <= %(MaxLen)s steps out of update_stats(k1|k2 = 1|2) / dumper / row-dropping filter over %(Rows0)s rows' % consts)
    cfg = tlc.write_cfg(os.path.join(wd, 'st0.cfg'), constants=dict(consts, MaxLen=2, Merge='"first"'), invariants=['LastReportWins'])
    if tlc.run_tlc('Stats', cfg).violated != 'LastReportWins':
        raise tlc.MachineryError('non-vacuity: Stats.tla with Merge="first" (the first reporter of a key wins) must violate LastReportWins')
    seen, out = set(), []
    for c in res.cases:
        k = canon(c['prog'])
        if k not in seen:
            seen.add(k)
            out.append(dict(stats_chain=True, prog=c['prog'], rows0=c['rows0'], merged=c['merged']))
    return out


def stats_case(c):
    """the chain of Stats.tla on the real library: what process() / results() return, and what a finalizer at the end is handed"""
    import dataflows as DF
    from dataflows import Flow
    from ..common import tuple_source
    setup_repo()
    root = tempfile.mkdtemp(prefix='c05st-', dir=tlc.WORK_ROOT)
    try:
        def every_second():
            def rows(rows):
                for i, row in enumerate(rows):
                    if i % 2 == 0:
                        yield row
            return rows

        def build(handed):
            steps = [tuple_source([('res', [('a', 'integer')], [dict(a=i) for i in range(c['rows0'])])])]
            for i, s_ in enumerate(c['prog']):
                if s_[0] == 'u':
                    steps.append(DF.update_stats({s_[1]: s_[2]}))
                elif s_[0] == 'd':
                    steps.append(DF.dump_to_path(os.path.join(root, 'o%d-%d' % (len(handed), i))))
                else:
                    steps.append(every_second())
            steps.append(DF.finalizer(lambda stats: handed.append(dict(stats))))
            return steps
        want = {k: v for k, v in c['merged'].items() if v != 0 and k != 'rows'}
        if c['merged']['rows']:
            want['count_of_rows'] = c['merged']['rows'] - 1
        for mode in ('process', 'results'):
            handed = [None] if mode == 'results' else []
            handed_ = []
            with contextlib.redirect_stdout(io.StringIO()), contextlib.redirect_stderr(io.StringIO()):
                out = getattr(Flow(*build(handed_)), mode)()
            stats = out[-1]
            got = {k: stats.get(k) for k in ('k1', 'k2', 'count_of_rows') if k in stats}
            if got != want:
                return dict(ok=False, why='%s() returns statistics that are not the last report of every key' % mode, got=got, want=want)
            if len(handed_) != 1:
                return dict(ok=False, why='the finalizer fired %d times' % len(handed_))
            goth = {k: handed_[0].get(k) for k in ('k1', 'k2', 'count_of_rows') if k in handed_[0]}
            if goth != want:
                return dict(ok=False, why='the finalizer at the end is handed statistics that are not the last report of every key', got=goth, want=want)
        return dict(ok=True)
    except Exception as e:
        return dict(ok=False, why='raised %s: %s' % (type(e).__name__, str(e)[:160]))
    finally:
        shutil.rmtree(root, ignore_errors=True)


def model_printer(rep, t):
    wd = tlc.workdir('c05p')
    consts = {'MaxN': 60 if t == 'quick' else 130, 'Nums': '{1, 2, 3, 10}', 'Lasts': '{0, 1, 3}'}
    cfg = tlc.write_cfg(os.path.join(wd, 'pr.cfg'), constants=consts, constraints=['Export'],
                        invariants=['EndsAtLastRow', 'StartsAtFirstRow', 'InOrder', 'EllipsisExactlyAtGaps', 'ShowsTail', 'EmptyPrintsNothing'])
    res = tlc.run_tlc('Printer', cfg, workers=1, allow_violation=False)
    rep.add_tlc(res, 'Printer: which rows are shown for every stream length 0..%(MaxN)s x num_rows %(Nums)s x last_rows %(Lasts)s' % consts)
    seen, out = set(), []
    for c in res.cases:
        k = (c['n'], c['num'], c['last'])
        if k not in seen:
            seen.add(k)
            out.append(c)
    return out


def printer_case(c):
    """the real printer on a stream of n rows: the first column of the printed table (row numbers and '...') must be the model's"""
    import dataflows as DF
    from dataflows import Flow
    setup_repo()
    tables, heads = [], []
    kw = dict(num_rows=c['num'], header_print=lambda h, k: heads.append(h), table_print=lambda d, k: tables.append(d))
    if c['last']:
        kw['last_rows'] = c['last']
    rows = [dict(i=k, s='r%d' % k) for k in range(1, c['n'] + 1)]
    from ..common import tuple_source

    def later_edit(row):
        row['s'] = 'EDITED'          # a later step edits rows in place: the printer shows the rows as they were at its position
    try:
        with contextlib.redirect_stdout(io.StringIO()):
            ds = Flow(tuple_source([('t', [('i', 'integer'), ('s', 'string')], rows)]), DF.printer(**kw), later_edit).datastream()
            passed = [r['i'] for res in ds.res_iter for r in res]
    except Exception as e:
        return dict(ok=False, why='raised %s: %s' % (type(e).__name__, str(e)[:160]))
    if passed != list(range(1, c['n'] + 1)):
        return dict(ok=False, why='rows passed downstream differ', got=passed[:10])
    if heads != ['t'] or len(tables) != 1:
        return dict(ok=False, why='one header and one table per resource expected', got=[heads, len(tables)])
    got, cells = [], []
    for ln in tables[0].splitlines():
        tok = ln.split()
        if tok and (tok[0].isdigit() or tok[0] == '...'):
            got.append(0 if tok[0] == '...' else int(tok[0]))
            if tok[0].isdigit():
                cells.append(tok[1:])
    if got != c['printed']:
        return dict(ok=False, why='printed rows differ from Printer.tla', got=got, want=c['printed'])
    bad = [x for x, k in zip(cells, [v for v in got if v]) if x != [str(k), 'r%d' % k]]
    if bad:
        return dict(ok=False, why='a printed row does not show the row as it was at the printer', got=bad[:3])
    return dict(ok=True)


def run_failed_case(item):
    """a run that FAILS while rows are flowing: whatever stream / checkpoint has published under its final name afterwards
    must still be the full stream at its position - i.e. nothing, since the full stream never passed (the unfinished
    output stays under its temporary name)"""
    from dataflows import Flow
    import dataflows as DF
    root = tempfile.mkdtemp(prefix='c05f-', dir=tlc.WORK_ROOT)
    try:
        okind, fail, k, n = item['obs'], item['fail'], item['k'], item['n']
        opath = os.path.join(root, 'obs')
        os.makedirs(opath, exist_ok=True)

        class Boom(Exception):
            pass

        def source():
            for i in range(n):
                if fail == 'source' and i == k:
                    raise Boom('source breaks at row %d' % i)
                yield dict(a=i, b='s%d' % i)

        def later(row):
            if fail == 'later' and row['a'] == k:
                raise Boom('a later step rejects row %d' % k)

        def later_rows(rows):
            yield from rows
            if fail == 'later_end':
                raise Boom('a later step fails after its last row')
        obs = DF.stream(os.path.join(opath, 's.ndjson')) if okind == 'stream' else DF.checkpoint('cp', checkpoint_path=opath)
        final = os.path.join(opath, 's.ndjson') if okind == 'stream' else os.path.join(opath, 'cp', 'stream.ndjson')
        raised = False
        try:
            with contextlib.redirect_stdout(io.StringIO()), contextlib.redirect_stderr(io.StringIO()):
                Flow(source(), obs, later, later_rows).process()
        except Exception:
            raised = True
        import gc
        gc.collect()
        if not raised:
            return dict(ok=True, skipped='the run did not fail')
        if os.path.exists(final):
            try:
                got = read_stream(final)
                rows = got[0]['rows'] if got else []
            except Exception:
                rows = None
            full = [dict(a=i, b='s%d' % i) for i in range(n)]
            if rows != full:
                return dict(ok=False, why='after a failed run %s has published an incomplete stream under its final name' % okind,
                            published_rows=None if rows is None else len(rows), full_stream_rows=n)
        return dict(ok=True)
    finally:
        shutil.rmtree(root, ignore_errors=True)


def run():
    rep = Report(PROP)
    t = rep.tier
    setup_repo()
    r = rng(PROP)
    model(rep, t)
    engine.check_traces(rep, trace_items(r, t), 'C05')
    items = [dict(prefix=p, obs=o, suffix=s, input=inp) for p in PREFIXES for o in OBS for s in SUFFIXES
             for inp in (['I1'] if t == 'quick' else ['I1', 'I4'])]
    for it in items:
        if it['obs'] == 'printer':
            it['printer_rows'] = r.choice([1, 2])
    if t == 'quick':
        r.shuffle(items)
        # every observer followed by an in-place edit of all rows is kept (what it persists / prints must not see the later edit)
        keep = [it for it in items if it['suffix'] and it['suffix'][-1] == 'row_inplace' and it['suffix'][0] != 'delete_first']
        items = keep + [it for it in items if it not in keep][:max(0, 560 - len(keep))]
    res = pmap(run_menu_case, items, chunksize=4)
    errs = harness_errors(res)
    if errs:
        raise tlc.MachineryError('harness error in observer replay: ' + errs[0])
    skipped = 0
    for it, out in zip(items, res):
        rep.count(1, traces=1)
        if out.get('skipped'):
            skipped += 1
            continue
        rep.mark_distinct(it)
        if not out['ok']:
            rep.violation(it, dict(case=it, **{k: v for k, v in out.items() if k != 'ok'}),
                          category='menu/%s/%s' % (it['obs'], out['why'][:50]))
    model_subflow(rep)
    uitems = [dict(upstream=True, obs=o, shape=sh) for o in ('dump_to_path', 'dump_to_zip', 'stream', 'checkpoint', 'finalizer') for sh in ([2], [0], [2, 0, 3])]
    uitems += [dict(upstream=True, obs=o, shape=[3, 0, 2], limit=1) for o in ('dump_to_path', 'dump_to_zip', 'stream', 'checkpoint', 'finalizer')]
    uitems += [dict(upstream=True, obs=o, shape=sh, limit=lim_, inchain=how) for o in ('dump_to_path', 'dump_to_zip', 'stream', 'checkpoint', 'finalizer')
               for how in ('islice', 'break', 'return') for (sh, lim_) in (([3, 0, 2], 1), ([5, 4], 2), ([150, 3], 120))]
    uitems += [dict(upstream=True, obs=o, shape=[2, 1, 3], select=k) for o in ('dump_to_path', 'dump_to_zip', 'stream', 'checkpoint', 'finalizer') for k in (0, 1, -1)]
    for it, out in zip(uitems, pmap(upstream_observer_case, uitems, chunksize=2)):
        if '__harness_error__' in out:
            raise tlc.MachineryError('harness error in upstream-observer cases: ' + out['__harness_error__'])
        rep.count(1, traces=1)
        rep.mark_distinct(it)
        if not out['ok']:
            rep.violation(it, dict(case=it, **{k: v for k, v in out.items() if k != 'ok'}), category='observer-upstream-of-load-tuple/%s' % it['obs'])
    sitems = [dict(finstats=True, shape=sh, pos=p_) for sh in ([3], [0], [2, 4], [150, 1]) for p_ in ('last', 'before_delete')]
    for it, out in zip(sitems, pmap(finalizer_stats_case, sitems, chunksize=2)):
        if '__harness_error__' in out:
            raise tlc.MachineryError('harness error in finalizer-stats cases: ' + out['__harness_error__'])
        rep.count(1, traces=1)
        rep.mark_distinct(it)
        if not out['ok']:
            rep.violation(it, dict(case=it, **{k: v for k, v in out.items() if k != 'ok'}), category='finalizer-stats/%s' % out['why'][:40])
    stcases = model_stats(rep, t)
    for c, out in zip(stcases, pmap(stats_case, stcases, chunksize=8)):
        if '__harness_error__' in out:
            raise tlc.MachineryError('harness error in stats replay: ' + out['__harness_error__'])
        rep.count(1, traces=1)
        rep.mark_distinct(c)
        if not out['ok']:
            rep.violation(c, dict(case=c, **{k: v for k, v in out.items() if k != 'ok'}), category='stats-merge/%s' % out['why'][:40])
    pcases = model_printer(rep, t)
    if t == 'quick':
        r.shuffle(pcases)
        pcases = [c for c in pcases if c['n'] in (0, 1, 2, 3, 11, 12, 13, 21, 22)][:150] + pcases[:250]
    for c, out in zip(pcases, pmap(printer_case, pcases, chunksize=8)):
        if '__harness_error__' in out:
            raise tlc.MachineryError('harness error in printer replay: ' + out['__harness_error__'])
        rep.count(1, traces=1)
        rep.mark_distinct(dict(printer=[c['n'], c['num'], c['last']]))
        if not out['ok']:
            rep.violation(dict(printer=c), dict(n=c['n'], num_rows=c['num'], last_rows=c['last'], **{k: v for k, v in out.items() if k != 'ok'}),
                          category='printer/%s' % out['why'][:40])
    fitems = [dict(failed_run=True, obs=o, fail=f, k=k, n=n) for o in ('stream', 'checkpoint') for f in ('source', 'later', 'later_end')
              for (k, n) in ((0, 3), (2, 3), (150, 400), (399, 400))]
    for it, out in zip(fitems, pmap(run_failed_case, fitems, chunksize=4)):
        if '__harness_error__' in out:
            raise tlc.MachineryError('harness error in failed-run cases: ' + out['__harness_error__'])
        rep.count(1, traces=1)
        rep.mark_distinct(it)
        if not out['ok']:
            rep.violation(it, dict(case=it, **{k_: v for k_, v in out.items() if k_ != 'ok'}), category='failed-run/%s/%s' % (it['obs'], it['fail']))
    rep.sample(dict(menu_case=items[0]))
    rep.notes['menu_cases'] = len(items)
    rep.notes['menu_cases_skipped_illtyped'] = skipped
    rep.assumptions += ['the consumer drains the pipeline (process()/results()); a consumer of datastream() that stops early is outside the premise (see DESIGN.md R12)',
                        'cell values in the Menu part are ints, decimals and plain ASCII strings, so that codec issues are reported under C03/C07 only']
    return rep.finish()


def replay(path):
    setup_repo()
    rec = json.load(open(path))
    c = rec['case']
    if c.get('finstats'):
        out = finalizer_stats_case(c)
        print(json.dumps(out, default=str)[:2000])
        bad = not out['ok']
    elif c.get('stats_chain'):
        out = stats_case(c)
        print(json.dumps(out, default=str)[:2000])
        bad = not out['ok']
    elif c.get('upstream'):
        out = upstream_observer_case(c)
        print(json.dumps(out, default=str)[:2000])
        bad = not out['ok']
    elif 'printer' in c:
        out = printer_case(c['printer'])
        print(json.dumps(out, default=str)[:2000])
        bad = not out['ok']
    elif c.get('failed_run'):
        out = run_failed_case(c)
        print(json.dumps(out, default=str)[:2000])
        bad = not out['ok']
    elif 'steps' in c:
        tr = engine.record(c)
        _, v = engine.validate([tr])
        bad = not v[0]['C05']
        print(v[0], tr['fin'])
    else:
        out = run_menu_case(c)
        print(json.dumps(out, default=str)[:2000])
        bad = not out['ok']
    if bad:
        print('VIOLATION property=%s replay=%s' % (PROP, path))
    return 1 if bad else 0
