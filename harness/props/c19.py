"""C19 - a dump descriptor is written only after its data files are complete.

Spec:   spec/Dump.tla (every file operation of dump_to_path incl. the non-atomic copy as create / chunk / close; Kill
        between any two; DescriptorLast, NoEarlyDescriptor), spec/DumpTrace.tla
Bind:   exhaustive crash-point enumeration on the real code: every temp-file write, close, copy step and unlink of a real
        dump_to_path into a fresh directory is numbered; the dump is repeated in a forked child killed right before
        and right after operation k; the recorded operation prefix and the directory found afterwards are validated by
        TLC: the model's file system must be the real one, and if datapackage.json parses, every file it lists exists with
        the recorded size and md5.
"""
import hashlib
import json
import os
import shutil
import tempfile

from .. import tlc, fsrec
from ..common import Report, pmap, harness_errors, rng, setup_repo

PROP = 'C19'

SHAPES_QUICK = [([2], 'csv'), ([0], 'csv'), ([2, 1], 'csv'), ([1, 0, 2], 'csv'), ([2], 'json'), ([1, 2], 'json'), ([0, 1, 1], 'json'),
                # configurations of the dump itself: the per-resource hash switched off (only the size is recorded, and it must still be the
                # size of the complete file); a package that was dumped before, loaded and is dumped again (its resources arrive with
                # bytes / hash of their own, which must be replaced, not added to)
                ([2, 1], 'csv', 'nohash'), ([1, 2], 'json', 'nohash'), ([2, 1], 'csv', 'redump'), ([0, 2], 'csv', 'redump'),
                # add_filehash_to_path with resources whose files are byte-identical (same hash directory, different names)
                ([2, 2], 'csv', 'filehash_same'), ([0, 0, 1], 'json', 'filehash_same')]
SHAPES_THOROUGH = SHAPES_QUICK + [([3, 3, 3], 'csv'), ([3, 3, 3], 'json'), ([0, 0], 'csv'), ([5], 'json'), ([1], 'csv'), ([1], 'json'),
                                  ([3, 0, 3], 'csv', 'nohash'), ([3, 3], 'csv', 'redump'), ([2000], 'csv', 'nohash')]


def model(rep):
    wd = tlc.workdir('c19')
    cfg = tlc.write_cfg(os.path.join(wd, 'mc.cfg'), constants={'MaxRes': 3}, invariants=['DescriptorLast', 'NoEarlyDescriptor'])
    res = tlc.run_tlc('Dump', cfg, allow_violation=False, coverage=True)
    rep.add_tlc(res, 'Dump MaxRes=3: DescriptorLast, NoEarlyDescriptor with Kill between any two file operations')


def build(shape, fmt, out, variant='default', pre=None):
    from dataflows import Flow, dump_to_path, load
    if variant == 'redump':
        return Flow(load(os.path.join(pre, 'datapackage.json')), dump_to_path(out, format=fmt))
    srcs = [[dict(r=r, k=k, v='val-%d-%d' % (r, k)) for k in range(1, n + 1)] for r, n in enumerate(shape, start=1)]
    if variant == 'filehash_same':
        srcs = [[dict(r=0, k=k, v='val-%d' % k) for k in range(1, n + 1)] for n in shape]
    # an empty list has no inferable schema: give it a declared one
    from ..common import tuple_source
    src = tuple_source([('res%d' % (i + 1), [('r', 'integer'), ('k', 'integer'), ('v', 'string')], rows) for i, rows in enumerate(srcs)])
    if variant == 'filehash_same':
        return Flow(src, dump_to_path(out, format=fmt, add_filehash_to_path=True))
    if variant == 'nohash':
        return Flow(src, dump_to_path(out, format=fmt, counters={'resource-hash': None, 'datapackage-hash': None}))
    return Flow(src, dump_to_path(out, format=fmt))


def project(out, ref, variant='default'):
    """state of the output directory relative to the uninterrupted dump `ref` (dict path -> bytes)"""
    res = {'desc': 'absent', 'data': [], 'listed_ok': True}
    dpj = os.path.join(out, 'datapackage.json')
    desc = None
    if os.path.exists(dpj):
        try:
            desc = json.load(open(dpj))
            res['desc'] = 'parseable'
        except Exception:
            res['desc'] = 'unparseable'
    for path in ref['paths']:
        p = os.path.join(out, path)
        if not os.path.exists(p):
            res['data'].append('absent')
        else:
            res['data'].append('complete' if open(p, 'rb').read() == ref['files'][path] else 'partial')
    if desc is not None:
        for r in desc.get('resources', []):
            p = os.path.join(out, r['path'])
            if not os.path.exists(p):
                res['listed_ok'] = False
                continue
            data = open(p, 'rb').read()
            if len(data) != r.get('bytes') or (variant != 'nohash' and hashlib.md5(data).hexdigest() != r.get('hash')):
                res['listed_ok'] = False
    return res


def crash_case(item):
    setup_repo()
    shape, fmt = item['shape'], item['fmt']
    variant = item.get('variant', 'default')
    root = tempfile.mkdtemp(prefix='c19-', dir=tlc.WORK_ROOT)
    try:
        pre = os.path.join(root, 'pre')
        if variant == 'redump':
            import contextlib
            import io
            with contextlib.redirect_stdout(io.StringIO()):
                build(shape, fmt, pre).process()
        refdir = os.path.join(root, 'ref')
        reflog = os.path.join(root, 'ref.log')

        def ref():
            rec = fsrec.Recorder(reflog)
            fsrec.install_dump(rec, refdir)
            build(shape, fmt, refdir, variant, pre).process()
        rc = fsrec.in_child(ref)
        if rc != 0:
            return {'__harness_error__': 'reference dump failed rc=%s' % rc}
        ref_ops = fsrec.read_log(reflog)
        d = json.load(open(os.path.join(refdir, 'datapackage.json')))
        paths = [r['path'] for r in d['resources']]
        missing = [p for p in paths if not os.path.exists(os.path.join(refdir, p))]
        if missing:
            # the UNINTERRUPTED dump already ends with a descriptor that lists files which are not there: C19 fails without any kill
            return dict(ref_violation='the complete dump lists data files that do not exist: %s' % missing, nops=len(ref_ops), representative=[])
        refinfo = dict(paths=paths, files={p: open(os.path.join(refdir, p), 'rb').read() for p in paths})
        if item['kind'] == 'count':
            # consecutive writes into the same temp file are one equivalence class for the output directory
            idx = []
            for i, o in enumerate(ref_ops, start=1):
                if o[0] == 'write':
                    prev = ref_ops[i - 2] if i >= 2 else None
                    nxt = ref_ops[i] if i < len(ref_ops) else None
                    if prev and prev[0] == 'write' and nxt and nxt[0] == 'write':
                        continue
                idx.append(i)
            return dict(nops=len(ref_ops), representative=idx)
        out = os.path.join(root, 'run')
        log = os.path.join(root, 'run.log')

        def first():
            rec = fsrec.Recorder(log, mode=item['kind'], k=item['k'])
            fsrec.install_dump(rec, out)
            build(shape, fmt, out, variant, pre).process()
        rc = fsrec.in_child(first)
        ops = fsrec.read_log(log)
        ev = []
        for o in ops:
            if o[0] == 'tmp_open':
                ev.append(['tmp_open'])
            elif o[0] == 'write':
                ev.append(['tmp_write'])
            elif o[0] == 'close':
                ev.append(['tmp_close'])
            elif o[0] in ('copy_create', 'copy_chunk', 'copy_close'):
                rel = o[1]
                i = len(shape) + 1 if rel == 'datapackage.json' else (paths.index(rel) + 1 if rel in paths else 0)
                ev.append([o[0], i])
            elif o[0] == 'unlink':
                ev.append(['unlink'])
        post = project(out, refinfo, variant) if os.path.isdir(out) else dict(desc='absent', data=['absent'] * len(paths), listed_ok=True)
        return dict(nres=len(shape), ev=ev, post=post, rc=rc)
    finally:
        shutil.rmtree(root, ignore_errors=True)


def validate(rep, traces):
    wd = tlc.workdir('c19t')
    tf = tlc.write_ndjson(os.path.join(wd, 'tr.ndjson'), [dict(nres=t['nres'], ev=t['ev'], post=t['post']) for t in traces])
    cfg = tlc.write_cfg(os.path.join(wd, 'tr.cfg'), spec='TraceSpec', constants={'MaxRes': 4}, constraints=['Verdict'])
    res = tlc.run_tlc('DumpTrace', cfg, workers=1, env={'TRACE_FILE': tf}, allow_violation=False, timeout=3000)
    rep.add_tlc(res, 'DumpTrace: %d crash-point traces' % len(traces))
    out = {v[0]: dict(matched=v[1], total=v[2], fs_eq=v[3], c19=v[4], model_inv=v[5]) for v in res.tuples('VERDICT')}
    if len(out) != len(traces):
        raise tlc.MachineryError('DumpTrace: %d verdicts for %d traces' % (len(out), len(traces)))
    return [out[i + 1] for i in range(len(traces))]


def run():
    rep = Report(PROP)
    t = rep.tier
    setup_repo()
    model(rep)
    shapes = SHAPES_QUICK if t == 'quick' else SHAPES_THOROUGH
    shapes = [(x[0], x[1], x[2] if len(x) > 2 else 'default') for x in shapes]
    counts = pmap(crash_case, [dict(shape=s, fmt=f, variant=v_, kind='count') for s, f, v_ in shapes], procs=8)
    errs = harness_errors(counts)
    if errs:
        raise tlc.MachineryError('harness error: ' + errs[0])
    items = []
    total_ops = 0
    for (s, f, v_), c in zip(shapes, counts):
        if c.get('ref_violation'):
            rep.count(1, traces=1)
            rep.violation(dict(shape=s, fmt=f, variant=v_, kind='kill_before', k=10 ** 6), dict(dump=dict(shape=s, format=f, variant=v_), why=c['ref_violation']),
                          category='%s/complete-dump-lists-missing-files' % f)
            continue
        total_ops += c['nops']
        ks = c['representative'] if t == 'quick' else range(1, c['nops'] + 1)
        for k in ks:
            for kind in ('kill_before', 'kill_after'):
                items.append(dict(shape=s, fmt=f, variant=v_, kind=kind, k=k))
            if v_ == 'default' and k % 3 == 0:
                # the interruption is an exception raised by the file operation (disk full, permission): the failed dump must not leave a
                # descriptor that lists files which were never completed either
                items.append(dict(shape=s, fmt=f, variant=v_, kind='raise', k=k))
        items.append(dict(shape=s, fmt=f, variant=v_, kind='kill_before', k=c['nops'] + 5))      # never fires: the complete dump
    traces = pmap(crash_case, items, chunksize=2)
    errs = harness_errors(traces)
    if errs:
        raise tlc.MachineryError('harness error in crash enumeration: ' + errs[0])
    verd = validate(rep, traces)
    # the binding binds: a recorded trace whose directory lacks a listed data file / whose operation log lost an entry is rejected
    import copy
    # (a probe is an execution that itself conforms - under a broken library another one is taken, or the self-test is skipped)
    probe = next((tr for tr, v in zip(traces, verd) if tr['post']['desc'] == 'parseable' and tr['post']['data'] and len(tr['ev']) > 3
                  and v['c19'] and v['fs_eq'] and v['matched'] == v['total']), None)
    if probe is not None:
        c1 = copy.deepcopy(probe)
        c1['post']['data'][0] = 'absent'
        c1['post']['listed_ok'] = False
        c2 = copy.deepcopy(probe)
        del c2['ev'][next(i for i, e in enumerate(c2['ev']) if e[0] == 'copy_close')]      # (single tmp_write entries are interchangeable in the model)
        v1, v2 = validate(rep, [c1, c2])
        if v1['c19'] or (v2['fs_eq'] and v2['matched'] == v2['total']):
            raise tlc.MachineryError('DumpTrace accepted a corrupted trace (c19=%s, matched=%s/%s): the trace spec does not bind' % (v1['c19'], v2['matched'], v2['total']))
        rep.notes['trace_binding_selftest'] = 'a parseable descriptor with a listed file missing fails C19; a log with a copy_close removed is not a behaviour of Dump.tla'
    outcomes = {}
    for it, tr, v in zip(items, traces, verd):
        rep.count(1, traces=1)
        rep.mark_distinct(it)
        outcomes[tr['post']['desc']] = outcomes.get(tr['post']['desc'], 0) + 1
        if not v['c19']:
            rep.violation(it, dict(crash_point=it, directory=tr['post'], ops_before=tr['ev'][-5:]),
                          category='%s/%s' % (it['fmt'], 'descriptor-before-data'))
        elif not v['fs_eq'] or v['matched'] != v['total']:
            rep.model_drift('file operations / directory after the kill differ from Dump.tla (matched %d/%d ops) although C19 holds' % (v['matched'], v['total']), it)
    rep.sample(dict(crash_point=items[len(items) // 3], trace=dict(ev=traces[len(items) // 3]['ev'][-8:], post=traces[len(items) // 3]['post'])))
    rep.notes['descriptor_states_after_kill'] = outcomes
    rep.notes['file_operations_recorded'] = total_ops
    rep.notes['crash_points'] = len(items)
    rep.assumptions += ['a kill is os._exit in a forked child right before / right after the numbered operation',
                        'shutil.copy is replaced by create / two chunks / close so that a kill can fall inside a copy',
                        'quick tier: consecutive writes into the same temp file are one equivalence class for the output directory (first and last of each run are killed); thorough: every operation']
    return rep.finish(exhaustive=(t == 'thorough'))


def replay(path):
    setup_repo()
    rec = json.load(open(path))
    tr = crash_case(rec['case'])
    if tr.get('ref_violation'):
        print(tr['ref_violation'])
        print('VIOLATION property=%s replay=%s' % (PROP, path))
        return 1
    rep = Report(PROP)
    v = validate(rep, [tr])[0]
    print(v, tr['post'])
    if not v['c19']:
        print('VIOLATION property=%s replay=%s' % (PROP, path))
        return 1
    return 0
