"""C12 - sort_rows emits a stable, correctly ordered permutation.

Spec:   spec/ProcSort.tla: IdealSort (stable, ascending; reverse = exact reverse) next to ImplSort, the design the code
        implements (key string built from the rendering and 8 hex digits of the row number, lexicographic order; numbers
        through an order-preserving encoding of IEEE bits, modelled on a miniature float format).  Three key-string designs
        are modelled: "concat" (the pinned code: TLC refutes it whenever one key is a proper prefix of another), "nulsep"
        (a bare NUL separator: refuted by keys containing NUL) and "escsep" (the repaired code: NUL escaped, NUL NUL
        terminator) for which TextDesignOK holds on all 394 420 tables of <= 3 keys of <= 2 characters over 8 character
        classes (incl. NUL and SOH).  Numbers: ZeroFix = FALSE (pinned) is refuted for -0.0, ZeroFix = TRUE holds.
        spec/SortTrace.tla: rank-abstracted real runs.
Bind:   every exported text table is sorted for real (format string / field list / callable key; reverse; batch sizes);
        numeric tables (ints, floats, Decimals, negatives, fractions, huge magnitudes) are rank-abstracted with exact
        arithmetic and TLC checks permutation, order, stability and exact reversal; thorough adds 12 000 / 30 000 rows.
"""
import contextlib
import io
import json
import os
from decimal import Decimal
from fractions import Fraction

from .. import tlc
from ..common import Report, pmap, harness_errors, rng, setup_repo

PROP = 'C12'
KF_PREFIX = 'C12-text-key-prefix'              # repaired (fix: 7821ded): not listed any more, a reappearance is a VIOLATION
KF_NEGZERO = 'C12-negative-zero-first'         # repaired (fix: 3ca0412): likewise
KF_BIGINT = 'C12-integers-beyond-2^53-collapse'
CHARS = {1: '!', 2: '0', 3: '9', 4: 'a', 5: 'f', 6: 'z', 7: '\x00', 8: '\x01'}


def model(rep, t):
    wd = tlc.workdir('c12')
    alpha = '{1, 2, 3, 4, 5, 6, 7, 8}'
    consts = {'MaxRows': 3, 'MaxKeyLen': 2, 'Alphabet': alpha, 'Design': '"escsep"', 'ZeroFix': 'TRUE'}
    cfg = tlc.write_cfg(os.path.join(wd, 'a.cfg'), constants=consts, invariants=['TextDesignOK'], constraints=['Export'])
    res = tlc.run_tlc('ProcSort', cfg, workers=1, allow_violation=False, timeout=3000)
    rep.add_tlc(res, 'ProcSort text keys, Design = escsep (the code): ImplSort = IdealSort on every table (<=3 rows, keys <=2 chars over 8 classes incl. NUL, SOH)')
    cases = res.cases
    # the two refuted designs: the pinned concatenation and the bare NUL separator (why the terminator needs the escape)
    refuted = {}
    for design in ('concat', 'nulsep'):
        cfg = tlc.write_cfg(os.path.join(wd, design + '.cfg'), constants=dict(consts, Design='"%s"' % design), invariants=['TextDesignOK'])
        r2 = tlc.run_tlc('ProcSort', cfg)
        refuted[design] = bool(r2.violated)
    num = {'MaxRows': 0, 'MaxKeyLen': 0, 'Alphabet': '{1}', 'Design': '"escsep"'}
    cfg = tlc.write_cfg(os.path.join(wd, 'c.cfg'), constants=dict(num, ZeroFix='TRUE'), invariants=['NumDesignOK', 'NumDesignZeroOK'])
    r3 = tlc.run_tlc('ProcSort', cfg, allow_violation=False)
    rep.add_tlc(r3, 'ProcSort miniature IEEE format (32 bit patterns, denormals, two zeros), ZeroFix = TRUE (the code): the key encoding preserves order and equality')
    cfg = tlc.write_cfg(os.path.join(wd, 'd.cfg'), constants=dict(num, ZeroFix='FALSE'), invariants=['NumDesignOK'])
    r4 = tlc.run_tlc('ProcSort', cfg)
    refuted['negzero'] = bool(r4.violated or 'equal to FALSE' in r4.out)
    if not all(refuted.values()):
        raise tlc.MachineryError('non-vacuity: the pinned key designs must be refuted by TLC: %r' % refuted)
    rep.notes['design_level_findings'] = dict(concat_refuted=refuted['concat'], bare_nul_separator_refuted=refuted['nulsep'],
                                              pinned_zero_encoding_refuted=refuted['negzero'])
    return cases


def sort_real(rows, key, reverse, batch_size):
    from dataflows import Flow, sort_rows
    from ..common import tuple_source
    fields = [(k, 'integer' if k == 'id' else 'any') for k in (rows[0].keys() if rows else ['id', 'a'])]
    with contextlib.redirect_stdout(io.StringIO()):
        # a (descriptor, iterators) source hands the rows over untouched (an iterable source would cast '' to null)
        ds = Flow(tuple_source([('t', fields, [dict(r) for r in rows])]), sort_rows(key, reverse=reverse, batch_size=batch_size)).datastream()
        out = [[r['id'] for r in res] for res in ds.res_iter][0]
    return out


def replay_text(item):
    setup_repo()
    c, v = item['case'], item['variant']
    keys = [''.join(CHARS[x] for x in k) for k in c['tbl']]
    rows = [dict(id=i + 1, s=k) for i, k in enumerate(keys)]
    key = {'format': '{s}', 'list': ['s'], 'callable': (lambda row: row['s'])}[v['key']]
    try:
        out = sort_real(rows, key, v['reverse'], v['batch'])
    except Exception as e:
        return dict(ok=False, why='raised %s: %s' % (type(e).__name__, str(e)[:200]))
    ideal = list(c['ideal'])
    impl = list(c['impl'])
    if v['reverse']:
        ideal, impl = ideal[::-1], impl[::-1]
    if out == ideal:
        return dict(ok=True)
    return dict(ok=False, why='order differs from the stable sort', got=out, ideal=ideal, is_impl=(out == impl), prefix=c['prefix'], keys=keys)


def numeric_value(r, kind):
    if kind == 'int':
        return r.randint(-10 ** 6, 10 ** 6)
    if kind == 'smallint':
        return r.randint(-3, 3)
    if kind == 'float':
        return r.choice([r.uniform(-1000, 1000), r.uniform(-1e-5, 1e-5), r.uniform(-1, 1) * 10 ** r.randint(-300, 300), float(r.randint(-5, 5)), 0.5, -0.5])
    if kind == 'ulp':
        # neighbouring doubles (they differ in the last bit of the mantissa only), of both signs; integers up to 2^53 are doubles too
        import math
        if r.random() < 0.4:
            k = r.randrange(2 ** 52, 2 ** 53 - 2)
            return r.choice([1, -1]) * (k + r.choice([0, 1, 2]))
        base = r.choice([0.3, 0.1 + 0.2, 1.0, 1e-300, 123456.789, 2.0 ** -1022, 1e300])
        x = r.choice([base, math.nextafter(base, math.inf), math.nextafter(base, -math.inf)])
        return r.choice([1, -1]) * x
    if kind == 'decimal':
        return Decimal('%d.%0*d' % (r.randint(-10 ** 4, 10 ** 4), r.randint(1, 6), r.randint(0, 999)))
    raise ValueError(kind)


def exact(v):
    return Fraction(v) if not isinstance(v, Decimal) else Fraction(v)


def dense_ranks(keys):
    order = sorted(set(keys))
    idx = {k: i + 1 for i, k in enumerate(order)}
    return [idx[k] for k in keys]


def run_numeric(item):
    """a table of numbers (or text / multi-field keys), sorted for real; returns the rank-abstracted record"""
    import random
    setup_repo()
    r = random.Random(item['seed'])
    n = item.get('n') or r.randint(0, 40)
    mode = item['mode']
    rows = []
    if mode == 'numeric':
        kinds = r.choice([['int'], ['float'], ['decimal'], ['int', 'float', 'decimal'], ['smallint'], ['smallint', 'float'], ['ulp'], ['ulp']])
        for i in range(n):
            v = numeric_value(r, r.choice(kinds))
            if isinstance(v, float) and v == 0.0 and r.random() < 0.5:
                v = -0.0     # both zeros are one key (equal keys keep input order)
            rows.append(dict(id=i + 1, a=v))
        keys = [exact(x['a']) for x in rows]
        key = r.choice(['{a}', ['a']])
    elif mode == 'text':
        alpha = ['a', 'b', 'Z', '0', '9', ' ', u'é', u'中', u'\U0001F600', 'f', '~', '!']
        alpha = alpha + ['\x00', '\x01', '1', 'a', 'a']
        L = r.randint(1, 4)
        for i in range(n):
            rows.append(dict(id=i + 1, a=''.join(r.choice(alpha) for _ in range(r.randint(0, L)))))    # any lengths: prefix pairs, NUL inside
        keys = [tuple(ord(ch) for ch in x['a']) for x in rows]
        key = r.choice(['{a}', ['a'], lambda row: row['a']])
    elif mode == 'multi':
        L = 2
        for i in range(n):
            rows.append(dict(id=i + 1, a=r.randint(-3, 3), b=''.join(r.choice('ab') for _ in range(L))))
        keys = [(Fraction(x['a']), tuple(ord(ch) for ch in x['b'])) for x in rows]
        key = r.choice(['{a}{b}', ['a', 'b']])
    elif mode == 'multi_spec':
        # a format-string key that mixes a field WITH a format spec and a plain numeric field: the plain one still compares numerically
        for i in range(n):
            rows.append(dict(id=i + 1, a=r.choice([r.randint(-1000, 1000), r.randint(-9, 9), r.uniform(-50, 50)]), b=''.join(r.choice('ab') for _ in range(2))))
        keys = [(tuple(ord(ch) for ch in x['b']), exact(x['a'])) for x in rows]
        key = r.choice(['{b:>4}{a}', '{b!s}{a}', '{b:<3}|{a}'])
    elif mode == 'big':
        for i in range(n):
            rows.append(dict(id=i + 1, a=r.randint(-50, 50) if i % 3 else r.uniform(-50, 50)))
        keys = [exact(x['a']) for x in rows]
        key = '{a}'
    reverse = item['reverse'] if 'reverse' in item else r.random() < 0.4
    batch = r.choice([1, 2, 7, 1000])
    try:
        out = sort_real(rows, key, reverse, batch)
    except Exception as e:
        return dict(raised='%s: %s' % (type(e).__name__, str(e)[:200]), mode=mode)
    return dict(ranks=dense_ranks(keys), out=out, reverse=reverse, mode=mode, n=n, batch=batch,
                sample=[repr(x.get('a')) for x in rows[:6]])


def two_resource_case(item):
    """one sort_rows step over a package of two resources that share the key field's NAME but not its kind (text in one,
    numbers in the other, either order): each resource is sorted by its own keys - numerically where they are numbers"""
    import random
    from dataflows import Flow, sort_rows
    from ..common import tuple_source
    setup_repo()
    r = random.Random(item['seed'])
    texts = [dict(id=i + 1, a=''.join(r.choice('abz09 ') for _ in range(r.randint(0, 3)))) for i in range(r.randint(1, 12))]
    nums = [dict(id=i + 1, a=r.choice([r.randint(-1000, 1000), r.uniform(-50, 50), r.randint(-9, 9)])) for i in range(r.randint(2, 12))]
    order = item['order']
    res = [('t', [('id', 'integer'), ('a', 'any')], texts), ('n', [('id', 'integer'), ('a', 'any')], nums)]
    if order == 'numbers_first':
        res = res[::-1]
    try:
        with contextlib.redirect_stdout(io.StringIO()):
            ds = Flow(tuple_source(res), sort_rows('{a}', reverse=item['reverse'])).datastream()
            got = {rr.res.name: [x['id'] for x in rr] for rr in ds.res_iter}
    except Exception as e:
        return dict(ok=False, why='raised %s: %s' % (type(e).__name__, str(e)[:160]))

    def want(rows, key):
        o = [x['id'] for x in sorted(rows, key=key)]          # sorted() is stable
        return o[::-1] if item['reverse'] else o
    wt = want(texts, lambda x: x['a'])
    wn = want(nums, lambda x: exact(x['a']))
    if got.get('t') != wt:
        return dict(ok=False, why='the text resource is not in key order', got=got.get('t'), want=wt, keys=[x['a'] for x in texts])
    if got.get('n') != wn:
        return dict(ok=False, why='the numeric resource is not in numeric order', got=got.get('n'), want=wn, keys=[repr(x['a']) for x in nums])
    return dict(ok=True)


def probe_known(rep):
    """the two numeric deviations of the float64 key design: must be exactly the listed ones"""
    setup_repo()
    rows = [dict(id=1, a=-1.0), dict(id=2, a=-0.0), dict(id=3, a=-5.5), dict(id=4, a=1.0)]
    out = sort_real(rows, '{a}', False, 1000)
    rep.count(1, traces=1)
    if out == [3, 1, 2, 4]:
        pass
    elif out == [2, 3, 1, 4]:
        rep.known(KF_NEGZERO, '-0.0 sorts before every negative number', dict(values=[-1.0, -0.0, -5.5, 1.0], got=out))
    else:
        rep.violation(dict(probe='negzero'), dict(values=[-1.0, -0.0, -5.5, 1.0], got=out, why='neither numeric order nor the listed -0.0 deviation'), category='numeric/negzero')
    big = [2 ** 53 + 1, 2 ** 53, 5, 2 ** 53 + 2]
    out = sort_real([dict(id=i + 1, a=v) for i, v in enumerate(big)], '{a}', False, 1000)
    rep.count(1, traces=1)
    if out == [3, 2, 1, 4]:
        pass
    elif out == [3, 1, 2, 4]:
        rep.known(KF_BIGINT, 'integers that differ only beyond 53 bits get the same key and stay in input order', dict(values=big, got=out))
    else:
        rep.violation(dict(probe='bigint'), dict(values=big, got=out, why='neither numeric order nor the listed 2^53 deviation'), category='numeric/bigint')


def validate(rep, recs):
    wd = tlc.workdir('c12t')
    tf = tlc.write_ndjson(os.path.join(wd, 'runs.ndjson'), [dict(ranks=x['ranks'], out=x['out'], reverse=x['reverse']) for x in recs])
    cfg = tlc.write_cfg(os.path.join(wd, 'tr.cfg'), constraints=['Verdict'])
    res = tlc.run_tlc('SortTrace', cfg, workers=1, env={'TRACE_FILE': tf}, allow_violation=False, timeout=3000, heap='12g')
    rep.add_tlc(res, 'SortTrace: %d rank-abstracted real sorts' % len(recs))
    out = {v[0]: (v[1], v[2]) for v in res.tuples('VERDICT')}
    if len(out) != len(recs):
        raise tlc.MachineryError('SortTrace: %d verdicts for %d runs' % (len(out), len(recs)))
    return [out[i + 1] for i in range(len(recs))]


def run():
    rep = Report(PROP)
    t = rep.tier
    setup_repo()
    r = rng(PROP)
    cases = model(rep, t)
    items = []
    for c in cases:
        if t == 'quick' and r.random() > 0.03 and not (c['prefix'] and r.random() < 0.03):
            continue
        v = dict(key=r.choice(['format', 'list', 'callable']), reverse=r.random() < 0.35, batch=r.choice([1, 2, 1000]))
        items.append(dict(case=c, variant=v))
    res = pmap(replay_text, items, chunksize=32)
    errs = harness_errors(res)
    if errs:
        raise tlc.MachineryError('harness error in text replay: ' + errs[0])
    for it, out in zip(items, res):
        rep.count(1, traces=1)
        if len(it['case']['tbl']) >= 2:
            rep.mark_distinct(it)
        if not out['ok']:
            if out.get('prefix') and out.get('is_impl'):
                rep.known(KF_PREFIX, 'a text key that is a proper prefix of another key may sort after it', dict(keys=out['keys'], got=out['got'], ideal=out['ideal']))
            else:
                rep.violation(it, dict(variant=it['variant'], **{k: v for k, v in out.items() if k != 'ok'}),
                              category='text/%s/%s' % (it['variant']['key'], 'reverse' if it['variant']['reverse'] else 'asc'))
    rep.sample(dict(text_case=dict(keys=[''.join(CHARS[x] for x in k) for k in items[5]['case']['tbl']], ideal=items[5]['case']['ideal'], variant=items[5]['variant'])))
    probe_known(rep)
    nitems = []
    for mode, cnt in (('numeric', 220), ('text', 80), ('multi', 60), ('multi_spec', 60)):
        for _ in range(cnt if t == 'quick' else cnt * 15):
            nitems.append(dict(seed=r.randrange(10 ** 9), mode=mode))
    if t == 'thorough':
        nitems += [dict(seed=r.randrange(10 ** 9), mode='big', n=12000, reverse=True), dict(seed=r.randrange(10 ** 9), mode='big', n=12000, reverse=False),
                   dict(seed=r.randrange(10 ** 9), mode='big', n=30000)]
    else:
        # above the 10240-entry cache in both directions (the order must not depend on whether the data fits in memory)
        nitems += [dict(seed=r.randrange(10 ** 9), mode='big', n=2500), dict(seed=r.randrange(10 ** 9), mode='big', n=10500, reverse=True),
                   dict(seed=r.randrange(10 ** 9), mode='big', n=10500, reverse=False)]
    titems = [dict(seed=r.randrange(10 ** 9), order=o, reverse=rv) for o in ('text_first', 'numbers_first') for rv in (False, True)
              for _ in range(6 if t == 'quick' else 60)]
    for it, out in zip(titems, pmap(two_resource_case, titems, chunksize=4)):
        if '__harness_error__' in out:
            raise tlc.MachineryError('harness error in two-resource sorts: ' + out['__harness_error__'])
        rep.count(1, traces=1)
        rep.mark_distinct(dict(two=it))
        if not out['ok']:
            rep.violation(dict(two=it), dict(case=it, **{k: v for k, v in out.items() if k != 'ok'}), category='two-resources/%s' % out['why'][:40])
    recs = pmap(run_numeric, nitems, chunksize=4)
    errs = harness_errors(recs)
    if errs:
        raise tlc.MachineryError('harness error in numeric runs: ' + errs[0])
    good = []
    for it, x in zip(nitems, recs):
        if 'raised' in x:
            rep.count(1, traces=1)
            rep.violation(it, dict(why='sort_rows raised', raised=x['raised'], mode=x['mode']), category='trace/raised/%s' % x['mode'])
        else:
            good.append((it, x))
    verd = validate(rep, [x for _, x in good])
    # the binding binds: a recorded sort with two differently ranked neighbours exchanged / one row lost must be rejected
    import copy
    probe = next((x for _, x in good if 3 <= len(x['out']) <= 200 and len(set(x['ranks'])) > 1), None)
    if probe is not None:
        c1, c2 = copy.deepcopy(probe), copy.deepcopy(probe)
        j = next(i for i in range(len(c1['out']) - 1) if c1['ranks'][c1['out'][i] - 1] != c1['ranks'][c1['out'][i + 1] - 1])
        c1['out'][j], c1['out'][j + 1] = c1['out'][j + 1], c1['out'][j]
        c2['out'][0] = c2['out'][1]
        (p1, s1), (p2, s2) = validate(rep, [c1, c2])
        if s1 or p2:
            raise tlc.MachineryError('SortTrace accepted a corrupted record (order=%s, permutation=%s): the trace spec does not bind' % (s1, p2))
        rep.notes['trace_binding_selftest'] = 'a recorded output with two neighbours exchanged fails the order clause; one with a row lost fails the permutation clause'
    for (it, x), (perm, srt) in zip(good, verd):
        rep.count(1, traces=1)
        rep.mark_distinct(dict(s=it['seed'], m=it['mode']))
        if not perm or not srt:
            rep.violation(it, dict(why='not a permutation' if not perm else 'not in (stable) key order / not the exact reverse', mode=x['mode'], n=x['n'],
                                   reverse=x['reverse'], batch=x['batch'], first_keys=x['sample'], ranks=x['ranks'][:30], out=x['out'][:30]),
                          category='trace/%s/%s' % (x['mode'], 'reverse' if x['reverse'] else 'asc'))
    rep.sample(dict(numeric_run=dict(ranks=good[0][1]['ranks'][:12], out=good[0][1]['out'][:12], reverse=good[0][1]['reverse'])))
    rep.assumptions += ['numeric keys are compared exactly (Fraction); text by code point; rows are read through datastream()',
                        'random text keys have any length 0..4 over an alphabet with NUL, SOH, digits, non-BMP characters (prefix pairs included)']
    return rep.finish()


def replay(path):
    setup_repo()
    rec = json.load(open(path))
    c = rec['case']
    if 'two' in c:
        out = two_resource_case(c['two'])
        print(out)
        bad = not out['ok']
    elif 'variant' in c:
        out = replay_text(c)
        print(out)
        bad = not out['ok'] and not (out.get('prefix') and out.get('is_impl'))
    elif 'seed' in c:
        x = run_numeric(c)
        rep = Report(PROP)
        v = validate(rep, [x])[0] if 'raised' not in x else (False, False)
        print(v)
        bad = not all(v)
    else:
        bad = False
    if bad:
        print('VIOLATION property=%s replay=%s' % (PROP, path))
    return 1 if bad else 0
