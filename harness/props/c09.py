"""C09 - dump statistics describe the bytes on disk.

Spec:   spec/DumpStats.tla (how the dumper keeps its counters: per resource bytes/rows/hash, package totals, stats;
        incoming descriptors that already carry counters; StatsDescribeBytes, TotalsAreSums, StatsAgreeWithDescriptor),
        spec/MC_DumpCases.tla (the configuration universe, enumerated by TLC), spec/DumpStatsTrace.tla
Bind:   every exported configuration (format x path/zip x counters default/renamed/dotted/disabled x add_filehash_to_path x
        pretty_descriptor x incoming counters x shapes x multi-byte text) is dumped for real; the harness measures the
        written files (size, md5, data rows - inside the zip for dump_to_zip) and TLC evaluates the C09 clauses on
        (recorded, measured) and compares the model's counters with the recorded ones.
"""
import contextlib
import copy
import csv
import hashlib
import io
import json
import os
import shutil
import tempfile
import zipfile

from .. import tlc
from ..common import Report, pmap, harness_errors, rng, setup_repo

PROP = 'C09'
KF_STATS = 'C09-stats-bytes-include-descriptor'

COUNTERS = {
    'default': {},
    'renamed': {'resource-bytes': 'size', 'resource-hash': 'md5', 'resource-rowcount': 'rows',
                'datapackage-bytes': 'total_size', 'datapackage-rowcount': 'total_rows', 'datapackage-hash': 'pkg_md5'},
    'dotted': {'resource-bytes': 'stats.bytes', 'resource-hash': 'stats.md5', 'resource-rowcount': 'stats.rows',
               'datapackage-bytes': 'stats.bytes', 'datapackage-rowcount': 'stats.rows', 'datapackage-hash': 'stats.md5'},
    'nohash': {'resource-hash': None, 'datapackage-hash': None},
    'nobytes': {'resource-bytes': None},
    'norows': {'resource-rowcount': None},
    'nototal': {'datapackage-bytes': None, 'datapackage-rowcount': None},
    # no byte counter anywhere, the hashes on: the hash is that of the complete file all the same
    'hashonly': {'resource-bytes': None, 'datapackage-bytes': None, 'resource-rowcount': None, 'datapackage-rowcount': None},
    'nestedhash': {'resource-hash': 'checksum.md5', 'datapackage-hash': 'checksum.pkg'},
}
DEFAULT_NAMES = {'resource-bytes': 'bytes', 'resource-hash': 'hash', 'resource-rowcount': 'count_of_rows',
                 'datapackage-bytes': 'bytes', 'datapackage-rowcount': 'count_of_rows', 'datapackage-hash': 'hash'}


def get_attr(obj, prop, default=None):
    if prop is None:
        return default
    for part in prop.split('.')[:-1]:
        obj = obj.get(part, {}) if isinstance(obj, dict) else {}
    return obj.get(prop.split('.')[-1], default) if isinstance(obj, dict) else default


def names(cfg):
    c = COUNTERS[cfg]
    return {k: c.get(k, DEFAULT_NAMES[k]) for k in DEFAULT_NAMES}


def model(rep, t):
    wd = tlc.workdir('c09')
    base = {'MaxRes': 2 if t == 'quick' else 3, 'Sizes': '{2, 7}', 'RowCounts': '{0, 2}', 'InVals': '{0, 5}', 'DescSize': 100}
    cfg = tlc.write_cfg(os.path.join(wd, 'ok.cfg'), constants=dict(base, Accumulate='FALSE', DescInStats='FALSE'),
                        invariants=['StatsDescribeBytes', 'TotalsAreSums', 'StatsAgreeWithDescriptor'])
    res = tlc.run_tlc('DumpStats', cfg, allow_violation=False)
    rep.add_tlc(res, 'DumpStats (counters computed from scratch): StatsDescribeBytes, TotalsAreSums, StatsAgreeWithDescriptor')
    cfg = tlc.write_cfg(os.path.join(wd, 'acc.cfg'), constants=dict(base, Accumulate='TRUE', DescInStats='FALSE'),
                        invariants=['StatsDescribeBytes', 'TotalsAreSums'])
    res = tlc.run_tlc('DumpStats', cfg)
    if not res.violated:
        raise tlc.MachineryError('vacuity: accumulating counters must violate StatsDescribeBytes when the incoming descriptor has counters')
    cfg = tlc.write_cfg(os.path.join(wd, 'dis.cfg'), constants=dict(base, Accumulate='FALSE', DescInStats='TRUE'),
                        invariants=['StatsAgreeWithDescriptor'])
    res = tlc.run_tlc('DumpStats', cfg)
    rep.notes['model_of_known_finding'] = 'DumpStats with DescInStats=TRUE violates StatsAgreeWithDescriptor: %s' % bool(res.violated)
    cfg = tlc.write_cfg(os.path.join(wd, 'cases.cfg'), constraints=['Export'])
    res = tlc.run_tlc('MC_DumpCases', cfg, workers=1)
    rep.add_tlc(res, 'MC_DumpCases: the configuration universe')
    return res.cases


def measure(read, r):
    data = read(r['path'])
    if data is None:
        return dict(path_exists=False, size=0, md5='', datarows=0)
    if r.get('format') == 'json':
        nrows = len(json.loads(data.decode('utf8')))
    else:
        nrows = max(0, len(list(csv.reader(io.StringIO(data.decode('utf8'), newline='')))) - 1)
    return dict(path_exists=True, size=len(data), md5=hashlib.md5(data).hexdigest(), datarows=nrows)


RESNAME = 'res.%d'         # dotted names that agree up to the first dot: every resource still gets a file of its own


def dump_once(case, root, tag):
    """returns (written descriptor, stats, returned dp descriptor, incoming descriptor, reader)"""
    import dataflows as DF
    shape, text = case['shape'], case['text']
    # multi-byte text in the DESCRIPTOR too (a field name): sizes are bytes, not characters, also for datapackage.json
    FB = 'b' if text == 'ascii' else u'b\u00e9\u4e2d'
    srcs = []
    for i, nrows in enumerate(shape, start=1):
        srcs.append([{'a': k, FB: ('x%d' % k if text == 'ascii' else u'é\U0001F600%d' % k)} for k in range(1, nrows + 1)])
    from ..common import tuple_source
    drops = bool(case.get('drops')) and case['incoming'] in ('fresh', 'package_totals', 'same_dir_again')      # (an earlier dumper in the flow would raise on the row)
    if drops:
        # one row per non-empty resource that the dumper's own validator (on_error=drop) throws away: it is not written, so it is not counted
        for rows in srcs:
            if rows:
                rows.insert(1, {'a': 'not-a-number', FB: 'dropped'})
    src = tuple_source([(RESNAME % (i + 1), [('a', 'integer'), (FB, 'string')], rows) for i, rows in enumerate(srcs)])
    out = os.path.join(root, tag)
    opts = dict(format=case['format'], counters=copy.deepcopy(COUNTERS[case['counters']]), add_filehash_to_path=case['filehash'],
                pretty_descriptor=case['pretty'])
    if drops:
        from dataflows.base.schema_validator import drop
        opts['validator_options'] = dict(on_error=drop)
    if case['incoming'] == 'same_dir_again':
        # an earlier dump of other rows (one more row per resource) into the very same target, same options: afterwards the
        # descriptor on disk must describe THIS dump (with add_filehash_to_path the data files of both dumps coexist)
        os.makedirs(out, exist_ok=True)
        other = tuple_source([(RESNAME % (i + 1), [('a', 'integer'), (FB, 'string')], [{'a': 0, FB: 'earlier'}] + [dict(r_) for r_ in rows])
                              for i, rows in enumerate(srcs)])
        first = DF.dump_to_path(out, **copy.deepcopy(opts)) if case['target'] == 'path' else DF.dump_to_zip(os.path.join(out, 'o.zip'), **copy.deepcopy(opts))
        DF.Flow(other, first).process()
    if case['target'] == 'path':
        dumper = DF.dump_to_path(out, **opts)
    else:
        os.makedirs(out, exist_ok=True)
        dumper = DF.dump_to_zip(os.path.join(out, 'o.zip'), **opts)
    incoming = {}

    def tap(package):
        incoming['d'] = copy.deepcopy(package.pkg.descriptor)
        yield package.pkg
        yield from package
    pre = os.path.join(root, tag + '-pre')
    if case['incoming'] in ('fresh', 'same_dir_again'):
        links = [src, tap, dumper]
    elif case['incoming'] == 'second_dumper':
        links = [src, DF.dump_to_path(pre, counters=copy.deepcopy(COUNTERS[case['counters']])), tap, dumper]
    elif case['incoming'] == 'package_totals':
        # the package descriptor arrives with totals of its own under the very names this dumper uses (update_package / a stale dump)
        nm = names(case['counters'])
        stale = {}
        for key, val in (('datapackage-bytes', 1000), ('datapackage-rowcount', 100)):
            if nm[key] is not None:
                parts = nm[key].split('.')
                d = stale
                for p_ in parts[:-1]:
                    d = d.setdefault(p_, {})
                d[parts[-1]] = val
        links = [src, DF.update_package(**stale), tap, dumper]
    else:
        # a package that was dumped before is loaded, and dumped again.  With add_filehash_to_path (directory target): the earlier dump
        # went into the SAME directory with hashed paths, the rows are edited on the way, so the resources arrive with a path that already
        # carries a digest - of other bytes; what is recorded has to describe the NEW files
        same = bool(case['filehash']) and case['target'] == 'path'
        pre_dir = out if same else pre
        DF.Flow(src, DF.dump_to_path(pre_dir, counters=copy.deepcopy(COUNTERS[case['counters']]), add_filehash_to_path=same)).process()

        def edit(row):
            if same and row.get(FB) is not None:
                row[FB] = row[FB] + '!'
        links = [DF.load(os.path.join(pre_dir, 'datapackage.json')), edit, tap, dumper]
    dp, stats = DF.Flow(*links).process()
    if case['target'] == 'path':
        written = json.load(open(os.path.join(out, 'datapackage.json')))
        dsize = os.path.getsize(os.path.join(out, 'datapackage.json'))

        def read(p):
            fp = os.path.join(out, p)
            return open(fp, 'rb').read() if os.path.exists(fp) else None
    else:
        z = zipfile.ZipFile(os.path.join(out, 'o.zip'))
        written = json.loads(z.read('datapackage.json'))
        dsize = len(z.read('datapackage.json'))

        def read(p):
            return z.read(p) if p in z.namelist() else None
    return written, stats, dp.descriptor, incoming.get('d', {}), read, dsize


def xlsx_case(item):
    """the Excel writer saves its file BY NAME (not through the handle the dumper holds): bytes, hash and rows recorded for an .xlsx file
    are still those of the file that was written (an .xlsx file holds its creation time, so two dumps are not byte-identical: the
    reproducibility clause is checked for csv / json only)"""
    import dataflows as DF
    import openpyxl
    setup_repo()
    shape, target = item['shape'], item['target']
    root = tempfile.mkdtemp(prefix='c09x-', dir=tlc.WORK_ROOT)
    try:
        from ..common import tuple_source
        src = tuple_source([('res.%d' % (i + 1), [('a', 'integer'), ('b', 'string')], [dict(a=k, b=u'x\u00e9%d' % k) for k in range(n)]) for i, n in enumerate(shape)])
        out = os.path.join(root, 'o')
        try:
            with contextlib.redirect_stdout(io.StringIO()), contextlib.redirect_stderr(io.StringIO()):
                if target == 'path':
                    dp, stats = DF.Flow(src, DF.dump_to_path(out, format='xlsx')).process()
                    written = json.load(open(os.path.join(out, 'datapackage.json')))
                    read = lambda p_: open(os.path.join(out, p_), 'rb').read()
                else:
                    os.makedirs(out)
                    dp, stats = DF.Flow(src, DF.dump_to_zip(os.path.join(out, 'o.zip'), format='xlsx')).process()
                    z = zipfile.ZipFile(os.path.join(out, 'o.zip'))
                    written = json.loads(z.read('datapackage.json'))
                    read = z.read
        except Exception as e:
            return dict(ok=False, why='an xlsx dump raised %s: %s' % (type(e).__name__, str(e)[:120]))
        tb, tr = 0, 0
        for r_, n in zip(written['resources'], shape):
            try:
                data = read(r_['path'])
            except Exception as e:
                return dict(ok=False, why='the recorded path %r is not there' % r_['path'])
            nrows = max(0, openpyxl.load_workbook(io.BytesIO(data), read_only=True).worksheets[0].max_row - 1) if n else 0
            if r_.get('bytes') != len(data) or r_.get('hash') != hashlib.md5(data).hexdigest() or r_.get('count_of_rows') != n or (n and nrows != n):
                return dict(ok=False, why='bytes / hash / rows recorded for an .xlsx file are not those of the file',
                            recorded=dict(bytes=r_.get('bytes'), hash=r_.get('hash'), rows=r_.get('count_of_rows')), measured=dict(bytes=len(data), hash=hashlib.md5(data).hexdigest(), rows=nrows))
            tb += len(data)
            tr += n
        if written.get('bytes') != tb or written.get('count_of_rows') != tr:
            return dict(ok=False, why='package totals of an xlsx dump are not the sums over the resources', recorded=[written.get('bytes'), written.get('count_of_rows')], sums=[tb, tr])
        return dict(ok=True)
    finally:
        shutil.rmtree(root, ignore_errors=True)


def run_case(case):
    setup_repo()
    root = tempfile.mkdtemp(prefix='c09-', dir=tlc.WORK_ROOT)
    try:
        import contextlib
        try:
            with contextlib.redirect_stdout(io.StringIO()), contextlib.redirect_stderr(io.StringIO()):
                written, stats, returned, incoming, read, dsize = dump_once(case, root, 'a')
                written2, _, _, _, read2, _ = dump_once(case, root, 'b')
        except Exception as e:
            import traceback
            tb = traceback.extract_tb(e.__traceback__)
            # a failure inside the harness's own code is a machinery failure; one raised from the library on a valid configuration is a verdict
            if tb and '/harness/' in tb[-1].filename:
                raise
            return dict(raised='%s: %s' % (type(e).__name__, str(e)[:200]), where='%s:%d' % (os.path.basename(tb[-1].filename), tb[-1].lineno) if tb else '')
        nm = names(case['counters'])
        res = []
        inres = {r['name']: r for r in incoming.get('resources', [])}
        inB, inR = [], []
        for r in written['resources']:
            m = measure(read, r)
            rb = get_attr(r, nm['resource-bytes'])
            rr = get_attr(r, nm['resource-rowcount'])
            rh = get_attr(r, nm['resource-hash'])
            res.append(dict(m, rec_bytes=rb if isinstance(rb, int) else -1, rec_rows=rr if isinstance(rr, int) else -1,
                            rec_hash=rh if isinstance(rh, str) else '',
                            bytes_enabled=nm['resource-bytes'] is not None, hash_enabled=nm['resource-hash'] is not None,
                            rows_enabled=nm['resource-rowcount'] is not None))
            ir = inres.get(r['name'], {})
            v = get_attr(ir, nm['resource-bytes'], 0)
            inB.append(v if isinstance(v, int) else 0)
            v = get_attr(ir, nm['resource-rowcount'], 0)
            inR.append(v if isinstance(v, int) else 0)
        tb = get_attr(written, nm['datapackage-bytes'])
        tr = get_attr(written, nm['datapackage-rowcount'])
        wh = get_attr(written, nm['datapackage-hash'])
        v1 = get_attr(incoming, nm['datapackage-bytes'], 0)
        v2 = get_attr(incoming, nm['datapackage-rowcount'], 0)
        # 'dotted' puts resource and package counters under the same names at different levels: fine
        h1 = [(get_attr(r, nm['resource-hash']), measure(read, r)['md5']) for r in written['resources']]
        h2 = [(get_attr(r, nm['resource-hash']), measure(read2, r)['md5']) for r in written2['resources']]
        rec = dict(res=res, inB=inB, inR=inR, inTB=v1 if isinstance(v1, int) else 0, inTR=v2 if isinstance(v2, int) else 0,
                   tot=dict(rec_bytes=tb if isinstance(tb, int) else -1, rec_rows=tr if isinstance(tr, int) else -1,
                            bytes_enabled=nm['datapackage-bytes'] is not None, rows_enabled=nm['datapackage-rowcount'] is not None,
                            hash_enabled=nm['datapackage-hash'] is not None),
                   stats=dict(bytes=stats.get('bytes') if isinstance(stats.get('bytes'), int) else -1,
                              rows=stats.get('count_of_rows') if isinstance(stats.get('count_of_rows'), int) else -1,
                              hash=stats.get('hash') if isinstance(stats.get('hash'), str) else ''),       # total projection: anything else is 'no hash'
                   whash=wh if isinstance(wh, str) else '', desc_size=dsize, twice_same=(h1 == h2))
        return rec
    except Exception as e:
        import traceback
        return {'__harness_error__': 'dump raised %s: %s (case %s)\n%s' % (type(e).__name__, e, case, traceback.format_exc()[-800:])}
    finally:
        shutil.rmtree(root, ignore_errors=True)


CLAUSES = ['PathOK', 'BytesOK', 'HashOK', 'RowsOK', 'TotalsOK', 'StatsAgree', 'StatsAgreeModuloDescriptor', 'SameHash', 'ModelEq']


def validate(rep, recs):
    wd = tlc.workdir('c09t')
    tf = tlc.write_ndjson(os.path.join(wd, 'runs.ndjson'), recs)
    cfg = tlc.write_cfg(os.path.join(wd, 'tr.cfg'), spec='TraceSpec', constraints=['Verdict'], constants={
        'MaxRes': 4, 'Sizes': '{0}', 'RowCounts': '{0}', 'InVals': '{0}', 'Accumulate': 'FALSE', 'DescInStats': 'TRUE', 'DescSize': 0})
    res = tlc.run_tlc('DumpStatsTrace', cfg, workers=1, env={'TRACE_FILE': tf}, allow_violation=False, timeout=3000)
    rep.add_tlc(res, 'DumpStatsTrace: %d recorded dumps' % len(recs))
    out = {v[0]: dict(zip(CLAUSES, v[1:])) for v in res.tuples('VERDICT')}
    if len(out) != len(recs):
        raise tlc.MachineryError('DumpStatsTrace: %d verdicts for %d runs' % (len(out), len(recs)))
    return [out[i + 1] for i in range(len(recs))]


def run():
    rep = Report(PROP)
    t = rep.tier
    setup_repo()
    r = rng(PROP)
    cases = model(rep, t)
    if t == 'quick':
        r.shuffle(cases)
        # keep every counters x incoming x filehash x target combination at least once
        seen, keep = set(), []
        for c in cases:
            k = (c['counters'], c['incoming'], c['filehash'], c['target'], c['format'], c.get('drops') and c['incoming'] in ('fresh', 'package_totals', 'same_dir_again'))
            if k not in seen:
                seen.add(k)
                keep.append(c)
        rest = [c for c in cases if c not in keep]
        cases = keep + rest[:400]
    recs = pmap(run_case, cases, chunksize=4)
    errs = harness_errors(recs)
    if errs:
        raise tlc.MachineryError('harness error in dump replay: ' + errs[0])
    raised = [(c, x) for c, x in zip(cases, recs) if 'raised' in x]
    for c, x in raised:
        rep.count(1, traces=1)
        rep.violation(c, dict(case=c, why='the dump raised on a valid configuration', raised=x['raised'], where=x['where']),
                      category='raised/%s/%s' % (c['counters'], x['raised'][:40]))
    cases = [c for c, x in zip(cases, recs) if 'raised' not in x]
    recs = [x for x in recs if 'raised' not in x]
    verd = validate(rep, recs)
    # the binding binds: a record whose measured file is one byte longer than what the descriptor says must be rejected
    import copy
    probe = next((x for x, v in zip(recs, verd) if v['BytesOK'] and x.get('res') and x['res'][0]['bytes_enabled'] and x['res'][0]['path_exists']), None)
    if probe is not None:
        c1 = copy.deepcopy(probe)
        c1['res'][0]['size'] += 1
        v1 = validate(rep, [c1])[0]
        if v1['BytesOK']:
            raise tlc.MachineryError('DumpStatsTrace accepted a record whose file size differs from the recorded bytes: the trace spec does not bind')
        rep.notes['trace_binding_selftest'] = 'a record whose measured file size is changed fails BytesOK'
    for c, rec, v in zip(cases, recs, verd):
        rep.count(1, traces=1)
        rep.mark_distinct(c)
        failed = [k for k in ('PathOK', 'BytesOK', 'HashOK', 'RowsOK', 'TotalsOK', 'SameHash') if not v[k]]
        if not v['StatsAgree']:
            if v['StatsAgreeModuloDescriptor'] and rec['tot']['bytes_enabled']:
                rep.known(KF_STATS, 'stats bytes = written total + size of datapackage.json', c)
            else:
                failed.append('StatsAgree')
        if failed:
            rep.violation(c, dict(case=c, failed_clauses=failed, recorded=rec), category='/'.join(failed) + '/' + c['counters'] + '/' + c['incoming'] + ('/filehash' if c['filehash'] else ''))
        elif not v['ModelEq']:
            rep.model_drift('recorded counters differ from DumpStats.tla although every C09 clause holds', c)
    for it in [dict(xlsx=True, shape=sh, target=tg) for sh in ([3], [0], [2, 0, 4], [1, 1]) for tg in ('path', 'zip')]:
        out = xlsx_case(it)
        rep.count(1, traces=1)
        rep.mark_distinct(it)
        if not out['ok']:
            rep.violation(it, dict(case=it, **{k: v for k, v in out.items() if k != 'ok'}), category='xlsx/%s' % out['why'][:40])
    rep.sample(dict(case=cases[0], recorded=recs[0]))
    rep.notes['cases_total_enumerated_by_tlc'] = 20480
    rep.assumptions += ['the harness measures size, md5 and data-row count of every written file itself (csv.reader / json.loads)',
                        'a counter that is enabled but absent from the written descriptor counts as not describing the bytes']
    return rep.finish(exhaustive=(t == 'thorough'))


def replay(path):
    setup_repo()
    rec = json.load(open(path))
    c = rec['case']
    if c.get('xlsx'):
        out = xlsx_case(c)
        print(out)
        if not out['ok']:
            print('VIOLATION property=%s replay=%s' % (PROP, path))
        return 0 if out['ok'] else 1
    out = run_case(c)
    rep = Report(PROP)
    v = validate(rep, [out])[0]
    print(v)
    bad = [k for k in ('PathOK', 'BytesOK', 'HashOK', 'RowsOK', 'TotalsOK', 'SameHash') if not v[k]]
    if bad:
        print('VIOLATION property=%s replay=%s' % (PROP, path))
        return 1
    return 0
