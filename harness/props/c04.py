"""C04 - a failing step never yields a successful run.

Spec:   spec/Engine.tla (Fail as a step kind; the driver's exception funnel branch by branch; FailNeverSucceeds,
        NoCommitAfterFailure, FailureIsReported), spec/EngineTrace.tla (clause C04 on recorded runs),
        spec/FaultRun.tla (the same statement on whole runs of real built-in pipelines)
Bind:   fault enumeration on the real library: a raising step at every position x phase (package / first row /
        exhaustion) x exception class (generic, tableschema CastError, UniqueKeyError) in abstract programs (probe
        traces, TLC-validated) and in four pipelines that together contain every built-in processor; plus faults
        provoked inside real processors (bad cast under load, duplicate key, missing key, source dying after the
        inference sample, failing validate/set_type ...).  Observers after the failure must not have committed.
"""
import contextlib
import io
import json
import os
import shutil
import tempfile
import zipfile

from .. import tlc, engine
from ..common import Report, pmap, harness_errors, rng, setup_repo

PROP = 'C04'

PIPELINES = {
    'P1': ('I1', ['add_field', 'acf_sum', 'dump_to_path', 'set_type_a_number', 'validate', 'filter_fn', 'stream',
                  'find_replace_b', 'update_resource', 'update_schema', 'checkpoint', 'sort_a', 'printer', 'dump_to_zip',
                  'finalizer']),
    'P2': ('I1', ['deduplicate', 'duplicate', 'dump_to_path', 'delete_first', 'concatenate', 'stream', 'unpivot',
                  'update_stats', 'dump_to_path']),
    'P3': ('I1', ['join', 'checkpoint', 'row_inplace', 'rows_gen', 'pkg_fn', 'source_list', 'dump_to_zip', 'delete_last',
                  'select_fields_a', 'dump_to_path']),
    'P4': ('I4', ['join_keep', 'join_with_self', 'acf_format', 'update_package', 'duplicate_end',
                  'dump_to_path', 'sort_a_rev', 'row_new', 'stream', 'add_field_fn', 'acf_constant', 'filter_eq',
                  'set_type_a_string', 'rename_a', 'checkpoint']),
}
OBSERVERS = {'dump_to_path', 'dump_to_zip', 'stream', 'checkpoint'}


def model(rep, t):
    wd = tlc.workdir('c04')
    kinds = engine.KINDS
    base = {'Sample': 2, 'Ahead': 2, 'SrcRows': '<- SrcRowsSmall', 'Kinds': '{' + ', '.join('"%s"' % k for k in kinds) + '}'}
    invs = ['NoDeadlock', 'FailNeverSucceeds', 'NoCommitAfterFailure', 'NoFinalizerAfterFailure', 'FailureIsReported',
            'LazyEqualsEager', 'ObserverComplete']
    cfg = tlc.write_cfg(os.path.join(wd, 'mc.cfg'), constants=dict(base, MaxLen=3, SwallowCast='FALSE'), invariants=invs)
    res = tlc.run_tlc('Engine', cfg, allow_violation=False, timeout=3000, coverage=True)
    rep.add_tlc(res, 'Engine MaxLen=3 all kinds incl. fault x {pkg,row,end} x {gen,cast,uniq}: FailNeverSucceeds, NoCommitAfterFailure')
    if t == 'thorough':
        k2 = ['src', 'map', 'obs', 'fin', 'fault', 'sort']
        cfg = tlc.write_cfg(os.path.join(wd, 'mc4.cfg'), constants=dict(base, MaxLen=4, SwallowCast='FALSE',
                            Kinds='{' + ', '.join('"%s"' % k for k in k2) + '}'), invariants=invs)
        res = tlc.run_tlc('Engine', cfg, allow_violation=False, timeout=6000)
        rep.add_tlc(res, 'Engine MaxLen=4 kinds=%s' % ','.join(k2))
    # the model can tell the difference: with the historical funnel (CastError only logged) the invariant fails
    cfg = tlc.write_cfg(os.path.join(wd, 'mcs.cfg'), constants=dict(base, MaxLen=2, SwallowCast='TRUE'),
                        invariants=['FailNeverSucceeds'])
    res = tlc.run_tlc('Engine', cfg, timeout=3000)
    if res.violated != 'FailNeverSucceeds':
        raise tlc.MachineryError('vacuity: Engine.tla with SwallowCast=TRUE should violate FailNeverSucceeds')
    rep.notes['non_vacuity'] = 'Engine.tla with SwallowCast=TRUE (funnel that only logs CastError) violates FailNeverSucceeds, as expected'


BASES = [
    [{'kind': 'src', 'rows': [1, 2, 3]}, {'kind': 'obs'}],
    [{'kind': 'src', 'rows': [1, 2, 3]}, {'kind': 'map'}, {'kind': 'obs'}, {'kind': 'fin'}],
    [{'kind': 'src', 'rows': [1]}, {'kind': 'obs'}, {'kind': 'src', 'rows': [1, 2, 3]}, {'kind': 'obs'}],
    [{'kind': 'src', 'rows': [1, 2, 3]}, {'kind': 'sort'}, {'kind': 'obs'}, {'kind': 'filter'}, {'kind': 'obs'}],
    [{'kind': 'src', 'rows': []}, {'kind': 'obs'}, {'kind': 'fin'}],
    [{'kind': 'src', 'rows': [1, 2, 3]}, {'kind': 'src', 'rows': [1]}, {'kind': 'del'}, {'kind': 'obs'}, {'kind': 'map'}],
]


def trace_items(r, t):
    items = []
    for base in BASES:
        for pos in range(len(base) + 1):
            for at in ('pkg', 'row', 'end'):
                for cls in ('gen', 'cast', 'uniq'):
                    steps = base[:pos] + [{'kind': 'fault', 'at': at, 'cls': cls}] + base[pos:]
                    for mode in ('results', 'process'):
                        items.append(dict(steps=steps, variants=None, mode=mode))
    if t == 'quick':
        r.shuffle(items)
        items = items[:500]
    for _ in range(200 if t == 'quick' else 3000):
        steps = engine.random_program(r, 6, engine.KINDS, need=lambda s: any(x['kind'] == 'fault' for x in s))
        items.append(dict(steps=steps, variants=None, mode=r.choice(['results', 'process', 'datastream'])))
    for it in items:
        it['variants'] = engine.choose_variants(r, it['steps'])
    return items


# ---------------------------------------------------------------------------
# real pipelines

def committed(kind, path):
    if kind == 'dump_to_path':
        return os.path.exists(os.path.join(path, 'datapackage.json'))
    if kind == 'dump_to_zip':
        zp = os.path.join(path, 'o.zip')
        try:
            return os.path.exists(zp) and zipfile.is_zipfile(zp) and 'datapackage.json' in zipfile.ZipFile(zp).namelist()
        except Exception:
            return False
    if kind == 'stream':
        return os.path.exists(os.path.join(path, 's.ndjson'))
    if kind == 'checkpoint':
        return os.path.exists(os.path.join(path, 'cp', 'stream.ndjson'))
    raise ValueError(kind)


def run_pipeline(item):
    """item: pipeline name, fault position (None = no fault), at, cls, mode"""
    from dataflows import Flow, exceptions
    from ..menu import menu, fresh_input, Tmp
    inp, names = PIPELINES[item['pipeline']]
    root = tempfile.mkdtemp(prefix='c04-', dir=tlc.WORK_ROOT)
    try:
        tmp = Tmp(root)
        m = menu(tmp)
        links = list(fresh_input(inp))
        nsrc = len(links)
        obs = []
        exc = None
        faulty = None
        for idx, n in enumerate(names):
            if item.get('pos') == idx:
                exc = engine.make_exc(item['cls'])
                faulty = engine.faulty_class()(item['at'], exc)
                orig = faulty.raise_marker = []
                links.append(_marking(faulty, orig))
                fail_pos = len(links)
            before = tmp.n
            links.append(m[n]())
            if n in OBSERVERS:
                obs.append((n, len(links), os.path.join(root, 'd%d' % (before + 1))))
        if item.get('pos') == len(names):
            exc = engine.make_exc(item['cls'])
            faulty = engine.faulty_class()(item['at'], exc)
            faulty.raise_marker = []
            links.append(_marking(faulty, faulty.raise_marker))
            fail_pos = len(links)
        outcome, cause_ok = 'returned', False
        with contextlib.redirect_stdout(io.StringIO()), contextlib.redirect_stderr(io.StringIO()):
            try:
                if item['mode'] == 'results':
                    Flow(*links).results()
                else:
                    Flow(*links).process()
            except exceptions.ProcessorError as e:
                outcome = 'ProcessorError'
                cause_ok = e.cause is exc
            except BaseException as e:
                outcome = 'other'
        fired = bool(faulty is not None and faulty.raise_marker)
        return dict(n=len(links), failAt=fail_pos if fired else 0, outcome=outcome, causeOK=cause_ok,
                    obs=[dict(pos=p, committed=committed(k, path), kind=k) for k, p, path in obs])
    finally:
        shutil.rmtree(root, ignore_errors=True)


def _marking(faulty, marker):
    """record that the fault really fired (a 'row' fault never fires when no row reaches it)"""
    orig_pd, orig_pr, orig_prs = faulty.process_datapackage, faulty.process_resource, faulty.process_resources
    exc = faulty.exc

    class Mark(type(faulty)):
        def process_datapackage(self, dp):
            if self.at == 'pkg':
                marker.append(1)
            return super().process_datapackage(dp)

        def process_resource(self, res):
            for row in res:
                if self.at == 'row':
                    marker.append(1)
                    raise self.exc
                yield row

        def process_resources(self, resources):
            from dataflows import DataStreamProcessor
            yield from DataStreamProcessor.process_resources(self, resources)
            if self.at == 'end':
                marker.append(1)
                raise self.exc
    mk = Mark(faulty.at, exc)
    mk.raise_marker = marker
    return mk


def provoked():
    """faults raised by real processors themselves: (label, build(root) -> links, expected cause class names, observers)"""
    import dataflows as DF
    from decimal import Decimal
    cases = []

    def dying_source(n, die_at):
        def gen():
            for i in range(n):
                if i == die_at:
                    raise RuntimeError('source died at row %d' % i)
                yield dict(a=i, b='s%d' % i)
        return gen()

    def dying_with(n, die_at, make):
        def gen():
            for i in range(n):
                if i == die_at:
                    raise make()
                yield dict(a=i, b='s%d' % i)
            if die_at >= n:
                raise make()
        return gen()

    class _NeedsArgs(Exception):
        def __init__(self, code, detail):
            super().__init__('%s: %s' % (code, detail))

    def _unicode_error():
        try:
            b'\xff\xfe\xfd'.decode('utf-8')
        except UnicodeDecodeError as e:
            return e
    # the cause is the ORIGINAL exception whatever its class - also for the classes the table reader treats specially on its way
    # (encoding / io / format errors), and wherever in the source it happens (inside / after the inference sample, at exhaustion)
    for label, make, cname in (('UnicodeDecodeError', _unicode_error, 'UnicodeDecodeError'), ('OSError', lambda: OSError(5, 'disk gone'), 'OSError'),
                               ('LookupError', lambda: LookupError('no such thing'), 'LookupError'),
                               ('an exception class with a constructor of its own', lambda: _NeedsArgs(7, 'x'), '_NeedsArgs'),
                               ('io.UnsupportedOperation', lambda: io.UnsupportedOperation('seek'), 'UnsupportedOperation')):
        for n, die_at in ((150, 5), (150, 120), (150, 150), (3, 3)):
            cases.append(('source raises %s at row %d of %d' % (label, die_at, n),
                          lambda root, n=n, die_at=die_at, make=make: [dying_with(n, die_at, make)], {cname}))

    def bad_package(root, dup_key=False):
        d = os.path.join(root, 'badpkg')
        os.makedirs(d, exist_ok=True)
        rows = 'a,b\n1,x\n2,y\n%s,z\n4,w\n' % ('2' if dup_key else 'oops')
        open(os.path.join(d, 'r.csv'), 'w').write(rows)
        desc = {'name': 'p', 'resources': [{'name': 'r', 'path': 'r.csv', 'profile': 'tabular-data-resource',
                                            'schema': {'fields': [{'name': 'a', 'type': 'integer'}, {'name': 'b', 'type': 'string'}],
                                                       **({'primaryKey': ['a']} if dup_key else {})}}]}
        json.dump(desc, open(os.path.join(d, 'datapackage.json'), 'w'))
        return os.path.join(d, 'datapackage.json')
    data = [dict(a=1, b='x'), dict(a=2, b='y'), dict(a=3, b='z')]
    cases.append(('load datapackage.json: uncastable value at row 3', lambda root: [DF.load(bad_package(root))], {'CastError'}))
    cases.append(('load datapackage.json: duplicate primary key', lambda root: [DF.load(bad_package(root, True))], {'UniqueKeyError'}))
    cases.append(('filter_rows on a missing field', lambda root: [list(data), DF.filter_rows(equals=[dict(zz=1)])], {'KeyError'}))
    cases.append(('source dies after the inference sample', lambda root: [dying_source(150, 120)], {'RuntimeError'}))
    cases.append(('source dies inside the inference sample', lambda root: [dying_source(150, 5)], {'RuntimeError'}))
    cases.append(('iterable source: a value beyond the inference sample contradicts the inferred type',
                  lambda root: [[dict(a=i) for i in range(150)] + [dict(a='x'), dict(a=5)]], {'CastError'}))
    cases.append(('set_type with an uncastable value', lambda root: [list(data), DF.set_type('b', type='integer')], {'ValidationError'}))
    cases.append(('validate() callable rejects a row', lambda root: [list(data), DF.validate('a', lambda v: v < 3)], {'ValidationError'}))
    cases.append(('add_computed_field format with a missing key', lambda root: [list(data), DF.add_computed_field(target='f', operation='format', with_='{nope}')], {'KeyError'}))
    cases.append(('sort_rows on a missing key', lambda root: [list(data), DF.sort_rows('{nope}')], {'KeyError'}))
    cases.append(('join on a missing key field', lambda root: [list(data), list(data), DF.join('res_1', ['nope'], 'res_2', ['a'], dict(b=None))], {'KeyError'}))
    for mode_ in ('inner', 'half-outer', 'full-outer'):
        cases.append(('join (%s): the TARGET key names a field the target rows do not have' % mode_,
                      lambda root, mode_=mode_: [list(data), list(data), DF.join('res_1', ['a'], 'res_2', ['nope'], dict(b2=dict(name='b')), mode=mode_)], {'KeyError'}))
        cases.append(('join (%s): one target row lacks the key field' % mode_,
                      lambda root, mode_=mode_: [list(data), [dict(a=1, b='x'), dict(a=2, b='y'), dict(a=3, b='z')], _drop_key_in('res_2', 'a', 2),
                                                 DF.join('res_1', ['a'], 'res_2', ['a'], dict(b2=dict(name='b')), mode=mode_)], {'KeyError'}))
    cases.append(('row function raises at the last row', lambda root: [list(data), _raise_at(3)], {'ZeroDivisionError'}))
    cases.append(('rows function raises at exhaustion', lambda root: [list(data), _raise_at_end], {'ZeroDivisionError'}))
    cases.append(('unpivot: a kept field is missing from a row', lambda root: [list(data), _drop_key('a'),
                                                                   DF.unpivot([dict(name='b', keys={})], [], dict(name='v', type='string'))], {'KeyError'}))
    from ..common import tuple_source
    cases.append(('dump_to_path validator meets an invalid value', lambda root: [
        tuple_source([('r', [('a', 'integer')], [dict(a=1), dict(a='x'), dict(a=2)])]), DF.dump_to_path(os.path.join(root, 'dmp'))], {'ValidationError'}))
    cases.append(('concatenate meets a row with no mapped value', lambda root: [[dict(a=1, b='x'), dict(a=None, b=None)],
                                                                                 DF.concatenate(dict(a=[], b=[]))], {'AssertionError'}))
    cases.append(('deduplicate: primary key field missing from a row', lambda root: [list(data), DF.set_primary_key(['a']), _drop_key('a'), DF.deduplicate()], {'KeyError'}))
    cases.append(('find_replace on a missing field', lambda root: [list(data), DF.find_replace([dict(name='nope', patterns=[dict(find='x', replace='y')])])], {'KeyError'}))
    cases.append(('stream meets a value it cannot encode', lambda root: [[dict(a=1, o=object())], DF.stream(_mkd(os.path.join(root, 'st')) + '/x.ndjson')], {'TypeError'}))
    cases.append(('a failing row in a resource that a later step deletes', lambda root: [dying_source(150, 120), list(data), DF.delete_resource(0)], {'RuntimeError'}))
    cases.append(('a step inside a nested Flow raises', lambda root: [list(data), DF.Flow(DF.add_field('z', 'integer', 1), DF.Flow(_raise_at(2)))], {'ZeroDivisionError'}))
    cases.append(('a step inside an always-true conditional raises', lambda root: [list(data), DF.conditional(lambda dp: True, DF.Flow(_raise_at(2)))], {'ZeroDivisionError'}))
    cases.append(('a source inside sources() dies after the sample', lambda root: [list(data), DF.sources(dying_source(150, 120))], {'RuntimeError'}))
    cases.append(('a step of a sub-flow given to sources() raises when its stream is exhausted', lambda root: [list(data), DF.sources(DF.Flow(list(data), _raise_at_end))], {'ZeroDivisionError'}))
    cases.append(('a step of a sub-flow given to sources() raises at its last row', lambda root: [DF.sources(list(data), DF.Flow(list(data), _raise_at(3)))], {'ZeroDivisionError'}))
    cases.append(('a rows step inside an always-true conditional raises at exhaustion', lambda root: [list(data), DF.conditional(lambda dp: True, DF.Flow(_raise_at_end))], {'ZeroDivisionError'}))
    # a step that fails only after EVERY stream has been exhausted (an end-of-package totals check): the enclosing construct must pull
    # the sub-flow's resource iterator to its very end, not just as many resources as were declared
    cases.append(('a package step raises after all streams are exhausted', lambda root: [list(data), _raise_after_all], {'ZeroDivisionError'}))
    cases.append(('a package step of a sub-flow given to sources() raises after all its streams are exhausted',
                  lambda root: [list(data), DF.sources(DF.Flow(list(data), _raise_after_all))], {'ZeroDivisionError'}))
    cases.append(('the same, sources() first in the chain and the sub-flow last among the sources',
                  lambda root: [DF.sources(list(data), DF.Flow(list(data), _raise_after_all))], {'ZeroDivisionError'}))
    cases.append(('a package step inside an always-true conditional raises after all streams are exhausted',
                  lambda root: [list(data), DF.conditional(lambda dp: True, DF.Flow(_raise_after_all))], {'ZeroDivisionError'}))
    cases.append(('a package step inside a nested Flow raises after all streams are exhausted, a deleting step follows',
                  lambda root: [list(data), list(data), DF.Flow(_raise_after_all), DF.delete_resource(0)], {'ZeroDivisionError'}))
    def via_load_tuple(*links):
        ds = DF.Flow(*links).datastream()
        return DF.load((ds.dp.descriptor, ds.res_iter))
    cases.append(('a Flow consumed through load((descriptor, res_iter)) raises after all its streams are exhausted',
                  lambda root: [via_load_tuple(list(data), _raise_after_all)], {'ZeroDivisionError'}))
    cases.append(('a Flow consumed through load((descriptor, res_iter)) raises at the last row of its last resource',
                  lambda root: [list(data), via_load_tuple(list(data), list(data), _raise_at(6))], {'ZeroDivisionError'}))
    cases.append(('the predicate of conditional raises', lambda root: [list(data), DF.conditional(lambda dp: 1 / 0, DF.Flow(DF.add_field('z', 'integer', 1)))], {'ZeroDivisionError'}))
    cases.append(('a finalizer callback raises', lambda root: [list(data), DF.finalizer(lambda: 1 / 0)], {'ZeroDivisionError'}))
    # a callback that takes stats (optionally) and fails with a TypeError of its own: the error is the run's error, the callback is not
    # quietly called a second time without the stats
    cases.append(('a finalizer callback taking stats=None raises TypeError', lambda root: [list(data), DF.update_stats(dict(n='3')), DF.finalizer(_bad_stats_cb())], {'TypeError'}))
    cases.append(('a finalizer callback taking **kw raises TypeError', lambda root: [list(data), DF.finalizer(lambda **kw: len(5))], {'TypeError'}))
    # StopIteration is the one exception class an iterator protocol may mistake for "the stream ended": a step raising it at row k
    # (a bare next() on an exhausted iterator) must fail the run like any other exception, never truncate the resource silently
    cases.append(('row function raises StopIteration at row 2', lambda root: [list(data), _stop_at(2)], {'RuntimeError', 'StopIteration'}))
    cases.append(('row function raises StopIteration at the first row of the second resource', lambda root: [list(data), list(data), _stop_at(4)],
                  {'RuntimeError', 'StopIteration'}))
    cases.append(('rows function lets StopIteration escape', lambda root: [list(data), _stop_rows], {'RuntimeError', 'StopIteration'}))
    cases.append(('filter_rows callable raises StopIteration', lambda root: [list(data), DF.filter_rows(condition=_stop_pred(2))], {'RuntimeError', 'StopIteration'}))
    cases.append(('add_computed_field callable raises StopIteration', lambda root: [list(data), DF.add_computed_field(target='f', operation=_stop_pred(2))],
                  {'RuntimeError', 'StopIteration'}))
    cases.append(('set_type transform raises StopIteration', lambda root: [list(data), DF.set_type('a', type='integer', transform=_stop_val(2))],
                  {'RuntimeError', 'StopIteration'}))
    cases.append(('sort_rows key callable raises StopIteration', lambda root: [list(data), DF.sort_rows(_stop_key(2))], {'RuntimeError', 'StopIteration'}))
    cases.append(('an iterable source raises StopIteration from inside its generator', lambda root: [_stop_source(150, 120)], {'RuntimeError', 'StopIteration'}))
    return cases


def _mkd(p):
    os.makedirs(p, exist_ok=True)
    return p


def _raise_at(k):
    state = {'n': 0}

    def f(row):
        state['n'] += 1
        if state['n'] == k:
            1 / 0
    return f


def _stop_at(k):
    state = {'n': 0}

    def f(row):
        state['n'] += 1
        if state['n'] == k:
            next(iter(()))           # StopIteration
    return f


def _stop_pred(k):
    state = {'n': 0}

    def f(row):
        state['n'] += 1
        if state['n'] == k:
            next(iter(()))
        return True
    return f


def _stop_val(k):
    state = {'n': 0}

    def f(v):
        state['n'] += 1
        if state['n'] == k:
            next(iter(()))
        return v
    return f


def _stop_key(k):
    state = {'n': 0}

    def f(row):
        state['n'] += 1
        if state['n'] == k:
            next(iter(()))
        return '%05d' % row['a']
    return f


def _stop_rows(rows):
    it = iter(rows)
    yield next(it)
    next(iter(()))
    yield from it


def _stop_source(n, at):
    def gen():
        for i in range(n):
            if i == at:
                next(iter(()))
            yield dict(a=i, b='s%d' % i)
    return gen()


def _bad_stats_cb():
    calls = []

    def cb(stats=None):
        calls.append(stats)
        if stats is not None:
            return 'rows: ' + 5          # TypeError, only when the stats are handed over
        raise AssertionError('the callback was called again without its stats')
    return cb


def _raise_after_all(package):
    yield package.pkg
    for rows in package:
        yield rows
    1 / 0


def _raise_at_end(rows):
    yield from rows
    1 / 0


def _drop_key_in(resname, k, at):
    def f(package):
        yield package.pkg
        for rows in package:
            if rows.res.name == resname:
                yield ({kk: v for kk, v in row.items() if not (kk == k and i == at - 1)} for i, row in enumerate(rows))
            else:
                yield rows
    return f


def _drop_key(k):
    def f(row):
        row.pop(k, None)
    return f


def run_provoked(item):
    import dataflows as DF
    from dataflows import Flow, exceptions
    label, idx, where, mode = item['label'], item['idx'], item['where'], item['mode']
    root = tempfile.mkdtemp(prefix='c04p-', dir=tlc.WORK_ROOT)
    try:
        build = provoked()[idx][1]
        expected = provoked()[idx][2]
        core = build(root)
        obs_after = [('dump_to_path', os.path.join(root, 'oa1')), ('checkpoint', os.path.join(root, 'oa2')),
                     ('stream', os.path.join(root, 'oa3'))]
        os.makedirs(obs_after[2][1], exist_ok=True)
        after = [DF.dump_to_path(obs_after[0][1]), DF.checkpoint('cp', checkpoint_path=obs_after[1][1]),
                 DF.stream(os.path.join(obs_after[2][1], 's.ndjson'))]
        links = core + after
        outcome, cause_ok, cause = 'returned', False, ''
        with contextlib.redirect_stdout(io.StringIO()), contextlib.redirect_stderr(io.StringIO()):
            try:
                if mode == 'results':
                    Flow(*links).results()
                else:
                    Flow(*links).process()
            except exceptions.ProcessorError as e:
                outcome = 'ProcessorError'
                cause = type(e.cause).__name__
                cause_ok = type(e.cause).__name__ in expected
            except BaseException as e:
                outcome = 'other'
                cause = type(e).__name__
        return dict(n=len(links), failAt=len(core), outcome=outcome, causeOK=cause_ok, cause=cause,
                    obs=[dict(pos=len(core) + 1 + j, committed=committed(k, p), kind=k) for j, (k, p) in enumerate(obs_after)])
    finally:
        shutil.rmtree(root, ignore_errors=True)


def validate_runs(rep, runs, label):
    wd = tlc.workdir('c04r')
    tf = tlc.write_ndjson(os.path.join(wd, 'runs.ndjson'),
                          [dict(n=r['n'], failAt=r['failAt'], outcome=r['outcome'], causeOK=r['causeOK'],
                                obs=[dict(pos=o['pos'], committed=o['committed']) for o in r['obs']]) for r in runs])
    cfg = tlc.write_cfg(os.path.join(wd, 'fr.cfg'), invariants=['FailNeverReturns'], constraints=['Verdict'])
    res = tlc.run_tlc('FaultRun', cfg, workers=1, env={'TRACE_FILE': tf}, allow_violation=False)
    rep.add_tlc(res, 'FaultRun: %d %s' % (len(runs), label))
    v = {x[0]: x[1] for x in res.tuples('VERDICT')}
    if len(v) != len(runs):
        raise tlc.MachineryError('FaultRun: %d verdicts for %d runs' % (len(v), len(runs)))
    return [v[i + 1] for i in range(len(runs))]


def run():
    rep = Report(PROP, level='model_checking')
    t = rep.tier
    setup_repo()
    r = rng(PROP)
    model(rep, t)
    engine.check_traces(rep, trace_items(r, t), 'C04')
    # real pipelines: baseline must run clean
    items = []
    for name, (inp, names) in PIPELINES.items():
        items.append(dict(pipeline=name, pos=None, mode='results'))
        for pos in range(len(names) + 1):
            for at in ('pkg', 'row', 'end'):
                for cls in ('gen', 'cast', 'uniq'):
                    items.append(dict(pipeline=name, pos=pos, at=at, cls=cls, mode='results' if (pos + len(at)) % 2 else 'process'))
    if t == 'quick':
        head = [i for i in items if i['pos'] is None]
        rest = [i for i in items if i['pos'] is not None]
        r.shuffle(rest)
        items = head + rest[:260]
    runs = pmap(run_pipeline, items, chunksize=4)
    errs = harness_errors(runs)
    if errs:
        raise tlc.MachineryError('harness error in pipeline fault enumeration: ' + errs[0])
    for it, run_ in zip(items, runs):
        if it['pos'] is None and run_['outcome'] != 'returned':
            raise tlc.MachineryError('baseline pipeline %s does not run clean: %s' % (it['pipeline'], run_))
    verdicts = validate_runs(rep, runs, 'fault-injected runs of real pipelines')
    for it, run_, ok in zip(items, runs, verdicts):
        rep.count(1, traces=1)
        if it['pos'] is not None and run_['failAt']:
            rep.mark_distinct(it)
        if not ok:
            rep.violation(it, dict(pipeline=PIPELINES[it['pipeline']][1], fault=it, run=run_),
                          category='pipeline/%s/%s/%s/%s' % (it['pipeline'], it.get('at'), it.get('cls'), run_['outcome']))
    rep.sample(dict(pipeline_fault=items[-1], run=runs[-1]))
    # provoked
    pitems = []
    for idx, (label, _, _) in enumerate(provoked()):
        for mode in ('results', 'process'):
            pitems.append(dict(label=label, idx=idx, where='', mode=mode))
    pruns = pmap(run_provoked, pitems, procs=1)
    errs = harness_errors(pruns)
    if errs:
        raise tlc.MachineryError('harness error in provoked faults: ' + errs[0])
    pverd = validate_runs(rep, pruns, 'runs with faults provoked inside real processors')
    for it, run_, ok in zip(pitems, pruns, pverd):
        rep.count(1, traces=1)
        rep.mark_distinct(it)
        if not ok:
            rep.violation(it, dict(provoked=it['label'], run=run_), category='provoked/%s/%s' % (it['label'][:50], run_['outcome']))
    rep.sample(dict(provoked=pitems[0]['label'], run=pruns[0]))
    # an upstream failure INSIDE parallelize, under the cooperative scheduler: every schedule is validated against
    # ParallelizeTrace.tla with FailAt set - the run must raise the upstream iterator's own exception, with every actor
    # finished, nothing delivered twice and nothing delivered that comes after the failure
    from .. import sched
    from . import c18
    sitems = [dict(R=5, N=(i % 3) + 1, sel=[1, 2, 3, 4, 5] if i % 2 else [2, 4], seed=r.randrange(10 ** 9),
                   strategy=['uniform', 'feeders_last', 'priority'][i % 3], fail_after=i % 5) for i in range(30 if t == 'quick' else 300)]
    sres = pmap(sched.run_schedule, sitems, chunksize=4)
    errs = harness_errors(sres)
    if errs:
        raise tlc.MachineryError('harness error in parallelize failure schedules: ' + errs[0])
    groups = {}
    for it, tr in zip(sitems, sres):
        groups.setdefault((it['R'], it['N'], tuple(it['sel']), it['fail_after'] + 1), []).append((it, tr))
    for (R_, N_, sel_, failat), lst in sorted(groups.items()):
        verd = c18.validate(rep, R_, N_, list(sel_), [x[1] for x in lst], (), failat)
        for (it, tr), v in zip(lst, verd):
            rep.count(1, traces=1)
            rep.mark_distinct(it)
            if not v['rec_once']:
                rep.violation(it, dict(why='upstream failure inside parallelize: %s' % ('the run returned normally with rows missing' if tr['fin']['terminated']
                                                                                     else 'the original failure did not surface cleanly'),
                                       error=tr['error'], leftovers=tr['leftovers'], delivered=tr['fin']['delivered'], deadlock=tr['deadlock']),
                              category='parallelize-upstream-failure')
            elif v['matched'] != v['total'] or not v['inv'] or not v['end_ok']:
                rep.model_drift('failing-upstream schedule is not a behaviour of Parallelize.tla (matched %s/%s events) although the failure surfaced cleanly'
                                % (v['matched'], v['total']), it)
    rep.notes['pipelines'] = {k: v[1] for k, v in PIPELINES.items()}
    rep.assumptions += ['"committed" for an observer = its descriptor / final file exists after the run (datapackage.json, valid zip with datapackage.json, stream file under its final name, checkpoint stream.ndjson)',
                        'a fault "at first row" fires only if a row reaches the faulty step; whether it fired is recorded by the faulty step itself']
    return rep.finish()


def replay(path):
    setup_repo()
    rec = json.load(open(path))
    c = rec['case']
    rep = Report(PROP)
    if 'steps' in c:
        tr = engine.record(c)
        _, v = engine.validate([tr])
        bad = not v[0]['C04']
        print(v[0], tr['fin'])
    elif 'pipeline' in c:
        run_ = run_pipeline(c)
        bad = not validate_runs(rep, [run_], 'replay')[0]
        print(run_)
    else:
        run_ = run_provoked(c)
        bad = not validate_runs(rep, [run_], 'replay')[0]
        print(run_)
    if bad:
        print('VIOLATION property=%s replay=%s' % (PROP, path))
    return 1 if bad else 0
