"""C03 - a dumped data package loads back to the same typed data.

Spec:   spec/Codec.tla (the CSV writer as the dumper configures it and a reader driven only by the RECORDED dialect, both
        over code points; RoundTrip), spec/MC_Codec.tla (exhaustive: all tables of small shape over {a , " LF CR space}),
        spec/CodecTrace.tla (real files decoded by the specification's reader)
Bind:   (a) every exported string table is dumped for real: the written bytes must be the specification's encoding, the
            specification's reader applied to the real bytes + recorded dialect must give the cells back, and load() must
            return the table;
        (b) seeded random typed tables (string/integer/number/boolean/date/time/datetime/year/array/object, nulls,
            negatives, 30-digit decimals, quotes, delimiters, newlines, non-BMP) x csv/json x path/zip x
            add_filehash_to_path x temporal_format_property x 1-2 resources x field orders that are not alphabetical:
            load() must return the typed data that entered the dumper, and the data file decoded by the spec's reader
            (csv) / json.loads, then cast with nothing but the recorded field descriptors, must give the same values.
"""
import contextlib
import datetime
import decimal
import io
import json
import os
import shutil
import tempfile
import zipfile
import zlib

from .. import tlc
from ..common import Report, pmap, harness_errors, rng, setup_repo, canon

PROP = 'C03'
KF_JSON_ORDER = 'C03-json-needs-alphabetical-field-order'
KF_CRLF = 'C03-crlf-inside-a-cell-loads-as-lf'
D = decimal.Decimal


def model(rep, t):
    wd = tlc.workdir('c03')
    cases = []
    shapes = [(2, 1, 3), (1, 2, 3)] if t == 'quick' else [(2, 1, 3), (1, 2, 3), (2, 2, 2), (3, 1, 2)]
    for (mr, mc, ml) in shapes:
        export = (mr, mc, ml) in ((2, 1, 3), (1, 2, 3))
        cfg = tlc.write_cfg(os.path.join(wd, 'c%d%d%d.cfg' % (mr, mc, ml)), constants={'MaxRows': mr, 'MaxCols': mc, 'MaxLen': ml},
                            invariants=['RoundTripOK'], constraints=['Export'] if export else [])
        res = tlc.run_tlc('MC_Codec', cfg, workers=1 if export else None, allow_violation=False, timeout=7200)
        rep.add_tlc(res, 'MC_Codec tables <=%dx%d cells of <=%d chars over {a , " LF CR space}: RoundTrip' % (mr, mc, ml))
        cases += res.cases if export else []
    seen, out = set(), []
    for c in cases:
        k = canon(c['tbl'])
        if k not in seen:
            seen.add(k)
            out.append(c)
    return out


def text(cps):
    return ''.join(chr(c) for c in cps)


def dump(resources, fmt, target, root, pre_steps=(), second=False, **opts):
    """resources: list of (name, fields, rows). Returns (written descriptor, read(path)->bytes, load_source)"""
    import dataflows as DF
    from ..common import tuple_source
    out = os.path.join(root, 'out')

    def wipe(row):
        # a later step that edits rows in place must not change what the dumper wrote
        for k in list(row):
            row[k] = None
    # second: ANOTHER file dumper later in the same flow, with the other format and the other kind of target - what the first one writes
    # is its own business
    other = []
    if second:
        ofmt = 'json' if fmt == 'csv' else 'csv'
        os.makedirs(os.path.join(root, 'out2'), exist_ok=True)
        other = [DF.dump_to_zip(os.path.join(root, 'out2', 'x.zip'), format=ofmt)] if target == 'path' else [DF.dump_to_path(os.path.join(root, 'out2'), format=ofmt)]
    with contextlib.redirect_stdout(io.StringIO()):
        if target == 'path':
            DF.Flow(tuple_source(resources), *pre_steps, DF.dump_to_path(out, format=fmt, **opts), *other, wipe).process()
            desc = json.load(open(os.path.join(out, 'datapackage.json')))

            def read(p):
                return open(os.path.join(out, p), 'rb').read()
            return desc, read, (os.path.join(out, 'datapackage.json'), {})
        os.makedirs(out, exist_ok=True)
        zp = os.path.join(out, 'o.zip')
        DF.Flow(tuple_source(resources), *pre_steps, DF.dump_to_zip(zp, format=fmt, **opts), *other, wipe).process()
        z = zipfile.ZipFile(zp)
        desc = json.loads(z.read('datapackage.json'))
        return desc, (lambda p: z.read(p)), (zp, dict(format='datapackage'))


def load_back(src):
    import dataflows as DF
    with contextlib.redirect_stdout(io.StringIO()):
        res, dp, _ = DF.Flow(DF.load(src[0], strip=False, **src[1])).results()
    return res, dp.descriptor


def string_case(c):
    """(a): a table of strings from the exhaustive universe; header h1..hn"""
    setup_repo()
    tbl = [[text(cell) for cell in row] for row in c['tbl']]
    ncol = len(tbl[0])
    hdr = ['h%d' % i for i in range(1, ncol + 1)]
    rows = [dict(zip(hdr, r)) for r in tbl]
    root = tempfile.mkdtemp(prefix='c03-', dir=tlc.WORK_ROOT)
    try:
        try:
            desc, read, src = dump([('r', [(h, 'string') for h in hdr], rows)], 'csv', 'path', root)
            data = read(desc['resources'][0]['path'])
        except Exception as e:
            return dict(ok=False, why='dump raised %s: %s' % (type(e).__name__, str(e)[:150]))
        # what entered the dumper: its validator turns '' into null, and null is written as the empty cell
        cells = [hdr] + [[x for x in r] for r in tbl]
        dl = desc['resources'][0].get('dialect', {})
        rec = dict(bytes=[ord(ch) for ch in data.decode('utf8')], delimiter=ord(dl.get('delimiter', ',')), quoteChar=ord(dl.get('quoteChar', '"')),
                   has_cells=True, cells=[[[ord(ch) for ch in x] for x in r] for r in cells])
        try:
            res, _ = load_back(src)
            got = [[r.get(h) for h in hdr] for r in res[0]]
            want = [[(x if x != '' else None) for x in r] for r in tbl]
            load_ok = got == want
            load_why = None if load_ok else dict(got=got, want=want)
            allcells = [x for r in tbl for x in r]
            bare_cr = any('\r' in x.replace('\r\n', '') for x in allcells)
            flat = '\x00'.join(allcells)
            if bare_cr:
                load_ok, load_why = True, 'bare CR: outside the domain of load()'
            elif not load_ok and '\r\n' in flat:
                want2 = [[(x.replace('\r\n', '\n') if x != '' else None) for x in r] for r in tbl]
                if got == want2:
                    load_ok, load_why = True, 'KF-CRLF'
        except Exception as e:
            load_ok, load_why = False, 'load raised %s: %s' % (type(e).__name__, str(e)[:150])
        return dict(ok=True, rec=rec, load_ok=load_ok, load_why=load_why, table=tbl)
    finally:
        shutil.rmtree(root, ignore_errors=True)


# ---------------------------------------------------------------------------
# (b) typed tables

TYPES = ['string', 'integer', 'number', 'boolean', 'date', 'time', 'datetime', 'year', 'array', 'object']


def rand_value(r, typ, tier, min_year=1):
    if r.random() < 0.15:
        return None
    if typ == 'string':
        alpha = ['a', 'Z', ' ', ',', '"', '\n', u'é', u'中', u'\U0001F600', ';', '\t', '\\', "'", '0', '|']
        if tier == 'thorough':
            alpha.append('\r\n')
        s = ''.join(r.choice(alpha) for _ in range(r.randint(0, 7)))
        return s if s != '' else None
    if typ == 'integer':
        return r.choice([r.randint(-10, 10), r.randint(-10 ** 25, 10 ** 25), 2 ** 63, -2 ** 63 - 1])
    if typ == 'number':
        return D(r.choice(['%d.%0*d' % (r.randint(-10 ** 15, 10 ** 15), r.randint(1, 15), r.randint(0, 10 ** 14)), '0', '-0.5', '1E+3', '123456789012345678901234567890.123456789']))
    if typ == 'boolean':
        return r.random() < 0.5
    if typ == 'date':
        return datetime.date(r.randint(min_year, 9999), r.randint(1, 12), r.randint(1, 28))
    if typ == 'time':
        return datetime.time(r.randint(0, 23), r.randint(0, 59), r.randint(0, 59))
    if typ == 'datetime':
        return datetime.datetime(r.randint(min_year, 9999), r.randint(1, 12), r.randint(1, 28), r.randint(0, 23), r.randint(0, 59), r.randint(0, 59))
    if typ == 'year':
        return r.randint(1, 9999)
    if typ == 'array':
        return r.choice([[], [1, 'x', None], [[1, 2], {'a': [True]}], [u'é\U0001F600', 1.5], ['a,b', '"q"', 'nl\nnl']])
    if typ == 'object':
        return r.choice([{}, {'k': 1}, {'a': {'b': [1, None]}, 'z': 'x,y'}, {u'é': u'\U0001F600'}])
    raise ValueError(typ)


def same(typ, a, b, fmt):
    if a is None or b is None:
        return a is None and b is None
    if typ == 'number':
        return float(a) == float(b) if fmt == 'json' else (D(str(a)) == D(str(b)) and type(b) in (D, int, float))
    if typ in ('array', 'object'):
        return canon(_nums(a)) == canon(_nums(b))
    return a == b and type(a) == type(b)


def _nums(x):
    if isinstance(x, (float, D)):
        return float(x)
    if isinstance(x, list):
        return [_nums(y) for y in x]
    if isinstance(x, dict):
        return {k: _nums(v) for k, v in x.items()}
    return x


def cast_with_recorded(field_desc, raw, missing):
    from tableschema import Field
    f = Field(field_desc, missing_values=missing)
    return f.cast_value(raw)


def typed_case(item):
    import random
    import copy as copy_
    setup_repo()
    r = random.Random(item['seed'])
    cfg = item['cfg']
    tier = item['tier']
    root = tempfile.mkdtemp(prefix='c03t-', dir=tlc.WORK_ROOT)
    try:
        resources = []
        for ri in range(cfg['nres']):
            k = r.randint(2, 6)
            types = [r.choice(TYPES) for _ in range(k)]
            if cfg['temporal'] and r.random() < 0.6:
                # several fields of ONE temporal type in a resource, each with its own output format (or none)
                tt = r.choice(['date', 'time', 'datetime'])
                for j in r.sample(range(k), min(k, r.randint(2, 3))):
                    types[j] = tt
            names = ['f%d' % i for i in range(k)]
            if cfg['order'] == 'reversed':
                names = names[::-1]
            elif cfg['order'] == 'shuffled':
                r.shuffle(names)
            fields = []
            for n, tp in zip(names, types):
                extra = {}
                if cfg['temporal'] and tp in ('date', 'time', 'datetime'):
                    fmt = r.choice({'date': ['%d/%m/%Y', '%m/%d/%Y', '%Y.%m.%d', None],
                                    'time': ['%H|%M|%S', '%S-%M-%H', None],
                                    'datetime': ['%Y%m%d %H-%M-%S', '%d/%m/%Y %H:%M:%S', None]}[tp])
                    if fmt is not None:
                        extra['outputFormat'] = fmt
                elif r.random() < 0.4:
                    # lexical properties the field arrives with (e.g. from the source it was loaded from): the dumper writes
                    # its own lexical forms and must record THEM
                    extra.update({'number': dict(decimalChar=',', groupChar='.'), 'boolean': dict(trueValues=['yes'], falseValues=['no']),
                                  'date': dict(format='%d.%m.%Y'), 'time': dict(format='%H.%M.%S'),
                                  'datetime': dict(format='%d.%m.%Y %H.%M.%S')}.get(tp, {}))
                fields.append((n, tp, extra))
            rows = [{n: rand_value(r, tp, tier, 1000 if cfg['temporal'] else 1) for n, tp in zip(names, types)} for _ in range(r.randint(0, 5))]
            if cfg.get('keyorder'):
                # the order of the KEYS of a row dict means nothing (a row step may have rebuilt the rows): a cell belongs to the
                # field it is named after, not to the field at its position
                rows = [dict(sorted(row.items(), key=lambda kv: (zlib.crc32(('%s/%d' % (kv[0], item['seed'])).encode()), kv[0]))) for row in rows]
            # resource names (hence file names) with dots that share everything before the first dot: two resources, two files
            resources.append((('res%d' if cfg.get('missing') else 'data.v%d') % ri, fields, rows, None, ({'missingValues': list(cfg['missing'])} if cfg.get('missing') else None)))
        if cfg['nres'] == 2 and r.random() < 0.25:
            # the second resource holds exactly the same table as the first (byte-identical files under two names)
            resources[1] = (resources[1][0],) + tuple(copy_.deepcopy(x) for x in resources[0][1:])
        opts = dict(add_filehash_to_path=cfg['filehash'])
        if cfg['temporal']:
            opts['temporal_format_property'] = 'outputFormat'
        import copy
        try:
            pre = []
            if cfg.get('dirs'):
                # resource paths with directories: the same file name under different directories must stay different files
                import dataflows as DF_
                pre = [DF_.update_resource(x[0], path='y20%02d/sales.csv' % i) for i, x in enumerate(resources)]
            if cfg.get('dialect_in'):
                # the resource arrives with a dialect of its own (that of a header-less, backslash-escaped, semicolon-separated file it was
                # once loaded from): the written descriptor has to describe the WRITTEN file, in every property
                import dataflows as DF_
                pre = pre + [DF_.update_resource(None, dialect=dict(header=False, escapeChar='\\', delimiter=';', commentChar='#'))]
            if cfg.get('enc'):
                # the resource arrives with an encoding of its own (that of the file it was once loaded from): the written
                # descriptor has to record the encoding of the WRITTEN file
                import dataflows as DF_
                pre = pre + [DF_.update_resource(None, encoding=cfg['enc'])]
            desc, read, src = dump(copy.deepcopy(resources), cfg['format'], cfg['target'], root, pre_steps=pre, second=bool(cfg.get('second')), **opts)
        except Exception as e:
            return dict(ok=False, why='dump raised %s: %s' % (type(e).__name__, str(e)[:200]), cfg=cfg)
        problems, files, kf_crlf = [], [], []
        resources = [x[:3] for x in resources]
        alpha_ok = all([f[0] for f in fields] == sorted(f[0] for f in fields) for _, fields, _ in resources)
        # structure of the written descriptor
        if [x['name'] for x in desc['resources']] != [n for n, _, _ in resources]:
            problems.append('resources in the written descriptor differ')
        # load()
        load_err = None
        try:
            res, ldesc = load_back(src)
        except Exception as e:
            res, ldesc, load_err = None, None, '%s: %s' % (type(e).__name__, str(e)[:200])
        for ri, (name, fields, rows) in enumerate(resources):
            wres = desc['resources'][ri]
            wfields = wres['schema']['fields']
            if cfg.get('missing') and wres['schema'].get('missingValues') != list(cfg['missing']):
                problems.append('the written descriptor does not record the missing values of the resource (%s): %r' % (name, wres['schema'].get('missingValues')))
            if [(f['name'], f['type']) for f in wfields] != [(f[0], f[1]) for f in fields]:
                problems.append('field names / types / order in the written descriptor differ (%s)' % name)
                continue
            if res is not None:
                lf = [(f['name'], f['type']) for f in ldesc['resources'][ri]['schema']['fields']]
                if lf != [(f[0], f[1]) for f in fields]:
                    problems.append('loaded field names / types / order differ (%s)' % name)
                elif len(res[ri]) != len(rows):
                    problems.append('loaded %d rows, dumped %d (%s)' % (len(res[ri]), len(rows), name))
                else:
                    for i, (a, b) in enumerate(zip(rows, res[ri])):
                        for (n, tp, _) in fields:
                            if not same(tp, a[n], b.get(n), cfg['format']):
                                if (cfg['format'] == 'csv' and tp == 'string' and isinstance(a[n], str) and '\r\n' in a[n]
                                        and a[n].replace('\r\n', '\n') == b.get(n)):
                                    kf_crlf.append([name, i, n])        # known finding: the csv reader opens the file with universal newlines
                                    continue
                                problems.append('load(): %s row %d field %s (%s): dumped %r, loaded %r' % (name, i, n, tp, a[n], b.get(n)))
            # the data file itself
            try:
                data = read(wres['path'])
            except Exception as e:
                problems.append('data file %s not found: %s' % (wres['path'], e))
                continue
            try:
                data_text = data.decode(wres.get('encoding') or 'utf-8')
            except Exception as e:
                problems.append('data file %s does not decode with the recorded encoding %r: %s' % (wres['path'], wres.get('encoding'), str(e)[:80]))
                continue
            files.append(dict(ri=ri, fmt=wres.get('format'), data=data_text, dialect=wres.get('dialect', {}),
                              fields=wfields, missing=wres['schema'].get('missingValues', ['']), rows=rows,
                              spec=[(f[0], f[1]) for f in fields]))
        if load_err:
            problems.append('load() raised ' + load_err)
        return dict(ok=True, problems=problems, files=files, cfg=cfg, alpha_ok=alpha_ok, seed=item['seed'], kf_crlf=kf_crlf)
    finally:
        shutil.rmtree(root, ignore_errors=True)


def model_missing(rep):
    wd = tlc.workdir('c03m')
    cfg = tlc.write_cfg(os.path.join(wd, 'm.cfg'), constants={'NullAs': '"declared"'}, invariants=['CellRoundTrip'], constraints=['Export'])
    res = tlc.run_tlc('Missing', cfg, workers=1, allow_violation=False)
    rep.add_tlc(res, 'Missing: every cell x every missingValues list: a descriptor-only reader gets back what entered the writer (NullAs = declared, the code)')
    cfg = tlc.write_cfg(os.path.join(wd, 'm0.cfg'), constants={'NullAs': '"empty"'}, invariants=['CellRoundTrip'])
    if not tlc.run_tlc('Missing', cfg).violated:
        raise tlc.MachineryError('non-vacuity: Missing with NullAs="empty" (the pinned writer) must violate CellRoundTrip')
    out = []
    for c in res.cases:
        if c['mv'] not in out:
            out.append(c['mv'])
    return out


def from_tagged(v):
    """a tagged value of JsonCodec.tla -> the Python value a JSON reader delivers (numbers from their lexical text)"""
    tag = v[0]
    if tag == 'z':
        return None
    if tag == 't':
        return True
    if tag == 'f':
        return False
    if tag == 'n':
        txt_ = ''.join(chr(c) for c in v[1])
        return int(txt_) if txt_.lstrip('-').isdigit() else float(txt_)
    if tag == 's':
        return ''.join(chr(c) for c in v[1])
    if tag == 'a':
        return [from_tagged(x) for x in v[1]]
    if tag == 'o':
        return {''.join(chr(c) for c in k): from_tagged(x) for k, x in v[1]}
    raise ValueError('not a JSON value: %r' % (v,))


def decode_json_with_spec(rep, json_files):
    """the reader of JsonCodec.tla on the real bytes of the JSON data files"""
    wd = tlc.workdir('c03j')
    tf = tlc.write_ndjson(os.path.join(wd, 'files.ndjson'), [dict(bytes=[ord(ch) for ch in f['data']]) for f in json_files])
    cfg = tlc.write_cfg(os.path.join(wd, 'tr.cfg'), spec='TSpec', constants={'Alphabet': '{97}', 'MaxStr': 0}, constraints=['Verdict'])
    res = tlc.run_tlc('JsonTrace', cfg, workers=1, env={'TRACE_FILE': tf}, allow_violation=False, timeout=3000, heap='12g')
    rep.add_tlc(res, 'JsonTrace: %d real JSON data files decoded by the reader of JsonCodec.tla' % len(json_files))
    out = {}
    for v in res.json_payloads('VERDICT'):
        out[v['t']] = v
    if len(out) != len(json_files):
        raise tlc.MachineryError('JsonTrace: %d verdicts for %d files' % (len(out), len(json_files)))
    return [out[i + 1] for i in range(len(json_files))]


def model_json(rep, t):
    wd = tlc.workdir('c03jm')
    cfg = tlc.write_cfg(os.path.join(wd, 'jc.cfg'), constants={'Alphabet': '{97, 34, 92, 10, 233, 128512, 31, 127}', 'MaxStr': 2 if t == 'quick' else 3},
                        invariants=['RoundTrip', 'FileRoundTrip'])
    res = tlc.run_tlc('JsonCodec', cfg, allow_violation=False, timeout=3000)
    rep.add_tlc(res, 'JsonCodec: Parse(Render(v)) = v for null/true/false/numbers/strings (quotes, backslashes, control characters, non-BMP) and arrays/objects of them')


def decode_with_spec(rep, csv_files):
    """the specification's reader on the real bytes; returns the decoded tables (cell texts)"""
    wd = tlc.workdir('c03t')
    recs = []
    for f in csv_files:
        recs.append(dict(bytes=[ord(ch) for ch in f['data']], delimiter=ord(f['dialect'].get('delimiter', ',')),
                         quoteChar=ord(f['dialect'].get('quoteChar', '"')), has_cells=f.get('has_cells', False), cells=f.get('cells', [])))
    tf = tlc.write_ndjson(os.path.join(wd, 'files.ndjson'), recs)
    cfg = tlc.write_cfg(os.path.join(wd, 'tr.cfg'), constraints=['Verdict'])
    res = tlc.run_tlc('CodecTrace', cfg, workers=1, env={'TRACE_FILE': tf}, allow_violation=False, timeout=3000, heap='12g')
    rep.add_tlc(res, 'CodecTrace: %d real CSV files decoded by the specification\'s reader' % len(recs))
    out = {}
    for v in res.json_payloads('VERDICT'):
        out[v['t']] = dict(decodes=v['decodes'], is_spec=v['is_spec'], table=[[''.join(chr(c) for c in cell) for cell in row] for row in v['table']])
    if len(out) != len(recs):
        raise tlc.MachineryError('CodecTrace: %d verdicts for %d files' % (len(out), len(recs)))
    return [out[i + 1] for i in range(len(recs))]


def run():
    rep = Report(PROP)
    t = rep.tier
    setup_repo()
    r = rng(PROP)
    cases = model(rep, t)
    if t == 'quick':
        r.shuffle(cases)
        cases = cases[:2500]
    sres = pmap(string_case, cases, chunksize=16)
    errs = harness_errors(sres)
    if errs:
        raise tlc.MachineryError('harness error in string tables: ' + errs[0])
    good = [(c, x) for c, x in zip(cases, sres) if x['ok']]
    for c, x in zip(cases, sres):
        if not x['ok']:
            rep.count(1, traces=1)
            rep.violation(c, dict(table=[[text(cell) for cell in row] for row in c['tbl']], why=x['why']), category='strings/dump')
    recs = [dict(data=''.join(chr(b) for b in x['rec']['bytes']), dialect=dict(delimiter=chr(x['rec']['delimiter']), quoteChar=chr(x['rec']['quoteChar'])),
                 has_cells=True, cells=x['rec']['cells']) for _, x in good]
    dec = decode_with_spec(rep, recs)
    for (c, x), d in zip(good, dec):
        rep.count(1, traces=1)
        rep.mark_distinct(x['table'])
        if not d['decodes']:
            rep.violation(c, dict(table=x['table'], why='the written file does not decode (with the recorded dialect) to the cells that were dumped', decoded=d['table']),
                          category='strings/decode')
        elif not x['load_ok']:
            rep.violation(c, dict(table=x['table'], why='load() does not return the dumped table', detail=x['load_why']), category='strings/load')
        elif x['load_why'] == 'KF-CRLF':
            rep.known(KF_CRLF, 'CR LF inside a cell comes back from load() as LF', dict(table=x['table']))
        elif not d['is_spec']:
            rep.model_drift('written bytes differ from Codec!EncodeRows although they decode correctly', c)
    rep.sample(dict(string_table=good[0][1]['table'], bytes=good[0][1]['rec']['bytes'][:40]))
    # (b)
    cfgs = [dict(format=f, target=tg, filehash=fh, temporal=tp, nres=n, order=o)
            for f in ('csv', 'json') for tg in ('path', 'zip') for fh in (False, True) for tp in (False, True) for n in (1, 2)
            for o in ('alpha', 'reversed', 'shuffled')]
    items = []
    per = 3 if t == 'quick' else 60
    # the resource's own missingValues (Missing.tla): how a null is written must be something the recorded descriptor reads back as a null
    mvs = model_missing(rep)
    for cfg in cfgs:
        for _ in range(per):
            items.append(dict(cfg=dict(cfg, missing=r.choice([None, None] + mvs), dirs=r.random() < 0.3,
                                       keyorder=r.random() < 0.35, second=r.random() < 0.3, dialect_in=r.random() < 0.25, enc=r.choice([None, None, 'windows-1252', 'utf-16'])), seed=r.randrange(10 ** 9), tier=t))
    tres = pmap(typed_case, items, chunksize=4)
    errs = harness_errors(tres)
    if errs:
        raise tlc.MachineryError('harness error in typed tables: ' + errs[0])
    csv_files, owners = [], []
    for it, x in zip(items, tres):
        if not x['ok']:
            rep.count(1, traces=1)
            rep.violation(it, dict(cfg=it['cfg'], why=x['why']), category='typed/dump/%s' % it['cfg']['format'])
            continue
        for f in x['files']:
            if f['fmt'] == 'csv':
                csv_files.append(f)
                owners.append(x)
    decoded = decode_with_spec(rep, csv_files) if csv_files else []
    model_json(rep, t)
    json_files = [f for x in tres if x['ok'] for f in x['files'] if f['fmt'] == 'json']
    jdec = decode_json_with_spec(rep, json_files) if json_files else []
    json_by_file = {id(f): d for f, d in zip(json_files, jdec)}
    by_owner = {}
    for f, d, x in zip(csv_files, decoded, owners):
        by_owner.setdefault(id(x), []).append((f, d['table']))
    for it, x in zip(items, tres):
        if not x['ok']:
            continue
        rep.count(1, traces=1)
        rep.mark_distinct(it)
        problems = list(x['problems'])
        # independent decode: spec reader (csv) / json.loads, cast with the recorded field descriptors only
        for f in x['files']:
            try:
                if f['fmt'] == 'csv':
                    table = [tb for (ff, tb) in by_owner.get(id(x), []) if ff is f][0]
                    hdr, body = table[0], table[1:]
                    if hdr != [n for n, _ in f['spec']]:
                        problems.append('decoded header differs: %r' % hdr)
                        continue
                    got = [dict(zip(hdr, row)) for row in body]
                else:
                    jd = json_by_file[id(f)]
                    if not jd['ok']:
                        problems.append('data file of resource %d is not a JSON array of objects: %r' % (f['ri'], jd['value'][:2]))
                        continue
                    got = from_tagged(jd['value'])
                    if got != json.loads(f['data']):
                        raise tlc.MachineryError('the reader of JsonCodec.tla and json.loads disagree on a data file')
                    if not jd['is_spec']:
                        rep.model_drift('a JSON data file decodes correctly but its bytes are not the rendering JsonCodec.tla specifies', dict(cfg=it['cfg'], seed=it['seed']))
                if len(got) != len(f['rows']):
                    problems.append('data file of resource %d holds %d rows, dumped %d' % (f['ri'], len(got), len(f['rows'])))
                    continue
                for i, (a, g) in enumerate(zip(f['rows'], got)):
                    for fd in f['fields']:
                        n = fd['name']
                        val = cast_with_recorded({k: v for k, v in fd.items() if k != 'outputFormat'}, g.get(n), f['missing'])
                        if not same(fd['type'], a[n], val, f['fmt']):
                            problems.append('data file: resource %d row %d field %s (%s): dumped %r, file decodes to %r' % (f['ri'], i, n, fd['type'], a[n], val))
            except Exception as e:
                problems.append('data file of resource %d cannot be decoded with the recorded properties: %s: %s' % (f['ri'], type(e).__name__, str(e)[:150]))
        if x.get('kf_crlf'):
            rep.known(KF_CRLF, 'CR LF inside a cell comes back from load() as LF', dict(cfg=it['cfg'], seed=it['seed'], cells=x['kf_crlf'][:3]))
        if problems:
            cfg = it['cfg']
            only_load = all(p.startswith('load()') or p.startswith('loaded') for p in problems)
            if cfg['format'] == 'json' and not x['alpha_ok'] and only_load:
                rep.known(KF_JSON_ORDER, 'a JSON dump whose field order is not alphabetical does not load back', dict(cfg=cfg, seed=it['seed']))
            else:
                rep.violation(it, dict(cfg=cfg, problems=problems[:6]), category='typed/%s/%s/%s' % (cfg['format'], cfg['target'], problems[0][:30]))
    rep.sample(dict(typed_cfg=items[0]['cfg']))
    rep.notes['typed_tables'] = len(items)
    rep.assumptions += ['what "entered the dumper" is taken after the dumper\'s own validator ("" is null for a string field)',
                        'load(strip=False) is used for the comparison (stripping is a documented transformation of load)',
                        'JSON numbers (also inside arrays/objects) are compared to double precision; temporal values have second precision; a bare CR in a cell is outside the domain of load()',
                        'with temporal_format_property (a user-supplied strftime format) years are >= 1000: the platform strftime renders smaller years unpadded',
                        'lexical decoding of a cell text uses tableschema.Field(recorded descriptor).cast_value']
    return rep.finish()


def replay(path):
    setup_repo()
    rec = json.load(open(path))
    c = rec['case']
    if 'tbl' in c:
        x = string_case(c)
        print(json.dumps(x, default=str)[:1000])
        bad = not x['ok'] or not x['load_ok']
    else:
        x = typed_case(c)
        print(json.dumps(dict(problems=x.get('problems'), why=x.get('why')), default=str)[:2000])
        bad = (not x['ok']) or bool(x.get('problems'))
    if bad:
        print('VIOLATION property=%s replay=%s' % (PROP, path))
    return 1 if bad else 0
