"""C17 - filter_rows, deduplicate and unpivot neither lose nor invent data.

Spec:   spec/ProcRows.tla: FilterDef (subsequence satisfying the any-of equals / any-of not_equals / callable condition),
        DedupDef (first row per distinct primary-key tuple, nulls are key values, idempotent), UnpivotDef (per row, per
        specification entry, per matching field in schema order: kept fields + derived key + cell); TLC checks
        FilterOK, DedupOK and CellConservation on every case and exports them.   spec/RowsTrace.tla for recorded runs.
Bind:   every exported case on the real processors (unpivot with literal and regex names, back-references, constant keys,
        regex on/off); larger random tables are recorded and judged by the definitions in TLC.
"""
import contextlib
import io
import json
import os

from .. import tlc
from ..common import Report, pmap, harness_errors, rng, setup_repo, canon

PROP = 'C17'
FIELDS = ['a', 'b', 'xa', 'xb', 'xab']


def model(rep, t):
    wd = tlc.workdir('c17')
    cfg = tlc.write_cfg(os.path.join(wd, 'pr.cfg'), constants={'MaxRows': 2 if t == 'quick' else 3},
                        invariants=['FilterOK', 'DedupOK', 'CellConservation'], constraints=['Export'])
    res = tlc.run_tlc('ProcRows', cfg, workers=1, allow_violation=False, timeout=6000)
    rep.add_tlc(res, 'ProcRows: FilterOK (subsequence), DedupOK (first per key, idempotent), CellConservation (unpivot)')
    seen, out = set(), []
    for c in res.cases:
        k = canon(c)
        if k not in seen:
            seen.add(k)
            out.append(c)
    return out


def py(v):
    return None if v[0] == 'n' else v[1]


def tag(v):
    return ['n'] if v is None else ['i', v]


# variant text (deduplicate): the same abstract table with TEXT cells, one injective relabelling per field, chosen so that different
# key tuples have the same rendering once their values are glued together ('db' + '10:30' / 'db:10' + '30', None / 'None', '1' / 1):
# rows are duplicates iff their key TUPLES are equal
TEXT = {'a': {1: 'db', 2: 'db:10', -1: 'None', 0: '', -2: 'None:'}, 'b': {1: '10:30', 2: '30', -1: 'None', 0: 'x', -2: ':'}}


def enc_text(f, v):
    if v is None:
        return None
    return TEXT[f][v] if f in TEXT else 's%d' % v


def dec_text(f, v):
    if v is None:
        return None
    if f in TEXT:
        return {t: k for k, t in TEXT[f].items()}[v]
    return int(v[1:])


def real_rows(tbl, text=False):
    if text:
        return [{f: enc_text(f, py(r[f])) for f in FIELDS} for r in tbl]
    return [{f: py(r[f]) for f in FIELDS} for r in tbl]


def run_op(tbl, op, arg, variant):
    import dataflows as DF
    from dataflows import Flow
    from ..common import tuple_source
    # variant twin: the same table twice, as two resources - each resource is processed on its own (nothing a step has
    # seen in one resource may influence what it does to the next one)
    twin = bool(variant.get('twin'))
    only = variant.get('only') if twin else None          # 0 / -1: the step is restricted to the first / the last of the two resources
    selkw = {} if only is None else dict(resources=only)
    text = bool(op == 'dedup' and variant.get('text'))
    ftype = 'string' if text else 'integer'
    src = tuple_source(([('t0', [(f, ftype) for f in FIELDS], real_rows(tbl, text))] if twin else []) +
                       [('t', [(f, ftype) for f in FIELDS], real_rows(tbl, text))])
    if op == 'filter':
        if arg['kind'] == 'callable':
            step = DF.filter_rows(condition=lambda r: r['a'] != -1, **selkw)
        else:
            alts = [{x['f']: py(x['v'])} for x in arg['alts']]
            if variant.get('merged') and len({x['f'] for x in arg['alts']}) == len(arg['alts']):
                alts = [{x['f']: py(x['v']) for x in arg['alts']}]          # one dict with several fields: still any-of
            step = DF.filter_rows(**{arg['kind']: alts}, **selkw)
        links = [src, step]
    elif op == 'dedup':
        links = [src] + ([DF.set_primary_key(list(arg))] if arg else []) + [DF.deduplicate(**selkw)] * (2 if variant.get('twice') else 1)
    else:
        uf = []
        all_lit_const = all(e['pat']['t'] == 'lit' and e['key'] == 'const' for e in arg)
        regex = not (all_lit_const and variant.get('noregex'))
        listkey = bool(all_lit_const and variant.get('listkey'))
        for e in arg:
            name = e['pat']['name'] if e['pat']['t'] == 'lit' else e['pat']['prefix'] + '(.)'
            keyval = {'const': 'K', 'name': '\\g<0>', 'group': '\\1'}[e['key']]
            if listkey and e['key'] == 'const':
                keyval = ['K']            # the constant key "K" bound to a container value: every emitted row gets a key value of its own
            uf.append(dict(name=name, keys=dict(k=keyval)))
        links = [src, DF.unpivot(uf, [dict(name='k', type='array' if listkey else 'string')], dict(name='v', type='integer'), regex=regex, **selkw)]
    if variant.get('preused'):
        from ..common import preuse
        preuse(links[1:], lambda: tuple_source(([('t0', [(f, ftype) for f in FIELDS], real_rows(tbl, text))] if twin else []) +
                                               [('t', [(f, ftype) for f in FIELDS], real_rows(tbl, text))]))
    with contextlib.redirect_stdout(io.StringIO()):
        ds = Flow(*links).datastream()
        streams = [[dict(r) for r in res] for res in ds.res_iter]
        if text:
            streams = [[{f: dec_text(f, v) for f, v in r_.items()} for r_ in st] for st in streams]
        if op == 'unpivot' and listkey:
            for st in streams:
                ks = [r_['k'] for r_ in st if isinstance(r_.get('k'), list)]
                if len({id(x) for x in ks}) != len(ks):
                    raise AssertionError('rows emitted by unpivot share one mutable key object')
                for r_ in st:
                    if r_.get('k') == ['K']:
                        r_['k'] = 'K'          # back to the model's vocabulary
        if only is not None:
            # the selected resource is judged as usual, the other one must be exactly what went in
            si = 0 if only == 0 else 1
            if len(streams) != 2 or streams[1 - si] != real_rows(tbl) or \
                    [f['name'] for f in ds.dp.descriptor['resources'][1 - si]['schema']['fields']] != list(FIELDS):
                raise AssertionError('the resource the step was NOT asked to process changed: %r' % (streams[1 - si][:3],))
            return streams[si], [f['name'] for f in ds.dp.descriptor['resources'][si]['schema']['fields']]
        rows = streams[-1]
        fields = [f['name'] for f in ds.dp.descriptor['resources'][-1]['schema']['fields']]
        if twin and (len(streams) != 2 or streams[0] != rows or
                     [f['name'] for f in ds.dp.descriptor['resources'][0]['schema']['fields']] != fields):
            raise AssertionError('the two resources holding the same table come out differently: %r / %r' % (streams[0][:3], rows[:3]))
    return rows, fields


def project(op, rows, fields):
    if op in ('filter', 'dedup'):
        return [{f: tag(r.get(f)) for f in FIELDS} for r in rows]
    kept = [f for f in fields if f not in ('k', 'v')]
    return dict(kept=kept, rows=[dict(kept=[tag(r.get(f)) for f in kept], key=r.get('k'), value=tag(r.get('v'))) for r in rows])


def replay_case(item):
    setup_repo()
    c, variant = item['case'], item['variant']
    try:
        rows, fields = run_op(c['tbl'], c['op'], c['arg'], variant)
    except Exception as e:
        return dict(ok=False, why='raised %s: %s' % (type(e).__name__, str(e)[:200]))
    got = project(c['op'], rows, fields)
    if c['op'] == 'unpivot' and fields != c['out']['kept'] + ['k', 'v']:
        return dict(ok=False, why='schema after unpivot differs', got=fields, want=c['out']['kept'] + ['k', 'v'])
    if canon(got) != canon(c['out']):
        return dict(ok=False, why='%s output differs from the definition' % c['op'], got=got, want=c['out'])
    return dict(ok=True)


def random_case(item):
    import random
    setup_repo()
    r = random.Random(item['seed'])
    n = r.randint(0, 14)
    vals = [['i', 1], ['i', 2], ['i', -1], ['n'], ['i', 0], ['i', -2]]
    tbl = [dict(a=r.choice(vals), b=r.choice(vals), xa=r.choice(vals), xb=r.choice(vals), xab=r.choice(vals)) for _ in range(n)]
    op = r.choice(['filter', 'dedup', 'unpivot'])
    if op == 'filter':
        kind = r.choice(['equals', 'not_equals', 'callable'])
        arg = dict(kind=kind, alts=[] if kind == 'callable' else [dict(f=r.choice(FIELDS), v=r.choice(vals)) for _ in range(r.randint(1, 3))])
    elif op == 'dedup':
        arg = r.choice([['a'], ['a', 'b'], ['b'], [], ['xa', 'a'], ['a', 'b', 'xa', 'xb']])
    else:
        lit = lambda f: dict(t='lit', name=f, prefix='')
        rex = dict(t='re', name='', prefix='x')
        arg = r.choice([[dict(pat=lit('xa'), key='const')], [dict(pat=rex, key='group')], [dict(pat=rex, key='name')],
                        [dict(pat=lit('xb'), key='name'), dict(pat=lit('xa'), key='const')], [dict(pat=lit('b'), key='const'), dict(pat=rex, key='group')],
                        [dict(pat=lit('a'), key='name'), dict(pat=lit('b'), key='name')],
                        [dict(pat=lit('xa'), key='const'), dict(pat=rex, key='group')], [dict(pat=rex, key='name'), dict(pat=lit('xb'), key='const')]])
    try:
        rows, fields = run_op(tbl, op, arg, dict(twice=False, twin=r.random() < 0.4, text=r.random() < 0.5))
    except Exception as e:
        return dict(raised='%s: %s' % (type(e).__name__, str(e)[:200]), op=op, arg=arg)
    return dict(tbl=tbl, op=op, arg=arg, out=project(op, rows, fields))


def validate(rep, recs):
    wd = tlc.workdir('c17t')
    tf = tlc.write_ndjson(os.path.join(wd, 'recs.ndjson'), recs)
    cfg = tlc.write_cfg(os.path.join(wd, 'tr.cfg'), spec='TSpec', constants={'MaxRows': 0}, constraints=['Verdict'])
    res = tlc.run_tlc('RowsTrace', cfg, workers=1, env={'TRACE_FILE': tf}, allow_violation=False, timeout=3000)
    rep.add_tlc(res, 'RowsTrace: %d recorded runs on random tables (<= 14 rows)' % len(recs))
    out = {v[0]: v[1] for v in res.tuples('VERDICT')}
    if len(out) != len(recs):
        raise tlc.MachineryError('RowsTrace: %d verdicts for %d records' % (len(out), len(recs)))
    return [out[i + 1] for i in range(len(recs))]


def run():
    rep = Report(PROP)
    t = rep.tier
    setup_repo()
    r = rng(PROP)
    cases = model(rep, t)
    items = [dict(case=c, variant=dict(merged=r.random() < 0.5, twice=r.random() < 0.5, noregex=r.random() < 0.5, twin=r.random() < 0.35, preused=r.random() < 0.3, only=r.choice([None, None, 0, -1]), listkey=r.random() < 0.5, text=r.random() < 0.5)) for c in cases]
    res = pmap(replay_case, items, chunksize=32)
    errs = harness_errors(res)
    if errs:
        raise tlc.MachineryError('harness error in rows replay: ' + errs[0])
    for it, out in zip(items, res):
        rep.count(1, traces=1)
        if it['case']['tbl']:
            rep.mark_distinct(it['case'])
        if not out['ok']:
            rep.violation(it, dict(op=it['case']['op'], arg=it['case']['arg'], table=it['case']['tbl'], variant=it['variant'],
                                   **{k: v for k, v in out.items() if k != 'ok'}), category='%s/%s' % (it['case']['op'], out['why'][:40]))
    rep.sample(dict(case=items[len(items) // 2]['case']))
    ritems = [dict(seed=r.randrange(10 ** 9)) for _ in range(400 if t == 'quick' else 6000)]
    recs = pmap(random_case, ritems, chunksize=16)
    errs = harness_errors(recs)
    if errs:
        raise tlc.MachineryError('harness error in random rows runs: ' + errs[0])
    good = []
    for it, x in zip(ritems, recs):
        if 'raised' in x:
            rep.count(1, traces=1)
            rep.violation(it, dict(why='processor raised on a well-formed input', **x), category='random/%s/raised' % x['op'])
        else:
            good.append((it, x))
    verd = validate(rep, [x for _, x in good])
    # the binding binds: a recorded run with its last output row removed must be rejected
    import copy
    probe = next((x for _, x in good if isinstance(x['out'], list) and len(x['out']) >= 1), None)
    if probe is not None:
        c1 = copy.deepcopy(probe)
        c1['out'] = c1['out'][:-1]
        if validate(rep, [c1])[0]:
            raise tlc.MachineryError('RowsTrace accepted a recorded output with a row removed: the trace spec does not bind')
        rep.notes['trace_binding_selftest'] = 'a recorded output with its last row removed is rejected'
    for (it, x), ok in zip(good, verd):
        rep.count(1, traces=1)
        rep.mark_distinct(x)
        if not ok:
            rep.violation(it, dict(why='recorded output differs from the definition', op=x['op'], arg=x['arg'], table=x['tbl'], out=x['out']),
                          category='random/%s' % x['op'])
    rep.assumptions += ['rows are read through datastream(); values by row.get (missing = null)',
                        'unpivot patterns: literal names and the one-group regex x(.) with constant / whole-match / group back-reference keys']
    return rep.finish(exhaustive=(t == 'thorough'))


def replay(path):
    setup_repo()
    rec = json.load(open(path))
    c = rec['case']
    if 'case' in c:
        out = replay_case(c)
        print(json.dumps(out)[:1500])
        bad = not out['ok']
    else:
        x = random_case(c)
        rep = Report(PROP)
        bad = 'raised' in x or not validate(rep, [x])[0]
    if bad:
        print('VIOLATION property=%s replay=%s' % (PROP, path))
    return 1 if bad else 0
