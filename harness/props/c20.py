"""C20 - dump_to_sql leaves the table in the state its mode prescribes.

Spec:   spec/Sql.tla: the table over a history of dumps; the writer as implemented (bloom filter "seen" set, insert buffer
        flushed before an UPDATE / when it exceeds the batch size / at the end, UPDATE ... WHERE key); TLC checks after every
        dump ModeOK (rewrite: exactly the dumped rows; append: previous ++ dumped; update: one row per key with the latest
        values), PairingOK (the writer reports every row once, in order), Downstream (rows continue unchanged, in order),
        FlagsTruthful, NeverFlagsOutsideUpdate, for all histories of <= 2 dumps x <= 2 rows x bloom on/off x batch sizes
        (thorough: + simulated histories of up to 5 dumps).  WriterGetsCopy = FALSE (the pinned dumper, which converted
        array/object/fallback-typed cells in place) must be refuted by TLC on every run.
Bind:   every exported history (quick: seeded sample) is replayed against a fresh on-disk SQLite database; after each dump
        SELECT * (in rowid order), the rows delivered downstream (array, object and a fallback-typed yearmonth/duration cell included, compared
        with the native values that entered the dumper) and the updated flags must be the model's.
"""
import contextlib
import io
import json
import os
import shutil
import tempfile

from .. import tlc
from ..common import Report, pmap, harness_errors, rng, setup_repo, canon

PROP = 'C20'
KF_JSON = 'C20-array-object-cells-continue-as-json-text'      # repaired (fix: commit); listed under 'fixed', so a reappearance is a VIOLATION
KF_FALLBACK = 'C20-fallback-typed-column-on-existing-table'


def model(rep, t):
    wd = tlc.workdir('c20')
    fixed = {'WriterGetsCopy': 'TRUE', 'Converts': 'TRUE'}
    cfg = tlc.write_cfg(os.path.join(wd, 'sql.cfg'), constants=dict({'MaxDumps': 2, 'MaxRows': 2, 'Batches': '{1, 1000}'}, **fixed),
                        invariants=['AllDumpsOK'], constraints=['Export'])
    res = tlc.run_tlc('Sql', cfg, workers=1, allow_violation=False, timeout=6000)
    rep.add_tlc(res, 'Sql <=2 dumps x <=2 rows x 3 modes x bloom on/off x batch {1,1000}: ModeOK, Downstream, FlagsTruthful')
    cases = res.cases
    cfg = tlc.write_cfg(os.path.join(wd, 'pinned.cfg'), constants={'MaxDumps': 2, 'MaxRows': 2, 'Batches': '{1, 1000}', 'WriterGetsCopy': 'FALSE', 'Converts': 'TRUE'},
                        invariants=['AllDumpsOK'])
    r0 = tlc.run_tlc('Sql', cfg)
    if r0.violated != 'AllDumpsOK':
        raise tlc.MachineryError('non-vacuity: Sql with WriterGetsCopy=FALSE (conversion in place) must violate AllDumpsOK/Downstream')
    rep.notes['non_vacuity'] = 'Sql with WriterGetsCopy=FALSE, Converts=TRUE (the pinned in-place conversion) violates Downstream, as it must'
    if t == 'thorough':
        cfg = tlc.write_cfg(os.path.join(wd, 'sim.cfg'), constants=dict({'MaxDumps': 5, 'MaxRows': 3, 'Batches': '{1, 2, 1000}'}, **fixed),
                            invariants=['AllDumpsOK'], constraints=['Export'])
        res = tlc.run_tlc('Sql', cfg, workers=1, simulate='num=1500', depth=60, seed=rep.seed + 1, allow_violation=False, timeout=6000)
        rep.add_tlc(res, 'Sql -simulate: 1500 behaviours, histories of up to 5 dumps x <=3 rows')
        cases += res.cases
    seen, out = set(), []
    for c in cases:
        k = canon(c)
        if k not in seen and c['hist']:
            seen.add(k)
            out.append(c)
    return out


def cells(v):
    """the abstract value as a string cell, an array cell and an object cell: 'a' carries falsy items nested inside
    (0, False, '', [], {} must be stored as they are), 'b' is the EMPTY array / object, 'n' is null"""
    import datetime
    from decimal import Decimal
    if v == 'n':
        return dict(v=None, arr=None, obj=None, dur=datetime.timedelta(days=1, seconds=5))
    if v == 'b':
        return dict(v=v, arr=[], obj={}, dur=datetime.timedelta(0))
    # nested decimals and dates are stored the way JSON can hold them: as a float and as ISO text
    return dict(v=v, arr=[v, 1, 0, False, '', [], {}, None, Decimal('1.5'), datetime.date(2020, 1, 2)],
                obj=dict(x=v, zero=0, no=False, empty='', l=[], d={}, nul=None, dec=Decimal('2.5'), day=datetime.date(2021, 3, 4)),
                dur=datetime.timedelta(hours=3))          # duration: a type SQLite holds as text (the writer's fallback)


def jsonable(x):
    """what a JSON column can hold of a nested value"""
    import datetime
    from decimal import Decimal
    if isinstance(x, dict):
        return {k: jsonable(v) for k, v in x.items()}
    if isinstance(x, list):
        return [jsonable(v) for v in x]
    if isinstance(x, Decimal):
        return float(x)
    if isinstance(x, (datetime.date, datetime.datetime)):
        return x.isoformat()
    return x


def same_json(a, b):
    return json.dumps(a, sort_keys=True) == json.dumps(b, sort_keys=True)      # type-strict: False is not 0


def replay_history(item):
    import dataflows as DF
    from dataflows import Flow
    from ..common import tuple_source
    from sqlalchemy import create_engine, text
    setup_repo()
    c, variant = item['case'], item['variant']
    root = tempfile.mkdtemp(prefix='c20-', dir=tlc.WORK_ROOT)
    try:
        eng_url = 'sqlite:///' + os.path.join(root, 'db.sqlite')
        engine = create_engine(eng_url)
        # a bystander: another table of the same database whose name merely BEGINS like the dumped table's - no dump may touch it
        with engine.begin() as con:
            con.execute(text('create table tbl_keep (x integer)'))
            con.execute(text('insert into tbl_keep values (41)'))
        kf = 0
        for n, (d, lg) in enumerate(zip(c['hist'], c['log']), start=1):
            rows = [dict(k=r['k'], **cells(r['v'])) for r in d['rows']]
            fields = [('k', 'integer'), ('v', 'string'), ('arr', 'array'), ('obj', 'object')]
            nested = variant.get('nested', True)
            if not nested:          # a resource WITHOUT array/object columns (the dumper has nothing to convert itself; the writer may)
                fields = fields[:2]
                for r in rows:
                    del r['arr'], r['obj']
            if variant.get('dur'):
                fields.append(('dur', 'duration'))
            else:
                for r in rows:
                    del r['dur']
            existed = n > 1 and d['mode'] != 'rewrite'
            pk = ['k'] if variant['pk'] else None
            conf = {'resource-name': 't', 'mode': d['mode']}
            if not variant['pk']:
                conf['update_keys'] = ['k']
            import copy
            with contextlib.redirect_stdout(io.StringIO()), contextlib.redirect_stderr(io.StringIO()):
                other = [dict(q=1, w='keep'), dict(q=2, w=None)]
                try:
                    two = bool(variant.get('two_tables'))
                    tables = dict(tbl=conf)
                    srcs = [('t', fields, copy.deepcopy(rows), pk), ('other', [('q', 'integer'), ('w', 'string')], copy.deepcopy(other))]
                    if two:
                        # the same step writes a SECOND resource with the same columns into a second table: what it did for the first
                        # resource must not leak into the second (each table ends up with exactly its own rows, encoded once)
                        tables['tbl2'] = dict(conf, **{'resource-name': 't2'})
                        srcs.append(('t2', fields, copy.deepcopy(rows), pk))
                    ds = Flow(tuple_source(srcs),
                              DF.dump_to_sql(tables, engine=engine, updated_column='upd', batch_size=c['batch'],
                                             use_bloom_filter=c['bloom'])).datastream()
                    streams = [[dict(r) for r in res] for res in ds.res_iter]
                    if two:
                        second = streams.pop()
                        if [{k_: v_ for k_, v_ in r_.items()} for r_ in second] != streams[0]:
                            return dict(ok=False, why='the second dumped resource continues downstream differently from the first', got=second[:2], first=streams[0][:2])
                except Exception as e:
                    cause = getattr(e, 'cause', e)
                    if variant.get('dur') and existed and rows and "type 'datetime.timedelta' is not supported" in str(cause):
                        # listed finding: the storage layer only learns which columns need the text fallback when it CREATES the table
                        return dict(ok=True, kf=0, kf_fallback=1, at=n)
                    raise
                down = streams[0]
                if len(streams) != 2 or streams[1] != other:
                    return dict(ok=False, why='a resource that is not dumped does not pass through unchanged', got=streams[1:] )
            with engine.connect() as con:
                tbl = [tuple(r) for r in con.execute(text('select k, v, arr, obj from tbl order by rowid' if nested else 'select k, v, null, null from tbl order by rowid'))]
            want_tbl = [(r['k'], cells(r['v'])['v'], jsonable(cells(r['v'])['arr']) if nested else None, jsonable(cells(r['v'])['obj']) if nested else None) for r in lg['table']]
            got_tbl = [(k, v, json.loads(a) if a is not None else None, json.loads(o) if o is not None else None) for k, v, a, o in tbl]
            if variant['pk']:        # an INTEGER PRIMARY KEY is the rowid: insertion order is not observable
                got_tbl, want_tbl = sorted(got_tbl, key=canon), sorted(want_tbl, key=canon)
            if not same_json(got_tbl, want_tbl):
                return dict(ok=False, why='table after dump %d (%s) differs' % (n, d['mode']), got=got_tbl, want=want_tbl)
            if variant.get('two_tables'):
                with engine.connect() as con:
                    tbl2 = [tuple(r) for r in con.execute(text('select k, v, arr, obj from tbl2 order by rowid' if nested else 'select k, v, null, null from tbl2 order by rowid'))]
                got2 = [(k, v, json.loads(a) if a is not None else None, json.loads(o) if o is not None else None) for k, v, a, o in tbl2]
                if variant['pk']:
                    got2 = sorted(got2, key=canon)
                if not same_json(got2, want_tbl):
                    return dict(ok=False, why='second table after dump %d (%s) differs' % (n, d['mode']), got=got2, want=want_tbl)
            try:
                with engine.connect() as con:
                    keep = [tuple(r) for r in con.execute(text('select x from tbl_keep'))]
            except Exception as e:
                keep = 'gone: %s' % str(e)[:60]
            if keep != [(41,)]:
                return dict(ok=False, why='dump %d (%s) touched another table of the database (tbl_keep)' % (n, d['mode']), got=keep)
            flags = [r.get('upd') for r in down]
            if flags != lg['flags']:
                return dict(ok=False, why='updated flags of dump %d (%s) differ' % (n, d['mode']), got=flags, want=lg['flags'])
            plain = [dict(k=r.get('k'), v=r.get('v')) for r in down]
            if plain != [dict(k=r['k'], v=r['v']) for r in rows]:
                return dict(ok=False, why='rows downstream of dump %d differ' % n, got=plain)
            for r, o in zip(down, rows):
                if variant.get('dur') and (r.get('dur') != o['dur'] or type(r.get('dur')) is not type(o['dur'])):
                    return dict(ok=False, why='duration cell downstream of dump %d differs' % n, got=repr(r.get('dur')), want=repr(o['dur']))
                for col in (('arr', 'obj') if nested else ()):
                    if r.get(col) != o[col]:
                        if isinstance(r.get(col), str) and same_json(json.loads(r[col]), jsonable(o[col])):
                            kf += 1
                        else:
                            return dict(ok=False, why='array/object cell downstream of dump %d differs' % n, got=r.get(col), want=o[col])
        engine.dispose()
        return dict(ok=True, kf=kf)
    except Exception as e:
        import traceback
        return dict(ok=False, why='raised %s: %s' % (type(e).__name__, str(e)[:200]), tb=traceback.format_exc()[-500:])
    finally:
        shutil.rmtree(root, ignore_errors=True)


def run():
    rep = Report(PROP)
    t = rep.tier
    setup_repo()
    r = rng(PROP)
    cases = model(rep, t)
    if t == 'quick':
        r.shuffle(cases)
        cases = cases[:3000]
    items = []
    for c in cases:
        allupd = all(d['mode'] == 'update' for d in c['hist'])
        items.append(dict(case=c, variant=dict(pk=bool(allupd and r.random() < 0.5), dur=r.random() < 0.3, nested=r.random() < 0.75, two_tables=r.random() < 0.3)))
    res = pmap(replay_history, items, chunksize=16)
    errs = harness_errors(res)
    if errs:
        raise tlc.MachineryError('harness error in sql replay: ' + errs[0])
    for it, out in zip(items, res):
        rep.count(1, traces=1)
        rep.mark_distinct(it)
        if not out['ok']:
            rep.violation(it, dict(history=it['case']['hist'], bloom=it['case']['bloom'], batch=it['case']['batch'], variant=it['variant'],
                                   **{k: v for k, v in out.items() if k != 'ok'}), category='%s' % out['why'][:50])
        elif out.get('kf'):
            rep.known(KF_JSON, 'array/object cells continue downstream as JSON text', dict(history=it['case']['hist']))
        elif out.get('kf_fallback'):
            rep.known(KF_FALLBACK, 'a duration column dumped onto a table that already exists', dict(history=it['case']['hist'], dump=out['at']))
    rep.sample(dict(history=items[0]['case']))
    rep.assumptions += ['keys are non-null; update histories start from a table with one row per key; append never meets a unique constraint (no primary key on the table unless every dump is an update)',
                        'array/object cells in the table are compared after JSON decoding (the sqlite representation)']
    return rep.finish(exhaustive=False)


def replay(path):
    setup_repo()
    rec = json.load(open(path))
    out = replay_history(rec['case'])
    print(json.dumps(out, default=str)[:1500])
    if not out['ok']:
        print('VIOLATION property=%s replay=%s' % (PROP, path))
        return 1
    return 0
