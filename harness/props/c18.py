"""C18 - parallelize delivers every row exactly once under every schedule.

Spec:   spec/Parallelize.tla (producer, N workers with per-process feeder buffers, fetcher, collector; ExactlyOnce,
        AtMostOnce, AppliedBeforeDelivered, Quiescent, NoRowAfterEnd, Termination under weak fairness),
        spec/ParallelizeTrace.tla
Model:  exhaustive TLC runs over (rows, workers, predicate pattern) incl. liveness.
Bind:   (a) the UNMODIFIED producer/fetcher/work/fork bodies run under a cooperative scheduler (harness/sched.py) along
            seeded schedules (uniform, feeder-starving, PCT-style priorities); every queue operation is logged as the
            spec action it must be and the log is validated by TLC; the recorded deliveries must satisfy ExactlyOnce and
            the schedule must terminate (no deadlock);
        (a') spec -> code: complete behaviours of the specification (TLC -simulate over spec/ParallelizeSim.tla) are granted
            operation by operation to the same unmodified bodies; the projected queue state must equal the spec state
            after every step, the run must end where the behaviour ends, and the outcome is judged as in (a);
        (b) real multiprocessing runs of Flow(..., parallelize(...)) with random delays, in a killable process group:
            recorded deliveries judged by the same formula.
"""
import json
import os
import subprocess
import sys
import tempfile

from .. import tlc, sched
from ..common import Report, pmap, harness_errors, rng, setup_repo, VERIF

PROP = 'C18'


def patterns(R):
    """predicate patterns: none / all / some / first selected row late / only the last"""
    ids = list(range(1, R + 1))
    out = {(): 'none'}
    if R:
        out[tuple(ids)] = 'all'
        out[tuple(ids[-1:])] = 'only-last (first selected row late)'
        out[tuple(ids[::2])] = 'odd'
        out[tuple(ids[1::2])] = 'even'
        if R >= 3:
            out[tuple(ids[1:])] = 'all-but-first'
    return out


def tla_set(ids):
    return '{' + ', '.join(map(str, ids)) + '}'


def model(rep, t):
    wd = tlc.workdir('c18')
    grid = [(R, N) for R in (0, 1, 2, 3) for N in (1, 2)] + [(4, 2), (3, 3)]
    if t == 'thorough':
        grid += [(4, 3), (5, 2), (2, 4)]
    total = 0
    jobs = []
    for R, N in grid:
        for sel, label in patterns(R).items():
            if R >= 4 and label not in ('all', 'odd', 'only-last (first selected row late)'):
                continue
            # a failing upstream iterator (FailAt) in the small configurations: the failure must surface with every actor finished
            for failat in sorted(set([0] + ([1, (R + 1) // 2 + 1, R + 1] if R <= 3 and label in ('all', 'odd', 'none') else []))):
                if failat > R + 1 or (failat and R == 0 and failat != 1):
                    continue
                cfg = tlc.write_cfg(os.path.join(wd, 'p_%d_%d_%s_%d.cfg' % (R, N, len(sel), failat)), spec='FairSpec',
                                    constants={'R': R, 'N': N, 'Sel': tla_set(sel), 'Fail': tla_set(sel[:1]) if (R + N) % 3 == 0 else '{}', 'FailAt': failat},
                                    invariants=['ExactlyOnce', 'AtMostOnce', 'AppliedBeforeDelivered', 'Quiescent', 'UpstreamFailureSurfaces'],
                                    properties=['NoRowAfterEnd', 'Termination'])
                jobs.append((R, N, sel, label + (' FailAt=%d' % failat if failat else ''), cfg))
    from concurrent.futures import ThreadPoolExecutor
    big = [j for j in jobs if j[0] * j[1] >= 8]
    small = [j for j in jobs if j not in big]

    def one(j, workers):
        return tlc.run_tlc('Parallelize', j[4], workers=workers, allow_violation=False, timeout=7200)
    with ThreadPoolExecutor(8) as ex:
        results = list(ex.map(lambda j: one(j, 2), small))
    results += [one(j, None) for j in big]
    for j, res in zip(small + big, results):
        R, N, sel, label, _ = j
        total += res.distinct
        rep.add_tlc(res, 'Parallelize R=%d N=%d Sel=%s (%s): safety + Termination under WF' % (R, N, tla_set(sel), label))
    # the model can tell the difference: the pinned tree's producer (swallows an upstream failure, never releases the workers) does not terminate
    cfg = tlc.write_cfg(os.path.join(wd, 'swallow.cfg'), spec='FairSpec',
                        constants={'R': 3, 'N': 2, 'Sel': '{2, 3}', 'Fail': '{}', 'FailAt': 3, 'SwallowUpstream': '<- SwallowsOn'},
                        properties=['Termination'])
    res = tlc.run_tlc('Parallelize', cfg, workers=2, timeout=3000)
    if res.violated != 'Termination':
        raise tlc.MachineryError('vacuity: with SwallowUpstream <- SwallowsOn Parallelize.tla must violate Termination')
    rep.notes['non_vacuity_upstream_failure'] = 'with the pinned producer (SwallowUpstream) TLC refutes Termination when the upstream fails, as expected'
    # ... and a rejected design (a seeded change of round 8): the producer closes q_in after the end markers; a worker forked after the
    # feeder has flushed inherits dead handles - when that happens to ALL workers the rows are lost and the run still ends normally
    cfg = tlc.write_cfg(os.path.join(wd, 'closes.cfg'), spec='Spec',
                        constants={'R': 2, 'N': 2, 'Sel': '{1, 2}', 'Fail': '{}', 'FailAt': 0, 'ClosesIn': '<- SwallowsOn'},
                        invariants=['ExactlyOnce'])
    res = tlc.run_tlc('Parallelize', cfg, workers=2, timeout=3000)
    if res.violated != 'ExactlyOnce':
        raise tlc.MachineryError('vacuity: with ClosesIn <- SwallowsOn Parallelize.tla must violate ExactlyOnce')
    rep.notes['non_vacuity_fork_steps'] = 'the start is modelled step by step (producer thread, one fork per worker, fetcher thread): with the rejected design ClosesIn TLC refutes ExactlyOnce (every worker forked after the pipe was closed)'
    return total


def validate(rep, R, N, sel, traces, fail=(), failat=0):
    wd = tlc.workdir('c18t')
    tf = tlc.write_ndjson(os.path.join(wd, 'tr.ndjson'), [dict(ev=t['ev'], feeds=t['feeds'],
                                                                fin=dict(dict(failed=False, clean=True), **t['fin'])) for t in traces])
    cfg = tlc.write_cfg(os.path.join(wd, 'tr.cfg'), spec='TraceSpec', constants={'R': R, 'N': N, 'Sel': tla_set(sel), 'Fail': tla_set(fail), 'FailAt': failat},
                        constraints=['Progress'], postcondition='Report')
    res = tlc.run_tlc('ParallelizeTrace', cfg, workers=1, env={'TRACE_FILE': tf}, allow_violation=False, timeout=3000)
    rep.add_tlc(res, 'ParallelizeTrace R=%d N=%d Sel=%s%s: %d traces' % (R, N, tla_set(sel), ' FailAt=%d' % failat if failat else '', len(traces)))
    out = {}
    for v in res.tuples('VERDICT'):
        reg = v[1]
        out[v[0]] = dict(matched=reg[0], total=reg[1] if len(reg) > 1 else -1, inv=reg[2] if len(reg) > 2 else None,
                         done=reg[3] if len(reg) > 3 else None, end_ok=reg[4] if len(reg) > 4 else None,
                         delivered_eq=reg[5] if len(reg) > 5 else None, rec_once=v[2])
    if len(out) != len(traces):
        raise tlc.MachineryError('ParallelizeTrace: %d verdicts for %d traces' % (len(out), len(traces)))
    return [out[i + 1] for i in range(len(traces))]


def configs(t):
    cs = []
    for R, N in ([(0, 2), (1, 1), (2, 2), (3, 1), (3, 2), (4, 2), (4, 3), (5, 4), (6, 3)] + ([(8, 4), (7, 2), (5, 1)] if t == 'thorough' else [])):
        for sel, label in patterns(R).items():
            cs.append((R, N, list(sel), label))
    return cs


def real_runs(rep, t, r):
    """real multiprocessing, in a killable process group; outcomes judged by TLC (RecOnce)"""
    runs = []
    k = 6 if t == 'quick' else 40
    specs = []
    for i in range(k):
        R = r.choice([0, 1, 3, 5, 8])
        N = r.choice([1, 2, 3, 4])
        pat = r.choice(['none', 'all', 'odd', 'late'])
        specs.append(dict(R=R, N=N, pat=pat, seed=r.randrange(10 ** 6)))
    wd = tlc.workdir('c18r')
    specf = os.path.join(wd, 'specs.json')
    json.dump(specs, open(specf, 'w'))
    outf = os.path.join(wd, 'out.json')
    cmd = ['setsid', '/venv/bin/python', os.path.join(VERIF, 'harness', 'par_real.py'), specf, outf]
    try:
        p = subprocess.run(cmd, timeout=60 + 20 * k, stdout=subprocess.PIPE, stderr=subprocess.STDOUT, text=True)
    except subprocess.TimeoutExpired:
        subprocess.run(['pkill', '-9', '-f', 'par_real.py'])
    subprocess.run(['pkill', '-9', '-f', 'par_real.py'])
    results = json.load(open(outf)) if os.path.exists(outf) else []
    by = {}
    # a run that did not finish within the harness's own time budget is INCONCLUSIVE (a loaded machine is not a deadlock;
    # deadlocks are decided deterministically by the cooperative scheduler above), never a violation
    inconclusive = len(specs) - len(results)
    rep.notes['real_multiprocessing_runs_inconclusive'] = inconclusive
    if specs and not results:
        raise tlc.MachineryError('no real multiprocessing run finished within %d s' % (60 + 20 * k))
    for sp, res in zip(specs, results):
        sel = [i for i in range(1, sp['R'] + 1) if (sp['pat'] == 'all' or (sp['pat'] == 'odd' and i % 2) or (sp['pat'] == 'late' and i == sp['R']))]
        by.setdefault((sp['R'], sp['N'], tuple(sel)), []).append((sp, dict(ev=res.get('ev', []), feeds=False,
                                                                     fin=dict(delivered=res['delivered'], applied=res['applied'], terminated=res['terminated']))))
    nreal_ev = 0
    for (R, N, sel), lst in by.items():
        verd = validate(rep, R, N, list(sel), [x[1] for x in lst])
        for (sp, tr), v in zip(lst, verd):
            rep.count(1, traces=1)
            rep.mark_distinct(dict(real=sp))
            if not v['rec_once']:
                rep.violation(dict(real=sp), dict(real_multiprocessing_run=sp, outcome=tr['fin']), category='real-mp/%s' % sp['pat'])
            elif v['matched'] != v['total'] or not v['inv'] or not v['end_ok']:
                rep.model_drift('real multiprocessing run is not a behaviour of Parallelize.tla (matched %s/%s queue operations) although exactly-once holds'
                                % (v['matched'], v['total']), dict(real=sp, events=tr['ev'][:40]))
            nreal_ev += len(tr['ev'])
    rep.notes['real_multiprocessing_runs'] = len(specs)
    rep.notes['real_multiprocessing_queue_operations_validated'] = nreal_ev


def spec_to_code(rep, t, r):
    """spec -> code: complete behaviours of Parallelize.tla (TLC -simulate over ParallelizeSim) are granted step by step
    to the real bodies; the projected queue state is compared with the spec state after every step"""
    from concurrent.futures import ThreadPoolExecutor
    wd = tlc.workdir('c18s')
    grid = [(0, 1, (), (), 0), (1, 1, (1,), (), 0), (2, 1, (2,), (), 0), (3, 1, (1, 3), (), 0), (2, 2, (1, 2), (), 0), (3, 2, (2, 3), (3,), 0),
            (4, 2, (1, 3), (), 0), (4, 3, (1, 2, 3, 4), (2,), 0), (3, 3, (3,), (), 0), (5, 2, (2, 3, 4, 5), (), 0),
            # a failing upstream: before the start, in the middle, at exhaustion
            (3, 2, (2, 3), (), 1), (3, 2, (1, 2, 3), (), 3), (4, 2, (1, 3), (), 5), (4, 3, (2, 4), (), 3), (2, 1, (1, 2), (), 2)]
    if t == 'thorough':
        grid += [(6, 3, (1, 2, 3, 4, 5, 6), (4,), 0), (5, 4, (1, 3, 5), (), 0), (8, 2, (2, 4, 6, 8), (), 0), (4, 1, (2, 4), (2,), 0),
                 (6, 3, (1, 2, 3, 4, 5, 6), (), 4), (5, 4, (1, 3, 5), (), 6)]
    num = 40 if t == 'quick' else 500

    def sim(g):
        R, N, sel, fail, failat = g
        cfg = tlc.write_cfg(os.path.join(wd, 's_%d_%d_%d_%d_%d.cfg' % (R, N, len(sel), len(fail), failat)), spec='SimSpec',
                            constants={'R': R, 'N': N, 'Sel': tla_set(sel), 'Fail': tla_set(fail), 'FailAt': failat}, invariants=['SimSafe'], constraints=['Export'])
        return tlc.run_tlc('ParallelizeSim', cfg, workers=1, simulate='num=%d' % num, depth=1000, seed=rep.seed + R * 10 + N,
                           allow_violation=False, timeout=3000)
    with ThreadPoolExecutor(8) as ex:
        sims = list(ex.map(sim, grid))
    items = []
    for g, res in zip(grid, sims):
        rep.add_tlc(res, 'ParallelizeSim -simulate R=%d N=%d Sel=%s Fail=%s FailAt=%d: %d complete behaviours as scripts' % (g[0], g[1], tla_set(g[2]), tla_set(g[3]), g[4], len(res.cases)))
        if not res.cases:
            raise tlc.MachineryError('ParallelizeSim produced no behaviour for %r' % (g,))
        seen = set()
        for c in res.cases:
            key = json.dumps([[e['a'], e['w']] for e in c['script']])
            if key in seen:
                continue
            seen.add(key)
            items.append(dict(R=c['r'], N=c['n'], sel=list(c['sel']), fail_ids=list(c['fail']), fail_at=c['failat'], script=c['script'], seed=len(items)))
    traces = pmap(sched.run_script, items, chunksize=8)
    errs = harness_errors(traces)
    if errs:
        raise tlc.MachineryError('harness error in scripted scheduler: ' + errs[0])
    # the binding binds: a script with one operation removed cannot be followed
    probe = next(it for it in items if any(e['a'] == 'FeedIn' for e in it['script']) and not it['fail_at'])
    k = next(i for i, e in enumerate(probe['script']) if e['a'] == 'FeedIn')
    broken = sched.run_script(dict(probe, script=probe['script'][:k] + probe['script'][k + 1:]))
    if broken['followed']:
        raise tlc.MachineryError('a script with one operation removed was accepted: the scripted scheduler does not bind')
    rep.notes['spec_to_code_binding_selftest'] = 'a behaviour with one FeedIn step removed diverges: ' + broken['divergence']['why']
    groups = {}
    for it, tr in zip(items, traces):
        groups.setdefault((it['R'], it['N'], tuple(it['sel']), tuple(it['fail_ids']), it['fail_at']), []).append((it, tr))
    glist = sorted(groups.items())
    with ThreadPoolExecutor(8) as ex:
        allverd = list(ex.map(lambda g: validate(rep, g[0][0], g[0][1], list(g[0][2]), [x[1] for x in g[1]], g[0][3], g[0][4]), glist))
    ncmp = 0
    for ((R, N, sel, fail, failat), lst), verd in zip(glist, allverd):
        for (it, tr), v in zip(lst, verd):
            rep.count(1, traces=1)
            rep.mark_distinct(['script', tr['ev']])
            ncmp += tr['states_compared']
            short = dict(R=R, N=N, sel=list(sel), fail_ids=list(fail), fail_at=failat, script=it['script'])
            if not v['rec_once']:
                rep.violation(short, dict(why='along a behaviour of the specification the implementation does not deliver exactly once / does not terminate',
                                          outcome=tr['fin'], divergence=tr['divergence'], deadlock=tr['deadlock'], error=tr['error'],
                                          events=tr['ev'][-12:]), category='script/R%dN%d' % (R, N))
            elif not tr['followed']:
                rep.model_drift('the implementation cannot follow a behaviour of Parallelize.tla (%s) although exactly-once holds on the run'
                                % tr['divergence']['why'], dict(R=R, N=N, sel=list(sel), divergence=tr['divergence']))
            elif v['matched'] != v['total'] or not v['inv'] or not v['end_ok'] or not v['delivered_eq']:
                rep.model_drift('scripted run not accepted by ParallelizeTrace (matched %s/%s)' % (v['matched'], v['total']), dict(R=R, N=N, sel=list(sel)))
    rep.notes['spec_to_code_behaviours_replayed'] = len(items)
    rep.notes['spec_to_code_states_compared'] = ncmp
    rep.sample(dict(spec_to_code=dict(R=items[-1]['R'], N=items[-1]['N'], sel=items[-1]['sel'],
                                      script=[[e['a'], e['w']] for e in items[-1]['script']][:30], outcome=traces[-1]['fin'])))


def run():
    rep = Report(PROP)
    t = rep.tier
    setup_repo()
    r = rng(PROP)
    model(rep, t)
    per = 40 if t == 'quick' else 400
    items = []
    for (R, N, sel, label) in configs(t):
        for i in range(per):
            # every fourth schedule: row_func raises on the first selected row (the row must still be delivered, once)
            items.append(dict(R=R, N=N, sel=sel, seed=r.randrange(10 ** 9), strategy=['uniform', 'feeders_last', 'priority'][i % 3],
                              fail_ids=sel[:1] if i % 4 == 3 else []))
    traces = pmap(sched.run_schedule, items, chunksize=8)
    errs = harness_errors(traces)
    if errs:
        raise tlc.MachineryError('harness error in scheduler: ' + errs[0])
    groups = {}
    for it, tr in zip(items, traces):
        groups.setdefault((it['R'], it['N'], tuple(it['sel']), tuple(it['fail_ids'])), []).append((it, tr))
    from concurrent.futures import ThreadPoolExecutor
    glist = sorted(groups.items())
    with ThreadPoolExecutor(8) as ex:
        allverd = list(ex.map(lambda g: validate(rep, g[0][0], g[0][1], list(g[0][2]), [x[1] for x in g[1]], g[0][3]), glist))
    for ((R, N, sel, fail), lst), verd in zip(glist, allverd):
        for (it, tr), v in zip(lst, verd):
            rep.count(1, traces=1)
            rep.mark_distinct(tr['ev'])
            if not v['rec_once']:
                rep.violation(it, dict(schedule=it, why='deliveries are not exactly-once / the schedule did not terminate',
                                       outcome=tr['fin'], deadlock=tr['deadlock'], error=tr['error'], leftovers=tr['leftovers'],
                                       events=tr['ev'][-12:]), category='schedule/R%dN%d/%s' % (R, N, 'deadlock' if tr['deadlock'] else 'rows'))
            elif v['matched'] != v['total'] or not v['inv'] or not v['end_ok'] or not v['delivered_eq']:
                rep.model_drift('schedule is not a behaviour of Parallelize.tla (matched %s/%s events) although exactly-once holds on it' % (v['matched'], v['total']), it)
    rep.sample(dict(schedule=dict(R=items[-1]['R'], N=items[-1]['N'], sel=items[-1]['sel'], strategy=items[-1]['strategy'],
                                  events=traces[-1]['ev'][:25], outcome=traces[-1]['fin'])))
    spec_to_code(rep, t, r)
    real_runs(rep, t, r)
    rep.assumptions += ['row_func and the predicate do not raise; the upstream iterator does not fail (failures are C04)',
                        'a multiprocessing.Queue is FIFO per putting process and unordered across processes (per-process feeder buffers)',
                        'worker "processes" are threads under the cooperative scheduler; rows are pickled on every mp-queue put']
    return rep.finish()


def replay(path):
    setup_repo()
    rec = json.load(open(path))
    c = rec['case']
    if 'real' in c:
        print('real multiprocessing runs are not deterministic; re-run the check')
        return 0
    tr = sched.run_script(c) if 'script' in c else sched.run_schedule(c)
    rep = Report(PROP)
    v = validate(rep, c['R'], c['N'], c['sel'], [tr], c.get('fail_ids') or (), c.get('fail_at') or 0)[0]
    print(v, tr['fin'], tr['deadlock'])
    if not v['rec_once']:
        print('VIOLATION property=%s replay=%s' % (PROP, path))
        return 1
    return 0
