"""C13 - load reproduces the source table faithfully.

Spec:   spec/Load.tla (on top of Codec.tla): LoadDef - header row -> field names (RenameDuplicateHeaders transcribed, reject
        when duplicates are not to be renamed), one row per data line in order, cell text preserved apart from Strip,
        limit_rows = the first n rows; TLC checks NamesUnique, OneRowPerLine, TextPreserved, RejectedIffDup on 17 571
        cases (headers with duplicates differing or not in case and names that collide with generated ones; cells with
        quotes, delimiters, newlines, edge spaces, numeric-looking and empty; limits 0..5) and exports each case WITH
        the file bytes (the specification's own encoding).   spec/ProcValidate.tla for the casting policy; LoadTrace.tla.
Bind:   each exported file is written to disk and loaded for real under the string / default strategies; names, rows
        and text must be LoadDef's.  ProcValidate cases run through load(cast_strategy='schema', on_error=...) with a
        one-row inference sample so that later rows can offend.  Random files from an independent writer (python csv,
        unicode) are loaded and the spec's reader must reproduce what load() returned.  Selection from data packages and
        (descriptor, iterators) pairs.
"""
import contextlib
import csv
import io
import json
import os
import shutil
import tempfile

from .. import tlc
from ..common import Report, pmap, harness_errors, rng, setup_repo, canon

PROP = 'C13'


def model(rep, t):
    wd = tlc.workdir('c13')
    cfg = tlc.write_cfg(os.path.join(wd, 'ld.cfg'), invariants=['NamesUnique', 'OneRowPerLine', 'TextPreserved', 'RejectedIffDup'],
                        constraints=['Export'])
    res = tlc.run_tlc('Load', cfg, workers=1, allow_violation=False, timeout=3000)
    rep.add_tlc(res, 'Load: NamesUnique, OneRowPerLine, TextPreserved, RejectedIffDup over header / cell / limit cases')
    seen, cases = set(), []
    for c in res.cases:
        k = canon([c['tbl'], c['opts']])
        if k not in seen:
            seen.add(k)
            cases.append(c)
    cfg = tlc.write_cfg(os.path.join(wd, 'pv.cfg'), constants={'MaxRows': 3, 'NFields': 2, 'Policies': '{"raise", "drop", "ignore", "clear"}'},
                        invariants=['LoopMeetsDefinition'], constraints=['Export'])
    res = tlc.run_tlc('ProcValidate', cfg, workers=1, allow_violation=False, timeout=3000)
    rep.add_tlc(res, 'ProcValidate (policy cases replayed through load(cast_strategy=schema))')
    pv = [c for c in res.cases if not any('nat' in row for row in c['tbl'])]
    return cases, pv


def txt(cps):
    return ''.join(chr(c) for c in cps)


def load_file(data, root, **kw):
    import dataflows as DF
    p = os.path.join(root, 'in.csv')
    with open(p, 'wb') as f:
        f.write(data)
    with contextlib.redirect_stdout(io.StringIO()), contextlib.redirect_stderr(io.StringIO()):
        ds = DF.Flow(DF.load(p, **kw)).datastream()
        rows = [[dict(r) for r in res] for res in ds.res_iter][0]
        fields = ds.dp.descriptor['resources'][0]['schema']['fields']
        name = ds.dp.descriptor['resources'][0]['name']
    return rows, fields, name


def limit_inference_case(item):
    """limit_rows says how many rows are DELIVERED, not what the schema is inferred from: a column whose first cells look like integers
    and whose n-th cell is text is a string column (the text lies inside the inference sample of the file), whatever the limit - and the
    first n rows come out as the texts they are (results() casts them with that schema)"""
    import dataflows as DF
    setup_repo()
    k, n = item['k'], item['n']           # k integer-looking lines, then a text line, then one more number; limit n
    cells = [str(10 * (i + 1)) for i in range(k)] + ['x%d' % (10 * (k + 1)), str(10 * (k + 2))]
    data = ('v,w\r\n' + ''.join('%s,%d\r\n' % (c_, i) for i, c_ in enumerate(cells))).encode()
    root = tempfile.mkdtemp(prefix='c13l-', dir=tlc.WORK_ROOT)
    try:
        p_ = os.path.join(root, 'in.csv')
        open(p_, 'wb').write(data)
        try:
            with contextlib.redirect_stdout(io.StringIO()), contextlib.redirect_stderr(io.StringIO()):
                res, dp, _ = DF.Flow(DF.load(p_, limit_rows=n)).results()
        except Exception as e:
            return dict(ok=False, why='load(limit_rows=%d) of a well-formed file raised' % n, raised='%s: %s' % (type(e).__name__, str(getattr(e, 'cause', e))[:120]))
        types = [f['type'] for f in dp.descriptor['resources'][0]['schema']['fields']]
        if types != ['string', 'integer']:
            return dict(ok=False, why='the inferred types depend on limit_rows', got=types)
        want = [dict(v=c_, w=i) for i, c_ in enumerate(cells)][:n]
        if [dict(r_) for r_ in res[0]] != want:
            return dict(ok=False, why='load(limit_rows=%d) does not yield exactly the first %d rows' % (n, n), got=[dict(r_) for r_ in res[0]][:5])
        return dict(ok=True)
    finally:
        shutil.rmtree(root, ignore_errors=True)


def sniffed_decode(data, strip, limit):
    """what the third-party table reader that load() drives (tabulator's Stream with its CSV parser) makes of the file
    when it is left to guess the dialect - csv.Sniffer over ',', tab, ';', '|' on the first lines, then header detection
    and blank-row skipping under the guessed dialect - followed by load's documented strip / limit_rows:
    (guessed dialect differs from the default one, header, rows).  Used ONLY to recognise the known finding
    C13-dialect-is-sniffed: the reader is called here directly, not through dataflows."""
    import tempfile
    from tabulator import Stream
    fd, path = tempfile.mkstemp(suffix='.csv', dir=tlc.WORK_ROOT)
    try:
        with os.fdopen(fd, 'wb') as f:
            f.write(data)
        with Stream(path, headers=1, ignore_blank_headers=True, skip_rows=[{'type': 'preset', 'value': 'auto'}], sample_size=1000) as st:
            d = st.dialect or {}
            differs = d.get('delimiter', ',') != ',' or bool(d.get('skipInitialSpace')) or d.get('quoteChar', '"') != '"' or not d.get('doubleQuote', True)
            hdr = list(st.headers or [])
            rows = [[('' if r.get(h) is None else r.get(h)) for h in hdr] for r in st.iter(keyed=True)]
    except Exception:
        return False, None, None
    finally:
        os.unlink(path)
    ws = set(' \t\n\r')
    if strip:
        rows = [[(v.strip() if v and (v[-1] in ws or v[0] in ws) else v) for v in r] for r in rows]
    if limit:
        rows = rows[:limit]
    return differs, hdr, rows


KF_SNIFF = 'C13-dialect-is-sniffed'


def replay_case(item):
    setup_repo()
    c, variant = item['case'], item['variant']
    o = c['opts']
    data = txt(c['bytes']).encode('utf8')
    kw = dict(deduplicate_headers=o['dedup'], deduplicate_headers_case_sensitive=o['cs'], strip=o['strip'])
    if o['limit']:
        kw['limit_rows'] = o['limit']
    if variant['strategy'] == 'strings':
        kw.update(infer_strategy='strings', cast_strategy='strings')
    if variant.get('name'):
        kw['name'] = 'given'
    root = tempfile.mkdtemp(prefix='c13-', dir=tlc.WORK_ROOT)
    try:
        try:
            rows, fields, rname = load_file(data, root, **kw)
            raised = None
        except Exception as e:
            raised = '%s: %s' % (type(e).__name__, str(getattr(e, 'cause', e))[:120])
        want = c['result']
        if want['rejected']:
            return dict(ok=raised is not None, why='duplicate headers were not rejected')
        if raised:
            return dict(ok=False, why='load raised ' + raised)
        names = [txt(n) for n in want['names']]
        if [f['name'] for f in fields] != names:
            return dict(ok=False, why='field names differ', got=[f['name'] for f in fields], want=names)
        if variant.get('name') and rname != 'given':
            return dict(ok=False, why='resource name option ignored', got=rname)
        wrows = [[txt(x) for x in r] for r in want['rows']]
        if len(rows) != len(wrows):
            return dict(ok=False, why='number of rows differs', got=len(rows), want=len(wrows))
        for r, w in zip(rows, wrows):
            got = [r.get(n) for n in names]
            if any(not isinstance(x, str) for x in got if x is not None) and variant['strategy'] == 'strings':
                return dict(ok=False, why='a string strategy yielded a non-string', got=got)
            if [('' if x is None else str(x)) for x in got] != w:
                differs, shdr, srows = sniffed_decode(data, o['strip'], o['limit'])
                allgot = [[('' if r2.get(n) is None else str(r2.get(n))) for n in names] for r2 in rows]
                if differs and allgot == srows:
                    return dict(ok=True, kf=KF_SNIFF, got=allgot, want=wrows)
                return dict(ok=False, why='cell text differs', got=got, want=w)
        if variant['strategy'] == 'strings' and any(f['type'] != 'string' for f in fields):
            return dict(ok=False, why='string strategy declared a non-string field', got=[f['type'] for f in fields])
        return dict(ok=True)
    finally:
        shutil.rmtree(root, ignore_errors=True)


def replay_policy(c):
    """a ProcValidate case through load(cast_strategy='schema'): first data row is a valid sample row"""
    import sys
    import zlib
    # limit_rows counts the rows that come out of the casting (a dropped row does not use up the limit)
    limit = 0 if c['policy'] == 'raise' else zlib.crc32(canon(c['tbl']).encode()) % 4
    # policy raise with the limit exactly in front of the first uncastable row: limit_rows yields exactly the first n rows, the row
    # after them is none of its business (it must not even be cast)
    stop_before_bad = c['policy'] == 'raise' and c['raised'] >= 0 and zlib.crc32(canon(c['tbl']).encode()) % 2 == 0
    if stop_before_bad:
        limit = c['raised'] + 1
    setup_repo()
    sv = sys.modules['dataflows.base.schema_validator']
    import dataflows as DF
    cell = {'lex': '7', 'bad': 'x', 'nul': ''}
    lines = ['f1,f2', '5,5'] + [','.join(cell[k] for k in row) for row in c['tbl']]
    data = ('\r\n'.join(lines) + '\r\n').encode()
    handler = {'raise': sv.raise_exception, 'drop': sv.drop, 'ignore': sv.ignore, 'clear': sv.clear}[c['policy']]
    root = tempfile.mkdtemp(prefix='c13p-', dir=tlc.WORK_ROOT)
    try:
        raised = None
        rows = None
        try:
            kw = dict(limit_rows=limit) if limit else {}
            rows, fields, _ = load_file(data, root, cast_strategy='schema', on_error=handler, sample_size=2, strip=False, **kw)
        except DF.exceptions.ProcessorError as e:
            raised = e.cause
        except sv.ValidationError as e:
            raised = e
        if stop_before_bad:
            if raised is not None:
                return dict(ok=False, why='limit_rows=%d ends in front of the uncastable row, yet the load raised' % limit, got=str(raised)[:100])
            want = [dict(f1=5, f2=5)] + [{fn: (7 if cls == 'lex' else None) for fn, cls in zip(('f1', 'f2'), row)} for row in c['tbl'][:c['raised']]]
            got = [dict(f1=r.get('f1'), f2=r.get('f2')) for r in rows]
            if got != want:
                return dict(ok=False, why='rows with limit_rows=%d in front of the uncastable row differ' % limit, got=got, want=want)
            return dict(ok=True)
        if c['raised'] >= 0:
            if not isinstance(raised, sv.ValidationError):
                return dict(ok=False, why='no ValidationError although row %d is uncastable' % c['raised'], got=str(raised)[:100] if raised else rows)
            if raised.index != c['raised'] + 1:
                return dict(ok=False, why='ValidationError.index = %r, expected %d' % (raised.index, c['raised'] + 1))
            return dict(ok=True)
        if raised is not None:
            return dict(ok=False, why='raised %s' % str(raised)[:100])
        if [f['type'] for f in fields] != ['integer', 'integer']:
            return dict(ok=True, skipped='inference did not yield integer')
        want = [dict(f1=5, f2=5)]
        for idx, cells in zip(c['idx'], c['rows']):
            w = {}
            for fn, cls, orig in zip(('f1', 'f2'), cells, c['tbl'][idx]):
                w[fn] = 7 if cls == 'nat' else None if cls == 'nul' else 'x'
            want.append(w)
        got = [dict(f1=r.get('f1'), f2=r.get('f2')) for r in rows]
        if limit:
            want = want[:limit]
        if got != want:
            return dict(ok=False, why='rows after schema casting%s differ' % (' with limit_rows=%d' % limit if limit else ''), got=got, want=want)
        return dict(ok=True)
    finally:
        shutil.rmtree(root, ignore_errors=True)


def model_extract(rep):
    wd = tlc.workdir('c13x')
    cfg = tlc.write_cfg(os.path.join(wd, 'x.cfg'), invariants=['RowsKept', 'NothingInvented', 'NothingLost', 'TextKept'], constraints=['Export'])
    res = tlc.run_tlc('MC_LoadExtract', cfg, workers=1, allow_violation=False)
    rep.add_tlc(res, 'MC_LoadExtract: load(extract_missing_values=...) over 2-column tables of <=2 rows x value sets x source restriction x values given / from the schema')
    seen, out = set(), []
    for c in res.cases:
        k = canon(c)
        if k not in seen:
            seen.add(k)
            out.append(c)
    return out


def replay_extract(c):
    """load(file, extract_missing_values=..., [override_schema=...], cast_strategy='schema'): cells and the extracted mapping as Load!ExtractDef says"""
    import dataflows as DF
    setup_repo()
    root = tempfile.mkdtemp(prefix='c13x-', dir=tlc.WORK_ROOT)
    try:
        lines = ['a,b'] + [','.join(row) for row in c['rows']]
        if any(ln == ',' for ln in lines[1:]):
            return dict(ok=True, skipped='a line of empty cells only is a blank row for the reader')
        data = ('\r\n'.join(lines) + '\r\n').encode()
        opt = {}
        if c['source']:
            opt['source'] = c['source'][0] if len(c['rows']) % 2 else list(c['source'])      # a name or a list of names
        kw = {}
        if c['given']:
            opt['values'] = list(c['values'])
        else:
            kw['override_schema'] = {'missingValues': list(c['values'])}
        if len(c['values']) % 2 == 0:
            opt['target'] = 'mv'
        target = opt.get('target', 'missingValues')
        try:
            rows, fields, _ = load_file(data, root, infer_strategy='strings', cast_strategy='schema', strip=False,
                                        extract_missing_values=(opt if opt else True), **kw)
        except Exception as e:
            return dict(ok=False, why='load raised %s: %s' % (type(e).__name__, str(getattr(e, 'cause', e))[:120]))
        if [(f['name'], f['type']) for f in fields] != [('a', 'string'), ('b', 'string'), (target, 'object')]:
            return dict(ok=False, why='schema differs', got=[(f['name'], f['type']) for f in fields])
        want = []
        for o in c['out']:
            w = {n: (None if cell[0] == 'null' else cell[1]) for n, cell in zip(('a', 'b'), o['cells'])}
            w[target] = {k: v for k, v in o['missing']}
            want.append(w)
        if rows != want:
            return dict(ok=False, why='rows differ from Load!ExtractDef', got=rows, want=want)
        return dict(ok=True)
    finally:
        shutil.rmtree(root, ignore_errors=True)


def random_file(item):
    import random
    setup_repo()
    r = random.Random(item['seed'])
    ncol = r.randint(1, 4)
    alpha = ['a', 'B', ' ', ',', '"', '\n', u'é', u'中', u'\U0001F600', '1', '.', '-', "'", ';', '\t']
    hdr = ['h%d' % i for i in range(ncol)]
    nrows = r.randint(0, 6)
    body = []
    for _ in range(nrows):
        row = [''.join(r.choice(alpha) for _ in range(r.randint(0, 5))) for _ in range(ncol)]
        if all(x == '' for x in row):
            row[0] = 'v'                        # a line of empty cells only is a blank line for a one-column file
        body.append(row)
    buf = io.StringIO(newline='')
    w = csv.writer(buf, lineterminator=r.choice(['\r\n', '\n']))
    w.writerow(hdr)
    w.writerows(body)
    data = buf.getvalue().encode('utf8')
    strip = r.random() < 0.5
    limit = r.choice([0, 0, 1, 2, 9])
    root = tempfile.mkdtemp(prefix='c13r-', dir=tlc.WORK_ROOT)
    try:
        kw = dict(strip=strip, infer_strategy='strings', cast_strategy='strings')
        if limit:
            kw['limit_rows'] = limit
        try:
            rows, fields, _ = load_file(data, root, **kw)
        except Exception as e:
            return dict(raised='%s: %s' % (type(e).__name__, str(e)[:150]), cause=str(getattr(e, 'cause', e))[-400:],
                        bytes=[ord(ch) for ch in data.decode('utf8')], strip=strip, limit=limit)
        names = [f['name'] for f in fields]
        return dict(bytes=[ord(ch) for ch in data.decode('utf8')], strip=strip, limit=limit,
                    names=[[ord(ch) for ch in n] for n in names],
                    rows=[[[ord(ch) for ch in ('' if r_.get(n) is None else r_.get(n))] for n in names] for r_ in rows])
    finally:
        shutil.rmtree(root, ignore_errors=True)


def selection_cases():
    """load from a data package / a (descriptor, iterators) pair selects exactly the requested resources"""
    import dataflows as DF
    from ..common import tuple_source
    out = []
    root = tempfile.mkdtemp(prefix='c13s-', dir=tlc.WORK_ROOT)
    try:
        names = ['r1', 'r12', 'x.y', 'xzy']          # 'xzy' is what 'x.y' matches when a listed NAME is mistaken for a pattern
        res = [(n, [('a', 'integer')], [dict(a=i * 10 + k) for k in range(2)]) for i, n in enumerate(names)]
        with contextlib.redirect_stdout(io.StringIO()):
            DF.Flow(tuple_source(res), DF.dump_to_path(os.path.join(root, 'pkg'))).process()
        for sel, want in [(None, names), ('r1', ['r1']), ('r1.*', ['r1', 'r12']), (['x.y', 'r1'], ['r1', 'x.y']), (-1, ['xzy']), (-2, ['x.y']), (0, ['r1']),
                          ('x.y', ['x.y', 'xzy']), (['x.y'], ['x.y']), (['r1.*'], []), ('x\\.y', ['x.y']), ([], [])]:
            for kind in ('datapackage', 'tuple'):
                try:
                    with contextlib.redirect_stdout(io.StringIO()):
                        if kind == 'datapackage':
                            r_, dp, _ = DF.Flow(DF.load(os.path.join(root, 'pkg', 'datapackage.json'), resources=sel)).results()
                        else:
                            src = tuple_source(res)
                            r_, dp, _ = DF.Flow(DF.load(src.load_source, resources=sel)).results()
                    got = [x['name'] for x in dp.descriptor['resources']]
                    rows_ok = all(rows == [dict(a=names.index(n) * 10 + k) for k in range(2)] for n, rows in zip(got, r_))
                    out.append(dict(sel=repr(sel), kind=kind, ok=(got == want and rows_ok), got=got, want=want))
                except Exception as e:
                    out.append(dict(sel=repr(sel), kind=kind, ok=False, got='%s: %s' % (type(e).__name__, str(e)[:100]), want=want))
        # the string strategies on sources that deliver native values (a data package, a (descriptor, iterators) pair):
        # every value comes out as its text, a null stays a null (never the text 'None'), and the pipeline still validates
        from decimal import Decimal
        typed = [('t', [('a', 'integer'), ('b', 'number'), ('c', 'string')], [dict(a=1, b=Decimal('1.5'), c='x'), dict(a=None, b=None, c=None), dict(a=3, b=Decimal('2'), c='')])]
        with contextlib.redirect_stdout(io.StringIO()):
            DF.Flow(tuple_source(typed), DF.dump_to_path(os.path.join(root, 'typed'))).process()
        import warnings
        for kw in (dict(infer_strategy='strings', cast_strategy='strings'), dict(cast_strategy='strings'), dict(force_strings=True)):
            for kind in ('datapackage', 'tuple'):
                label = 'strings:%s' % ','.join('%s=%s' % kv for kv in sorted(kw.items()))
                try:
                    with contextlib.redirect_stdout(io.StringIO()), contextlib.redirect_stderr(io.StringIO()), warnings.catch_warnings():
                        warnings.simplefilter('ignore')
                        src = os.path.join(root, 'typed', 'datapackage.json') if kind == 'datapackage' else tuple_source(typed).load_source
                        ds = DF.Flow(DF.load(src, **kw)).datastream()
                        rows = [[dict(x) for x in r_] for r_ in ds.res_iter][0]
                        src = os.path.join(root, 'typed', 'datapackage.json') if kind == 'datapackage' else tuple_source(typed).load_source
                        DF.Flow(DF.load(src, **kw)).results()           # ... and results() validates them against the descriptor
                    want = [dict(a='1', b='1.5', c='x'), dict(a=None, b=None, c=None), dict(a='3', b='2', c=None if kind == 'datapackage' else '')]
                    ok = rows == want and all(type(v) in (str, type(None)) for r_ in rows for v in r_.values())
                    out.append(dict(sel=label, kind=kind, ok=ok, got=rows, want=want))
                except Exception as e:
                    out.append(dict(sel=label, kind=kind, ok=False, got='%s: %s' % (type(e).__name__, str(getattr(e, 'cause', e))[:100]), want='strings / nulls'))
    finally:
        shutil.rmtree(root, ignore_errors=True)
    return out


def validate(rep, recs):
    wd = tlc.workdir('c13t')
    tf = tlc.write_ndjson(os.path.join(wd, 'recs.ndjson'), recs)
    cfg = tlc.write_cfg(os.path.join(wd, 'tr.cfg'), spec='TSpec', constraints=['Verdict'])
    res = tlc.run_tlc('LoadTrace', cfg, workers=1, env={'TRACE_FILE': tf}, allow_violation=False, timeout=3000)
    rep.add_tlc(res, 'LoadTrace: %d random CSV files (independent writer) loaded for real' % len(recs))
    out = {v[0]: v[1] for v in res.tuples('VERDICT')}
    if len(out) != len(recs):
        raise tlc.MachineryError('LoadTrace: %d verdicts for %d files' % (len(out), len(recs)))
    return [out[i + 1] for i in range(len(recs))]


def run():
    rep = Report(PROP)
    t = rep.tier
    setup_repo()
    r = rng(PROP)
    cases, pv = model(rep, t)
    if t == 'quick':
        hdr = [c for c in cases if c['opts']['dedup'] or c['result']['rejected'] or len(c['tbl']) == 2 and len(c['tbl'][0]) == 3]
        rest = [c for c in cases if c not in hdr]
        r.shuffle(rest)
        r.shuffle(hdr)
        cases = hdr[:1500] + rest[:2500]
    items = [dict(case=c, variant=dict(strategy=r.choice(['strings', 'default']), name=r.random() < 0.2)) for c in cases]
    res = pmap(replay_case, items, chunksize=32)
    errs = harness_errors(res)
    if errs:
        raise tlc.MachineryError('harness error in load replay: ' + errs[0])
    for it, out in zip(items, res):
        rep.count(1, traces=1)
        rep.mark_distinct(dict(t=it['case']['tbl'], o=it['case']['opts'], v=it['variant']))
        if not out['ok']:
            c = it['case']
            rep.violation(it, dict(table=[[txt(x) for x in row] for row in c['tbl']], opts=c['opts'], variant=it['variant'],
                                   **{k: v for k, v in out.items() if k != 'ok'}), category='load/%s' % out['why'][:40])
        elif out.get('kf'):
            rep.known(out['kf'], 'load() guesses the CSV dialect', dict(table=[[txt(x) for x in row] for row in it['case']['tbl']], got=out['got']))
    rep.sample(dict(case=dict(table=[[txt(x) for x in row] for row in items[0]['case']['tbl']], opts=items[0]['case']['opts'])))
    if t == 'quick':
        r.shuffle(pv)
        pv = pv[:1500]
    pres = pmap(replay_policy, pv, chunksize=32)
    errs = harness_errors(pres)
    if errs:
        raise tlc.MachineryError('harness error in load policy replay: ' + errs[0])
    for c, out in zip(pv, pres):
        rep.count(1, traces=1)
        rep.mark_distinct(dict(p=c['tbl'], pol=c['policy']))
        if not out['ok']:
            rep.violation(c, dict(table=c['tbl'], policy=c['policy'], **{k: v for k, v in out.items() if k != 'ok'}), category='policy/%s/%s' % (c['policy'], out['why'][:40]))
    litems = [dict(limit_inference=True, k=k, n=n) for k in (1, 2, 5, 99, 100, 101) for n in sorted({1, k, k + 1, k + 2, k + 3})]
    for it, out in zip(litems, pmap(limit_inference_case, litems, chunksize=4)):
        if '__harness_error__' in out:
            raise tlc.MachineryError('harness error in limit / inference cases: ' + out['__harness_error__'])
        rep.count(1, traces=1)
        rep.mark_distinct(it)
        if not out['ok']:
            rep.violation(it, dict(case=it, **{k_: v for k_, v in out.items() if k_ != 'ok'}), category='limit-vs-inference/%s' % out['why'][:40])
    ritems = [dict(seed=r.randrange(10 ** 9)) for _ in range(300 if t == 'quick' else 6000)]
    recs = pmap(random_file, ritems, chunksize=16)
    errs = harness_errors(recs)
    if errs:
        raise tlc.MachineryError('harness error in random files: ' + errs[0])
    good = []
    for it, x in zip(ritems, recs):
        if 'raised' in x:
            rep.count(1, traces=1)
            # the known finding can also end in an error: under the GUESSED dialect the first line splits into cells that repeat, and load
            # rejects duplicate headers - recognised by exactly that: the third-party reader's own header row, read with the dialect it
            # guessed (not the default one), has duplicates and load's message quotes that header row
            differs, shdr, _ = sniffed_decode(txt(x['bytes']).encode('utf8'), x['strip'], x['limit'])
            if differs and shdr is not None and len(set(shdr)) != len(shdr) and 'Found duplicate headers' in x.get('cause', '') and ('found headers=%r' % shdr) in x.get('cause', ''):
                rep.known(KF_SNIFF, 'load() guesses the CSV dialect (the header row splits into repeating cells under the guessed dialect: duplicate headers)', dict(file=txt(x['bytes'])[:200]))
                continue
            rep.violation(it, dict(why='load raised on a well-formed file', raised=x['raised']), category='random/raised')
        else:
            good.append((it, x))
    verd = validate(rep, [x for _, x in good])
    # the binding binds: a recorded load with its last row removed must be rejected
    import copy
    probe = next((x for (_, x), ok in zip(good, verd) if ok and len(x['rows']) >= 2 and not x['limit']), None)
    if probe is not None:
        c1 = copy.deepcopy(probe)
        c1['rows'] = c1['rows'][:-1]
        if validate(rep, [c1])[0]:
            raise tlc.MachineryError('LoadTrace accepted a recorded load with a row removed: the trace spec does not bind')
        rep.notes['trace_binding_selftest'] = 'a recorded load result with its last row removed is rejected'
    for (it, x), ok in zip(good, verd):
        rep.count(1, traces=1)
        rep.mark_distinct(it)
        if not ok:
            data = txt(x['bytes']).encode('utf8')
            differs, shdr, srows = sniffed_decode(data, x['strip'], x['limit'])
            if differs and [[txt(c_) for c_ in r_] for r_ in x['rows']] == srows and [txt(n) for n in x['names']] == shdr:
                rep.known(KF_SNIFF, 'load() guesses the CSV dialect', dict(file=txt(x['bytes'])[:200]))
                continue
            rep.violation(it, dict(why='load() result differs from the specification reader applied to the file',
                                   file=txt(x['bytes'])[:300], strip=x['strip'], limit=x['limit'],
                                   loaded=[[txt(c_) for c_ in r_] for r_ in x['rows']][:6]), category='random/differs')
    xcases = model_extract(rep)
    if t == 'quick':
        r.shuffle(xcases)
        xcases = xcases[:800]
    for c, out in zip(xcases, pmap(replay_extract, xcases, chunksize=16)):
        if '__harness_error__' in out:
            raise tlc.MachineryError('harness error in extract_missing_values replay: ' + out['__harness_error__'])
        rep.count(1, traces=1)
        if not out.get('skipped'):
            rep.mark_distinct(dict(extract=c))
        if not out['ok']:
            rep.violation(dict(extract=c), dict(case=c, **{k: v for k, v in out.items() if k != 'ok'}), category='extract_missing_values/%s' % out['why'][:40])
    for s in selection_cases():
        rep.count(1, traces=1)
        rep.mark_distinct(s)
        if not s['ok']:
            rep.violation(s, dict(why='load(%s source, resources=%s) selected %s, expected %s' % (s['kind'], s['sel'], s['got'], s['want'])), category='selection/%s' % s['kind'])
    rep.assumptions += ['well-formed = rectangular, non-blank unique-or-renamable header names, no blank line, LF or CR LF line ends, LF allowed inside quoted cells',
                        'cell text is compared at string level (a null counts as the empty text); type inference itself is tableschema\'s and is not modelled']
    return rep.finish()


def replay(path):
    setup_repo()
    rec = json.load(open(path))
    if isinstance(rec.get('case'), dict) and 'extract' in rec['case']:
        out = replay_extract(rec['case']['extract'])
        print(out)
        if not out['ok']:
            print('VIOLATION property=%s replay=%s' % (PROP, path))
        return 0 if out['ok'] else 1
    c = rec['case']
    if c.get('limit_inference'):
        out = limit_inference_case(c)
    elif 'variant' in c:
        out = replay_case(c)
    elif 'policy' in c:
        out = replay_policy(c)
    else:
        print('random files / selection cases are re-derived by re-running the check')
        return 0
    print(json.dumps(out, default=str)[:1500])
    if not out['ok']:
        print('VIOLATION property=%s replay=%s' % (PROP, path))
        return 1
    return 0
