"""C02 - emitted rows always agree with the emitted descriptor.

Spec:   spec/Typing.tla: an abstract package (resources, fields with declared type and the set of value tags their cells
        may carry) and, per built-in step, the typing rule the code implements next to the value rule; TLC checks
        WellFormed (unique resource and field names, every tag admissible for the declared type) in every state reachable
        by programs of <= 3 steps, and shows that the historical rule "join's avg / median copy the source field's type"
        violates it.  Every explored program is exported with the descriptor the model predicts.
Bind:   each exported program runs on the real library: results() must not raise, one row stream per descriptor, unique
        names, every row key declared, every value null or castable by tableschema for the declared type (independent
        oracle), the descriptor a valid Data Package and equal to the model's; plus seeded random programs of up to 8
        steps over the full Menu and inputs of every inferable type.
"""
import contextlib
import datetime
import io
import json
import os
import shutil
import tempfile
from decimal import Decimal

from .. import tlc
from ..common import Report, pmap, harness_errors, rng, setup_repo, canon

PROP = 'C02'


def model(rep, t):
    wd = tlc.workdir('c02')
    depth = 2 if t == 'quick' else 3
    cfg = tlc.write_cfg(os.path.join(wd, 'ty.cfg'), constants={'Depth': depth, 'AvgDeclares': '"number"', 'ChainSees': 'TRUE', 'PkFollows': 'TRUE'}, invariants=['WellFormed'], constraints=['Export'])
    res = tlc.run_tlc('Typing', cfg, workers=1, allow_violation=False, timeout=6000)
    rep.add_tlc(res, 'Typing: WellFormed in every state of programs of <= %d steps over the abstract menu' % depth)
    cases = res.cases
    if t == 'quick':
        cfg = tlc.write_cfg(os.path.join(wd, 'ty3.cfg'), constants={'Depth': 3, 'AvgDeclares': '"number"', 'ChainSees': 'TRUE', 'PkFollows': 'TRUE'}, invariants=['WellFormed'])
        res3 = tlc.run_tlc('Typing', cfg, allow_violation=False, timeout=6000)
        rep.add_tlc(res3, 'Typing depth 3 (model level only)')
    cfg = tlc.write_cfg(os.path.join(wd, 'tyold.cfg'), constants={'Depth': 2, 'AvgDeclares': '"source"', 'ChainSees': 'TRUE', 'PkFollows': 'TRUE'}, invariants=['WellFormed'])
    old = tlc.run_tlc('Typing', cfg)
    if not old.violated:
        raise tlc.MachineryError('vacuity: Typing.tla with AvgDeclares="source" must violate WellFormed')
    cfg = tlc.write_cfg(os.path.join(wd, 'tychain.cfg'), constants={'Depth': 2, 'AvgDeclares': '"number"', 'ChainSees': 'FALSE', 'PkFollows': 'TRUE'}, invariants=['WellFormed'])
    if not tlc.run_tlc('Typing', cfg).violated:
        raise tlc.MachineryError('vacuity: Typing.tla with ChainSees=FALSE (a computed field does not see the fields computed before it in the same call) must violate WellFormed')
    cfg = tlc.write_cfg(os.path.join(wd, 'typk.cfg'), constants={'Depth': 2, 'AvgDeclares': '"number"', 'ChainSees': 'TRUE', 'PkFollows': 'FALSE'}, invariants=['WellFormed'])
    if not tlc.run_tlc('Typing', cfg).violated:
        raise tlc.MachineryError('vacuity: Typing.tla with PkFollows=FALSE (renaming / removing a key field leaves the primaryKey alone) must violate WellFormed')
    rep.notes['non_vacuity'] = 'with join avg/median declaring the source field type (pinned behaviour) TLC finds WellFormed violated'
    seen, out = set(), []
    for c in cases:
        k = canon([c['input'], c['prog']])
        if k not in seen:
            seen.add(k)
            out.append(c)
    return out


def real_step(s, first_name):
    import dataflows as DF
    from ..common import tuple_source
    k = s['k']
    if k == 'add_field':
        return DF.add_field('z', s['t'], 5 if s['t'] == 'integer' else 'd')
    if k == 'acf':
        op = s['op']
        if op == 'constant':
            return DF.add_computed_field(target='cf', operation='constant', with_='K')
        with_ = {'join': '-', 'format': '{%s}-x' % s['src'][0]}.get(op, '')
        return DF.add_computed_field(target='cf', operation=op, source=list(s['src']), with_=with_)
    if k == 'acf_chain':
        second = dict(target='cf2', operation=s['op2'], source=['cf', 'a'], **({'with_': '{cf}/{a}'} if s['op2'] == 'format' else {}))
        return DF.add_computed_field([dict(target='cf', operation='sum', source=list(s['first'])), second])
    if k == 'delete_b':
        return DF.delete_fields(['b'], resources=0)
    if k == 'select_a':
        return DF.select_fields(['a'])
    if k == 'rename_a':
        return DF.rename_fields({'a': 'A'}, resources=0)
    if k == 'rename_swap':
        return DF.rename_fields({'a': 'b', 'b': 'a'}, resources=0)
    if k == 'set_type_a_number':
        return DF.set_type('a', type='number', resources=None)
    if k == 'set_type_a_string':
        return DF.set_type('a', type='string', resources=None, transform=lambda v: None if v is None else str(v))
    if k == 'filter':
        return DF.filter_rows(condition=lambda r: r['a'] != 2)
    if k == 'sort':
        return DF.sort_rows('{a}')
    if k == 'dedup':
        return DF.Flow(DF.set_primary_key(['a']), DF.deduplicate())
    if k == 'duplicate':
        return DF.duplicate()
    if k == 'delete_first':
        return DF.delete_resource(0)
    if k == 'concatenate':
        return DF.concatenate(dict(a=[], b=[]), target=dict(name='cc'))
    if k == 'concat_ren':
        return DF.concatenate(dict(A=['a'], b=[]), target=dict(name='cr'))
    if k == 'concat_head':
        return DF.concatenate(dict(a=[], b=[]), target=dict(name='ch'), resources=0)
    if k == 'concat_tail':
        return DF.concatenate(dict(a=[], b=[]), target=dict(name='ch'), resources=-1)
    if k == 'source':
        return tuple_source([('extra', [('a', 'integer'), ('b', 'string')], [dict(a=9, b='n')])])
    if k == 'unpivot_b':
        return DF.unpivot([dict(name='b', keys=dict(k='b'))], [dict(name='k', type='string')], dict(name='v', type='string'), resources=0)
    if k == 'find_replace_b':
        return DF.find_replace([dict(name='b', patterns=[dict(find='x', replace='X')])], resources=0)
    if k == 'validate':
        return DF.validate()
    if k == 'to_int_clear':
        from dataflows.base import schema_validator as sv
        return DF.set_type('[bz]', type='integer', resources=0, on_error=sv.clear)
    if k == 'sql_flag':
        return DF.dump_to_sql({'t_res_1': {'resource-name': 'res_1'}}, engine='sqlite://', updated_column='_u')
    if k == 'rename_res':
        return DF.update_resource(0, name='rn')
    if k == 'set_pk_a':
        return DF.set_primary_key(['a'])
    if k == 'set_pk_ab':
        return DF.set_primary_key(['a', 'b'], resources=0)
    if k == 'join_rownum_full':
        return DF.join('res_1', '{#}', 'res_2', '{#}', {'j': dict(name='b', aggregate='first')}, mode='full-outer')
    if k == 'join':
        return DF.join('res_1', ['a'], 'res_2', ['a'], {'j': dict(name=s['f'], aggregate=s['agg'])})
    raise ValueError(k)


def check_output(ds_rows, desc):
    """the independent validity oracle; returns a list of problems"""
    from tableschema import Field
    import datapackage
    problems = []
    resources = desc.get('resources', [])
    names = [r['name'] for r in resources]
    if len(set(names)) != len(names):
        problems.append('resource names are not unique: %s' % names)
    if len(ds_rows) != len(resources):
        problems.append('%d row streams for %d resource descriptors' % (len(ds_rows), len(resources)))
    for r, rows in zip(resources, ds_rows):
        fdesc = (r.get('schema') or {}).get('fields')
        if not isinstance(fdesc, list):                     # total: a descriptor without a field list is itself a finding
            problems.append('resource %s has no field list in its descriptor' % r.get('name'))
            continue
        fnames = [f['name'] for f in fdesc]
        if len(set(fnames)) != len(fnames):
            problems.append('field names of %s are not unique: %s' % (r['name'], fnames))
        pk = r['schema'].get('primaryKey') or []
        gone = [k for k in ([pk] if isinstance(pk, str) else pk) if k not in fnames]
        if gone:
            problems.append('the primaryKey of %s names %s, which the schema does not declare (fields: %s)' % (r['name'], gone, fnames))
        try:
            from tableschema import Schema
            sch = Schema(r['schema'])
            if not sch.valid:
                problems.append('the schema of %s is not a valid Table Schema: %s' % (r['name'], str(sch.errors[0])[:120]))
        except Exception as e:                  # total
            problems.append('the schema of %s is rejected: %s' % (r.get('name'), str(e)[:120]))
        try:
            fields = {f['name']: Field(f, missing_values=r['schema'].get('missingValues', [''])) for f in fdesc}
            for fld in fields.values():
                fld.cast_value(None)            # an unknown / missing type shows here
        except Exception as e:                  # total: a field descriptor the schema library rejects is itself a finding
            problems.append('resource %s has an invalid field descriptor: %s: %s' % (r.get('name'), type(e).__name__, str(e)[:100]))
            continue
        for i, row in enumerate(rows):
            extra = [k for k in row if k not in fields]
            if extra:
                problems.append('%s row %d carries undeclared field(s) %s' % (r['name'], i, extra))
                break
            for k, v in row.items():
                if v is None:
                    continue
                try:
                    fields[k].cast_value(v)
                except Exception:
                    problems.append('%s row %d: %r is not valid for field %s of type %s' % (r['name'], i, v, k, fields[k].type))
                    break
            else:
                continue
            break
    try:
        if resources and not datapackage.Package(desc).valid:
            problems.append('descriptor is not a valid Data Package')
    except Exception as e:
        problems.append('descriptor rejected: %s' % str(e)[:100])
    return problems


def inputs(name):
    I0 = [dict(a=1, b='x', n=1), dict(a=2, b='y', n=1), dict(a=2, b=None, n=2), dict(a=3, b='x', n=5)]
    I1b = [dict(a=1, c=Decimal('1.5')), dict(a=3, c=Decimal('2')), dict(a=1, c=Decimal('4.5')), dict(a=2, c=Decimal('0.5'))]      # key 2 aggregates two source rows
    if name == 'I2':       # res_2's field a is a number here (res_1's is an integer)
        return [list(map(dict, I0)), [dict(a=Decimal('1.5'), c=Decimal('1.5')), dict(a=Decimal('3.25'), c=Decimal('2')), dict(a=Decimal('1'), c=Decimal('4.5'))]]
    return [list(map(dict, I0))] if name == 'I0' else [list(map(dict, I0)), list(map(dict, I1b))]


def replay_case(c):
    from dataflows import Flow
    setup_repo()
    srcs = inputs(c['input'])
    first = 'res_1'
    root = tempfile.mkdtemp(prefix='c02-', dir=tlc.WORK_ROOT)
    try:
        def links():
            out = []
            names = ['res_%d' % (i + 1) for i in range(len(srcs))]
            cur_first = names[0]
            if c['prog'] and c['prog'][0]['k'] == 'join':
                # the source field arrives with a constraint of its own: an aggregate (a sum, a count ...) is a NEW field and must
                # not inherit it, or valid aggregates become invalid values
                import dataflows as DF
                out.append(DF.set_type('a', resources=0, constraints=dict(maximum=3)))
                out.append(DF.set_type('b', resources=0, constraints=dict(maxLength=5)))
            for s in c['prog']:
                out.append(real_step(s, cur_first))
            return out
        with contextlib.redirect_stdout(io.StringIO()), contextlib.redirect_stderr(io.StringIO()):
            try:
                ds = Flow(*[list(map(dict, x)) for x in srcs], *links()).datastream()
                rows = [[dict(r) for r in res] for res in ds.res_iter]
                desc = ds.dp.descriptor
            except Exception as e:
                # every step's precondition (Typing!Enabled) holds and the input conforms: the pipeline has to run (on the current tree
                # every program of the model's universe does, in both tiers and under every seed tried)
                return dict(ok=False, why='a pipeline of built-in steps over conforming data raised %s: %s' % (type(e).__name__, str(getattr(e, 'cause', e))[:200]))
            problems = check_output(rows, desc)
            try:
                Flow(*[list(map(dict, x)) for x in srcs], *links()).results()
            except Exception as e:
                problems.append('results() fails: %s: %s' % (type(e).__name__, str(getattr(e, 'cause', e))[:150]))
        if problems:
            return dict(ok=False, why=problems[0], problems=problems[:4])
        got_names = [r['name'] for r in desc['resources']]
        got_fields = [[[f['name'], f['type']] for f in r['schema']['fields']] for r in desc['resources']]
        got_pks = [list(r['schema'].get('primaryKey') or []) for r in desc['resources']]
        if got_names != c['names'] or got_fields != c['fields'] or got_pks != [list(x) for x in c['pks']]:
            return dict(ok=True, drift='descriptor differs from Typing.tla', got=[got_names, got_fields, got_pks], want=[c['names'], c['fields'], c['pks']])
        return dict(ok=True)
    finally:
        shutil.rmtree(root, ignore_errors=True)


def random_program(item):
    """a random program over the full Menu; judged only if it runs (process() succeeds): then its output must be valid"""
    import random
    from dataflows import Flow
    from ..menu import menu, Tmp
    setup_repo()
    r = random.Random(item['seed'])
    root = tempfile.mkdtemp(prefix='c02r-', dir=tlc.WORK_ROOT)
    try:
        names = sorted(menu(Tmp(root)).keys())
        # observers and pure pass-throughs add nothing to C02: keep a few
        # steps whose precondition depends on the rest of the program (same-typed fields across resources, free names) are
        # explored by the model with their Enabled predicate; here every entry is used at most once
        names = [n for n in names if n not in ('concatenate', 'sources')]
        prog = r.sample(names, r.randint(1, 8))
        if 'rename_a' in prog and any(k in prog and prog.index('rename_a') < prog.index(k) for k in ('set_primary_key', 'deduplicate')):
            # set_primary_key(['a']) (on its own or inside the deduplicate entry) where the first resource has no field a any more: not a well-typed program
            return dict(ok=True, illtyped=True, prog=prog)
        typed = r.random() < 0.4
        if typed:
            srcs = [[dict(a=i, b='s%d' % i, c=Decimal(i) / 2, td=datetime.date(2020, 1, 1 + i), te=datetime.datetime(2020, 1, 1, i), tf=[i], tg=dict(k=i), th=(i % 2 == 0)) for i in range(4)],
                    [dict(a=i, c=Decimal(i)) for i in range(3)]]
        else:
            srcs = inputs('I1') if r.random() < 0.7 else [[dict(a=i % 3, b='s%d' % i) for i in range(150)], inputs('I1')[1]]

        def build():
            m = menu(Tmp(tempfile.mkdtemp(dir=root)))
            return [list(map(dict, x)) for x in srcs] + [m[n]() for n in prog]
        with contextlib.redirect_stdout(io.StringIO()), contextlib.redirect_stderr(io.StringIO()):
            try:
                ds = Flow(*build()).datastream()
                rows = [[dict(x) for x in res] for res in ds.res_iter]
                desc = ds.dp.descriptor
            except Exception:
                return dict(ok=True, illtyped=True, prog=prog)
            problems = check_output(rows, desc)
            try:
                Flow(*build()).results()
            except Exception as e:
                problems.append('results() fails although the pipeline runs: %s: %s' % (type(e).__name__, str(getattr(e, 'cause', e))[:150]))
        return dict(ok=not problems, prog=prog, typed=typed, why=problems[0] if problems else None, problems=problems[:4])
    finally:
        shutil.rmtree(root, ignore_errors=True)


# ---------------------------------------------------------------------------
# type inference of iterable sources: spec/Infer.tla

CLASS_VALUES = None


def class_values():
    import datetime
    from decimal import Decimal
    return {'str': ['x', 'hello'], 'bool': [True, False], 'int': [3, -1], 'float': [1.5, -2.25], 'dec': [Decimal('1.50')],
            'list': [[1, 'a'], []], 'dict': [{'k': 1}, {}], 'datetime': [datetime.datetime(2020, 1, 2, 3, 4, 5)], 'date': [datetime.date(2020, 1, 2)],
            'time': [datetime.time(1, 2, 3)], 'timedelta': [datetime.timedelta(days=1, seconds=5)], 'set': [{1, 2}], 'bytes': [b'xy'], 'none': [None]}


def model_infer(rep):
    wd = tlc.workdir('c02i')
    cfg = tlc.write_cfg(os.path.join(wd, 'inf.cfg'), constants={'UnknownCounts': 'TRUE'}, invariants=['InferredTypeAdmitsValues'], constraints=['Export'])
    res = tlc.run_tlc('Infer', cfg, workers=1, allow_violation=False)
    rep.add_tlc(res, 'Infer: every non-empty set of 14 Python value classes as a sample column: the inferred type admits every value (UnknownCounts = TRUE, the code)')
    cfg = tlc.write_cfg(os.path.join(wd, 'inf0.cfg'), constants={'UnknownCounts': 'FALSE'}, invariants=['InferredTypeAdmitsValues'])
    if not tlc.run_tlc('Infer', cfg).violated:
        raise tlc.MachineryError('non-vacuity: Infer with UnknownCounts=FALSE (the pinned classifier) must violate InferredTypeAdmitsValues')
    cfg = tlc.write_cfg(os.path.join(wd, 'inf1.cfg'), constants={'UnknownCounts': 'FALSE'}, invariants=['PinnedWrongOnlyWhenMixedWithUnknown'])
    r1 = tlc.run_tlc('Infer', cfg, allow_violation=False)
    rep.add_tlc(r1, 'Infer: the pinned classifier is wrong only when one known type is mixed with values of a class it does not know')
    return res.cases


def infer_case(c):
    """a sample column whose values have exactly the classes of the case, as an iterable source (each order of first appearance)"""
    from dataflows import Flow
    from tableschema import Field
    setup_repo()
    vals = class_values()
    classes = sorted(c['col'])
    problems = []
    import itertools
    for order in itertools.permutations(classes):
        rows = [dict(id=i, v=x) for i, x in enumerate([y for cl in order for y in vals[cl]])]
        try:
            with contextlib.redirect_stdout(io.StringIO()), contextlib.redirect_stderr(io.StringIO()):
                res, dp, _ = Flow([dict(r_) for r_ in rows]).results()
        except Exception as e:
            problems.append('results() raises for a column of %s: %s' % (list(order), str(getattr(e, 'cause', e))[:120]))
            continue
        fd = [f for f in dp.descriptor['resources'][0]['schema']['fields'] if f['name'] == 'v'][0]
        if fd['type'] != c['type']:
            problems.append('declared type %s, the model says %s (column %s)' % (fd['type'], c['type'], list(order)))
        f = Field(fd)
        for r_ in res[0]:
            try:
                f.cast_value(r_['v'])
            except Exception:
                problems.append('value %r is not valid for the declared type %s' % (r_['v'], fd['type']))
        if len(res[0]) != len(rows):
            problems.append('rows lost')
    return dict(ok=not problems, problems=problems[:4], why=(problems[0][:60] if problems else ''))


def run():
    rep = Report(PROP)
    t = rep.tier
    setup_repo()
    r = rng(PROP)
    cases = model(rep, t)
    if t == 'thorough' and len(cases) > 12000:
        r.shuffle(cases)
        cases = cases[:12000]
    res = pmap(replay_case, cases, chunksize=8)
    errs = harness_errors(res)
    if errs:
        raise tlc.MachineryError('harness error in typing replay: ' + errs[0])
    for c, out in zip(cases, res):
        rep.count(1, traces=1)
        rep.mark_distinct(dict(i=c['input'], p=c['prog']))
        if not out['ok'] and out.get('drift'):
            rep.model_drift(out['why'], dict(input=c['input'], prog=c['prog']))
        elif not out['ok']:
            rep.violation(c, dict(input=c['input'], program=c['prog'], **{k: v for k, v in out.items() if k != 'ok'}),
                          category='model-program/%s' % out['why'][:50])
        elif out.get('drift'):
            rep.model_drift(out['drift'], dict(input=c['input'], prog=c['prog'], got=out['got'], want=out['want']))
    rep.sample(dict(program=cases[len(cases) // 2]))
    icases = model_infer(rep)
    ires = pmap(infer_case, icases, chunksize=16)
    errs = harness_errors(ires)
    if errs:
        raise tlc.MachineryError('harness error in inference replay: ' + errs[0])
    for c, out in zip(icases, ires):
        rep.count(1, traces=1)
        rep.mark_distinct(dict(infer=c['col']))
        if not out['ok']:
            rep.violation(dict(infer=c), dict(column_classes=c['col'], model_type=c['type'], problems=out['problems']), category='inference/%s' % out['why'])
    ritems = [dict(seed=r.randrange(10 ** 9)) for _ in range(1200 if t == 'quick' else 20000)]
    rres = pmap(random_program, ritems, chunksize=8)
    errs = harness_errors(rres)
    if errs:
        raise tlc.MachineryError('harness error in random programs: ' + errs[0])
    ran = 0
    for it, out in zip(ritems, rres):
        rep.count(1, traces=1)
        if out.get('illtyped'):
            continue
        ran += 1
        rep.mark_distinct(dict(p=out['prog'], t=out.get('typed')))
        if not out['ok']:
            rep.violation(it, dict(program=out['prog'], typed_input=out.get('typed'), problems=out['problems']),
                          category='menu-program/%s' % out['why'][:50])
    rep.notes['random_programs_that_ran'] = ran
    rep.assumptions += ['validity of a value for a declared type = tableschema.Field(descriptor).cast_value succeeds (castability, not Python type)',
                        'a random Menu program is judged only if it runs through datastream() (otherwise a step precondition failed: ill-typed)']
    return rep.finish(exhaustive=(t == 'thorough'))


def replay(path):
    setup_repo()
    rec = json.load(open(path))
    c = rec['case']
    out = infer_case(c['infer']) if 'infer' in c else replay_case(c) if 'prog' in c else random_program(c)
    print(json.dumps(out, default=str)[:1500])
    if not out['ok'] and not out.get('drift'):
        print('VIOLATION property=%s replay=%s' % (PROP, path))
        return 1
    return 0
