"""C06 - row-wise pipelines stream with bounded look-ahead.

Spec:   spec/Engine.tla (pulled / maxLook counters; BoundedLookahead for every program without a buffering step, the
        sort step as the intended non-example), spec/LookaheadTrace.tla (the invariant on recorded long runs)
Bind:   real row-wise pipelines built from the Menu's non-buffering steps over counted sources of 300..100000 rows
        (iterable sources and load(csv)); the deliveries observed at the end of the pipeline are validated by TLC;
        the maximum must not depend on the stream length.
"""
import contextlib
import io
import json
import os
import shutil
import sys
import tempfile

from .. import tlc, engine
from ..common import Report, pmap, harness_errors, rng, setup_repo

PROP = 'C06'

NONBUF = ['add_field', 'add_field_fn', 'acf_sum', 'acf_format', 'acf_constant', 'delete_fields_b', 'select_fields_a',
          'rename_a', 'find_replace_b', 'set_type_a_number', 'validate', 'update_schema', 'set_primary_key',
          'update_resource', 'update_package', 'filter_fn', 'filter_eq', 'unpivot', 'printer', 'dump_to_path',
          'dump_to_zip', 'stream', 'checkpoint', 'finalizer', 'update_stats', 'row_inplace', 'row_new', 'rows_gen',
          'pkg_fn', 'deduplicate', 'concatenate', 'dump_to_path_json', 'set_type_a_string']
SRC_AHEAD = 100        # the inference sample (100 rows) and the table reader's own pre-read (100 rows) overlap: <= 100
LOAD_SAMPLE = 1000     # load(): tabulator sample_size default


def model(rep, t):
    wd = tlc.workdir('c06')
    kinds = ['src', 'map', 'filter', 'del', 'obs', 'fin', 'cat']
    for sample, ahead in ((1, 3), (3, 1), (2, 2)):
        cfg = tlc.write_cfg(os.path.join(wd, 'mc%d%d.cfg' % (sample, ahead)), constants={
            'MaxLen': 3 if t == 'quick' else 4, 'Sample': sample, 'Ahead': ahead, 'SwallowCast': 'FALSE',
            'SrcRows': '<- SrcRowsLong', 'Kinds': '{' + ', '.join('"%s"' % k for k in kinds) + '}'},
            invariants=['BoundedLookahead', 'LazyEqualsEager', 'NoDeadlock'])
        res = tlc.run_tlc('Engine', cfg, allow_violation=False, timeout=6000)
        rep.add_tlc(res, 'Engine Sample=%d Ahead=%d SrcRowsLong non-buffering kinds: BoundedLookahead' % (sample, ahead))
    cfg = tlc.write_cfg(os.path.join(wd, 'mcs.cfg'), constants={
        'MaxLen': 2, 'Sample': 1, 'Ahead': 2, 'SwallowCast': 'FALSE', 'SrcRows': '<- SrcRowsLong',
        'Kinds': '{"src", "map", "sort"}'}, invariants=['LookBoundEvenWhenBuffering'])
    res = tlc.run_tlc('Engine', cfg, timeout=3000)
    if res.violated != 'LookBoundEvenWhenBuffering':
        raise tlc.MachineryError('vacuity: with a sort step the read-ahead bound must be exceeded in the model')
    rep.notes['non_vacuity'] = 'with a buffering (sort) step TLC finds the read-ahead bound exceeded, as intended'


def run_long(item):
    """item: prog (menu names), n, source ('iterable'|'csv'), id"""
    from dataflows import Flow
    import dataflows as DF
    from ..menu import menu, Tmp
    root = tempfile.mkdtemp(prefix='c06-', dir=tlc.WORK_ROOT)
    try:
        tmp = Tmp(root)
        m = menu(tmp)
        m['dump_to_path_json'] = lambda: DF.dump_to_path(tmp.new(), format='json')
        n = item['n']
        pulled = [0]
        obs = []
        state = {'max': -1, 'cnt': 0, 'last': None}
        if item['source'] == 'three_iterables':
            # three counted sources; the middle one is deleted, the outer two are concatenated: the rows of the later resources are
            # pulled when their turn comes, not when the concatenation starts (row numbers k run over all three sources)
            def gen3(j):
                for i in range(n):
                    pulled[0] += 1
                    yield dict(a=i % 3, b='s%d' % i, k=j * n + i + 1)
            src = None
            multi = [gen3(0), gen3(1), gen3(2), DF.delete_resource('res_2'), DF.concatenate(dict(a=[], b=[], k=[]), resources=['res_1', 'res_3'])]
        elif item['source'].startswith('iterable'):
            late = item['source'] == 'iterable_latecol'     # a column that stays empty far beyond the inference sample

            def gen():
                for i in range(n):
                    pulled[0] += 1
                    yield dict(a=i % 3, b='s%d' % i, k=i + 1, **({'late': None if i < n * 3 // 4 else 'v'} if late else {}))
            src = gen()
            if item['source'] == 'iterable_sized':
                # a lazily iterated collection that also knows its length (a result set, a query, a file-backed table)
                class Sized:
                    def __len__(self):
                        return n

                    def __iter__(self):
                        return gen()
                src = Sized()
        else:
            path = os.path.join(root, 'in.csv')
            with open(path, 'w') as f:
                f.write('a,b,k\n')
                for i in range(n):
                    f.write('%d,s%d,%d\n' % (i % 3, i, i + 1))
            loadmod = sys.modules['dataflows.processors.load']
            Base = loadmod.Stream

            class CountingStream(Base):
                # counts the rows the parser has handed out: the sample taken in open() + everything read afterwards
                def open(self):
                    r = super().open()
                    parser = self._Stream__parser
                    pulled[0] += len(self._Stream__sample_extended_rows)
                    inner = parser._CSVParser__extended_rows

                    def counting():
                        for x in inner:
                            pulled[0] += 1
                            yield x
                    parser._CSVParser__extended_rows = counting()
                    return r
            loadmod.Stream = CountingStream
            # a row cap far above / at half of the file length must not change how far load reads ahead
            src = DF.load(path, **({'limit_rows': 10 ** 6} if item['source'] == 'csv_limit' else {'limit_rows': n // 2} if item['source'] == 'csv_half' else {}))

        def sink(rows):
            for row in rows:
                k = int(row['k'])
                la = pulled[0] - k
                state['cnt'] += 1
                if la > state['max'] or state['cnt'] % 1000 == 0:
                    state['max'] = max(state['max'], la)
                    obs.append([k, pulled[0]])
                state['last'] = [k, pulled[0]]
                yield row
                if item.get('head') and state['cnt'] >= item['head']:
                    return          # a consumer that stops reading this resource early: nothing more may be pulled for it
        links = ([src] if src is not None else multi) + [m[x]() for x in item['prog']] + [sink]
        try:
            with contextlib.redirect_stdout(io.StringIO()), contextlib.redirect_stderr(io.StringIO()):
                Flow(*links).process()
        finally:
            if item['source'].startswith('csv'):
                loadmod.Stream = Base
        if state['last'] and (not obs or obs[-1] != state['last']):
            obs.append(state['last'])
        # ... unless an observer sits in front of the consumer: a dumper / stream / checkpoint has to persist the COMPLETE stream (C05),
        # so it reads the rest of the resource itself (and throws it away row by row: nothing is buffered)
        has_observer = any(x.startswith(('dump_to_', 'stream', 'checkpoint')) for x in item['prog'])
        if item.get('head') and not has_observer and state['cnt'] >= item['head'] and obs[-1] != [state['last'][0], pulled[0]]:      # (only when the consumer itself stopped: a filter that finds no further row reads on)
            obs.append([state['last'][0], pulled[0]])        # what had been pulled when the run was over, against the last row delivered
        return dict(id=item['id'], n=n, obs=obs)
    finally:
        shutil.rmtree(root, ignore_errors=True)


def bound_of(item):
    """K(program): from the program only"""
    if item['source'] == 'three_iterables':
        return 3 * SRC_AHEAD - 1          # three sources: three inference samples are taken before the first row is delivered
    if item['source'].startswith('iterable'):
        return SRC_AHEAD - 1
    return LOAD_SAMPLE


def programs(r, t):
    progs = [[x] for x in NONBUF]
    for _ in range(25 if t == 'quick' else 150):
        k = r.randint(2, 6)
        p = []
        for _ in range(k):
            x = r.choice(NONBUF)
            p.append(x)
        progs.append(p)
    return progs


def dry_run(item):
    """well-typedness of a program on this source kind = it runs on 5 rows"""
    try:
        run_long(dict(item, n=5))
        return dict(ok=True)
    except Exception as e:
        return dict(ok=False, why=type(e).__name__)


def run():
    rep = Report(PROP)
    t = rep.tier
    setup_repo()
    r = rng(PROP)
    model(rep, t)
    sizes = (300, 3000) if t == 'quick' else (1000, 100000)
    progs = programs(r, t)
    cands = [dict(id='x', prog=p, source=source) for i, p in enumerate(progs) for source in (['iterable', 'iterable_sized'] if i % 3 == 1 else ['iterable_latecol'] if i % 3 == 2 else ['iterable', 'csv', 'csv_limit' if i % 2 else 'csv_half'])]
    okres = pmap(dry_run, cands, chunksize=2)
    cands = [c for c, o in zip(cands, okres) if o.get('ok')]
    rep.notes['programs_welltyped'] = len(cands)
    items = []
    for i, c in enumerate(cands):
        p = c['prog']
        for source in [c['source']]:
            # deduplicate on key a keeps 3 rows, filter_eq keeps a third: fine, deliveries are what is observed
            for n in sizes:
                if source.startswith('csv'):
                    n = {300: 3000, 3000: 9000, 1000: 5000, 100000: 50000}[n]
                items.append(dict(id='%d-%s-%d' % (i, source, n), pid='%d-%s' % (i, source), prog=p, n=n, source=source))
    # a consumer that reads only the first rows of the resource (rows are pulled only as rows are delivered - also when delivery stops)
    for it in [x for x in items if x['source'] == 'iterable'][::3]:
        items.append(dict(it, id=it['id'] + '-head', pid=it['pid'] + '-head', head=5))
    for j, p in enumerate(([], ['add_field'], ['filter_fn'], ['dump_to_path'])):
        for n in sizes:
            items.append(dict(id='m%d-three-%d' % (j, n), pid='m%d-three' % j, prog=p, n=n, source='three_iterables'))
    for j, p in enumerate((['stream'], ['checkpoint'], ['dump_to_path'], ['dump_to_zip'], ['printer'], ['set_type_a_number', 'stream'], ['filter_fn', 'checkpoint'])):
        for n in sizes:
            items.append(dict(id='h%d-iterable-%d-head' % (j, n), pid='h%d-iterable-head' % j, prog=p, n=n, source='iterable', head=5))
    items = {it['id']: it for it in items}.values()
    items = list(items)
    runs = pmap(run_long, items, chunksize=1)
    errs = harness_errors(runs)
    if errs:
        raise tlc.MachineryError('harness error in long runs: ' + errs[0])
    recs = []
    for it, run_ in zip(items, runs):
        recs.append(dict(id=it['id'], n=it['n'] * (3 if it['source'] == 'three_iterables' else 1), bound=bound_of(it), obs=run_['obs']))
    wd = tlc.workdir('c06t')
    tf = tlc.write_ndjson(os.path.join(wd, 'runs.ndjson'), recs)
    cfg = tlc.write_cfg(os.path.join(wd, 'la.cfg'), invariants=[], constraints=['Verdict'])
    res = tlc.run_tlc('LookaheadTrace', cfg, workers=1, env={'TRACE_FILE': tf}, allow_violation=False, timeout=3000)
    rep.add_tlc(res, 'LookaheadTrace: %d long runs' % len(recs))
    verd = {v[0]: v for v in res.tuples('VERDICT')}
    if len(verd) != len(recs):
        raise tlc.MachineryError('LookaheadTrace: %d verdicts for %d runs' % (len(verd), len(recs)))
    maxima = {}
    for i, (it, rec) in enumerate(zip(items, recs)):
        v = verd[i + 1]
        rep.count(1, traces=1)
        rep.mark_distinct(dict(p=it['prog'], s=it['source'], n=it['n']))
        if not v[2] or not v[3]:
            rep.violation(it, dict(program=it['prog'], source=it['source'], n=it['n'], max_read_ahead=v[1], bound=rec['bound'],
                                   causal=v[3], deliveries=rec['obs'][:5]), category='lookahead/%s' % '+'.join(it['prog'])[:60])
        if rec['obs']:
            maxima.setdefault(it['pid'], {})[it['n']] = v[1]
    # size independence
    for pid, mm in maxima.items():
        if len(mm) == 2:
            (n1, a), (n2, b) = sorted(mm.items())
            if a != b and n1 > 2 * max(a, b):
                it = [x for x in items if x['pid'] == pid][0]
                rep.violation(dict(it, sizes=[n1, n2]), dict(program=it['prog'], source=it['source'], why='read-ahead grows with the stream length',
                                                            maxima={str(n1): a, str(n2): b}), category='size-dependent/%s' % '+'.join(it['prog'])[:60])
    rep.sample(dict(long_run=dict(program=items[0]['prog'], n=items[0]['n'], source=items[0]['source'], deliveries=recs[0]['obs'][:6])))
    rep.notes['read_ahead_maxima'] = {pid: mm for pid, mm in list(maxima.items())[:12]}
    rep.assumptions += ['K(program) = 99 for iterable sources (100-row inference sample; the table reader pre-reads the same 100 rows), 1000 for load() (its sample_size default); the file dumpers, stream and checkpoint add nothing (they write row by row)',
                        'deliveries are observed by a rows-function at the end of the pipeline; the source counts the rows handed to the loader']
    return rep.finish()


def replay(path):
    setup_repo()
    rec = json.load(open(path))
    c = rec['case']
    run_ = run_long(c)
    mx = max([o[1] - o[0] for o in run_['obs']] or [0])
    print(dict(max_read_ahead=mx, bound=bound_of(c)))
    if mx > bound_of(c):
        print('VIOLATION property=%s replay=%s' % (PROP, path))
        return 1
    return 0
