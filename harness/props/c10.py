"""C10 - resource selectors mean the same thing in every processor.

Spec:   spec/Regex.tla, spec/Selector.tla, spec/MC_Selector.tla
Model:  TLC enumerates every (package, selector, step kind) of the bounded universe, checks
        FormsOK / Frame / Effect / UniqueNames on every step (and on 2-step programs), and
        exports one CASE per first step with the set `Selected` the specification prescribes.
Bind:   every exported case is replayed into each of the selector-taking processors; the set of
        resources the real step changed must equal Selected, every other resource must be
        identical (descriptor and rows); 2-step programs are composed from the exported table.
"""
import os
import signal
import sys
import tempfile
import shutil

from .. import tlc
from ..common import Report, pmap, harness_errors, rng, tier, setup_repo, digest

PROP = 'C10'

# ---------------------------------------------------------------------------
# abstract -> concrete


def name_of(chars):
    return ''.join(chars)


def render_re(re, ctx=0):
    """AST -> pattern text with minimal parentheses (what a user writes). ctx: 0 alt, 1 cat, 2 star operand."""
    t = re['t']
    if t == 'lit':
        c = re['c']
        return '\\' + c if c in '.|()*+?[]\\^$' else c
    if t == 'dot':
        return '.'
    if t == 'eps':
        return ''
    if t == 'alt':
        s = render_re(re['l'], 0) + '|' + render_re(re['r'], 0)
        return '(' + s + ')' if ctx > 0 else s
    if t == 'cat':
        s = render_re(re['l'], 1) + render_re(re['r'], 1)
        return '(' + s + ')' if ctx > 1 else s
    if t == 'star':
        inner = render_re(re['l'], 2)
        if re['l']['t'] == 'star':
            inner = '(' + inner + ')'        # 'x**' is not a pattern; a user writes '(x*)*'
        return inner + '*'
    if t == 'grp':
        return '(' + render_re(re['l'], 0) + ')'
    raise ValueError(re)


def py_selector(sel):
    k = sel['k']
    if k == 'none':
        return None
    if k == 're':
        return render_re(sel['re'])
    if k == 'list':
        return [name_of(n) for n in sel['ns']]
    if k == 'int':
        return sel['i']
    raise ValueError(sel)


def base_resources(names, pk=True):
    out = []
    for i, n in enumerate(names):
        rows = [dict(a=1, b='x', rid=i), dict(a=2, b='y', rid=i), dict(a=1, b='x', rid=i)]
        out.append((n, [('a', 'integer'), ('b', 'string'), ('rid', 'integer')], rows, ['a'] if pk else None))
    return out


def _row_func_par(row):
    row['b'] = 'P'


class SideChannel:
    def __init__(self):
        self.names = set()
        self.rids = set()


def make_step(proc, sel, side):
    import dataflows as DF
    if proc == 'add_computed_field':
        return DF.add_computed_field(target='z', operation='constant', with_='c', resources=sel)
    if proc == 'add_field':
        return DF.add_field('z', 'string', 'd', resources=sel)
    if proc == 'delete_fields':
        return DF.delete_fields(['b'], resources=sel)
    if proc == 'rename_fields':
        return DF.rename_fields({'b': 'bb'}, resources=sel)
    if proc == 'select_fields':
        return DF.select_fields(['a', 'rid'], resources=sel)
    if proc == 'find_replace':
        return DF.find_replace([dict(name='b', patterns=[dict(find='x', replace='q')])], resources=sel)
    if proc == 'deduplicate':
        return DF.deduplicate(resources=sel)
    if proc == 'filter_rows':
        return DF.filter_rows(equals=[dict(a=1)], resources=sel)
    if proc == 'sort_rows':
        return DF.sort_rows('{a}', resources=sel, reverse=True)
    if proc == 'unpivot':
        return DF.unpivot([dict(name='b', keys=dict(k='b'))], [dict(name='k', type='string')],
                          dict(name='v', type='string'), resources=sel)
    if proc == 'set_type':
        # with a transform, so that the rows a set_type touches are visibly different (not merely an equal number of another class)
        return DF.set_type('a', type='number', resources=sel, transform=lambda v: None if v is None else v + 100)
    if proc == 'set_primary_key':
        return DF.set_primary_key(['b'], resources=sel)
    if proc == 'update_resource':
        return DF.update_resource(sel, title='T')
    if proc == 'update_schema':
        return DF.update_schema(sel, verifmark='m')
    if proc == 'validate':
        def v(row):
            side.rids.add(row['rid'])
            return True
        return DF.validate(v, resources=sel)
    if proc == 'validate_schema':
        return DF.validate(resources=sel, on_error=lambda *a: side.rids.add('err') or True)
    if proc == 'printer':
        return DF.printer(resources=sel, header_print=lambda h, kw: side.names.add(h),
                          table_print=lambda d, kw: None)
    if proc == 'parallelize':
        return DF.parallelize(_row_func_par, num_processors=1, resources=sel)
    if proc == 'delete_resource':
        return DF.delete_resource(sel)
    if proc == 'concatenate':
        return DF.concatenate(dict(a=[], b=[], rid=[]), target=dict(name='ba'), resources=sel)
    raise ValueError(proc)


TOUCH = ['add_computed_field', 'add_field', 'delete_fields', 'rename_fields', 'select_fields', 'find_replace',
         'deduplicate', 'filter_rows', 'sort_rows', 'unpivot', 'set_type', 'set_primary_key', 'update_resource',
         'update_schema', 'validate', 'printer', 'parallelize']
SIDE = {'validate', 'printer'}           # effect observed through a side channel, rows/descriptor unchanged
SLOW = {'parallelize'}


class Timeout(Exception):
    pass


def _alarm(sig, frm):
    raise Timeout()


def results_of(steps):
    from dataflows import Flow
    res, dp, _ = Flow(*steps).results()
    return [(r['name'], r, rows) for r, rows in zip(dp.descriptor['resources'], res)]


_baseline_cache = {}


def baseline(names):
    key = tuple(names)
    if key not in _baseline_cache:
        from ..common import tuple_source
        _baseline_cache[key] = results_of([tuple_source(base_resources(names))])
        if len(_baseline_cache) > 2000:
            _baseline_cache.clear()
    return _baseline_cache[key]


def run_case(item):
    """item = (case, proc).  Returns dict(ok, why, observed)."""
    case, proc = item
    # "<proc>@reuse": the very same step object has been used before, in another Flow over a package whose resources sit at other
    # positions (names rotated) - a selector means the same thing every time the step is used, nothing may stick to the object
    reuse = proc.endswith('@reuse')
    proc = proc[:-6] if reuse else proc
    from ..common import tuple_source
    names = [name_of(n) for n in case['names']]
    sel = py_selector(case['sel'])
    selected = [p - 1 for p in case['selected']]          # 0-based positions
    base = baseline(names)
    side = SideChannel()
    kind = case['kind']
    signal.signal(signal.SIGALRM, _alarm)
    signal.alarm(60)
    try:
        if kind == 'load':
            if proc == 'load_tuple':
                from dataflows import load
                src = tuple_source(base_resources(names))
                step = load(src.load_source, resources=sel)
                got = results_of([step])
            else:
                from dataflows import load
                d = pkg_on_disk(names)
                got = results_of([load(os.path.join(d, 'datapackage.json'), resources=sel, strip=False)])
                base = baseline_disk(names)
        else:
            step = make_step(proc, sel, side)
            if reuse:
                other = names[1:] + names[:1] if len(names) > 1 else ['zzz'] + names
                try:
                    results_of([tuple_source(base_resources(other)), step])
                except Exception:
                    pass            # e.g. concatenate over a selection that is not consecutive there
                side.names.clear()
                side.rids.clear()
            got = results_of([tuple_source(base_resources(names)), step])
    except Timeout:
        return dict(ok=False, why='timeout (60 s) running the step', observed=None)
    except Exception as e:
        return dict(ok=False, why='raised %s: %s' % (type(e).__name__, str(e)[:200]), observed=None,
                    exc=type(e).__name__)
    finally:
        signal.alarm(0)

    bynames = {n: (d, r) for n, d, r in base}
    if kind == 'touch':
        if [g[0] for g in got] != names:
            return dict(ok=False, why='resource list changed', observed=[g[0] for g in got])
        if proc in SIDE:
            changed_rows = [i for i, (n, d, r) in enumerate(got) if (d, r) != bynames[n]]
            if changed_rows:
                return dict(ok=False, why='pass-through processor altered resources', observed=changed_rows)
            if proc == 'printer':
                changed = sorted(i for i, n in enumerate(names) if n in side.names)
            else:
                changed = sorted(side.rids)
        else:
            changed = [i for i, (n, d, r) in enumerate(got) if (d, r) != bynames[n]]
        if changed != selected:
            return dict(ok=False, why='changed set differs from Selected', observed=changed)
        return dict(ok=True)
    if kind in ('delete', 'load'):
        exp = [name_of(p['name']) for p in case['post']]
        if [g[0] for g in got] != exp:
            return dict(ok=False, why='surviving resources differ', observed=[g[0] for g in got],
                        observed_idx=[names.index(g[0]) for g in got if g[0] in names])
        for n, d, r in got:
            if (d, r) != bynames[n]:
                return dict(ok=False, why='surviving resource %s altered' % n, observed=n)
        return dict(ok=True)
    if kind == 'concat':
        exp = [name_of(p['name']) for p in case['post']]
        if [g[0] for g in got] != exp:
            return dict(ok=False, why='resources after concatenate differ', observed=[g[0] for g in got])
        for n, d, r in got:
            if n == 'ba':
                want = [dict(a=x['a'], b=x['b'], rid=x['rid']) for i in selected for x in base[i][2]]
                if r != want:
                    return dict(ok=False, why='concatenated rows are not the selected resources rows', observed=len(r))
            elif (d, r) != bynames[n]:
                return dict(ok=False, why='non-selected resource %s altered' % n, observed=n)
        return dict(ok=True)
    raise ValueError(kind)


_disk = {}
_disk_root = None


def pkg_on_disk(names):
    global _disk_root
    key = tuple(names)
    if key not in _disk:
        if _disk_root is None:
            _disk_root = tempfile.mkdtemp(prefix='c10-%d-' % os.getpid(), dir=tlc.WORK_ROOT)
            import atexit
            atexit.register(shutil.rmtree, _disk_root, True)
        d = os.path.join(_disk_root, digest(list(names)))
        from dataflows import Flow, dump_to_path
        from ..common import tuple_source
        Flow(tuple_source(base_resources(names, pk=False)), dump_to_path(d)).process()
        _disk[key] = d
    return _disk[key]


_bdisk = {}


def baseline_disk(names):
    key = tuple(names)
    if key not in _bdisk:
        from dataflows import load
        _bdisk[key] = results_of([load(os.path.join(pkg_on_disk(names), 'datapackage.json'), strip=False)])
    return _bdisk[key]


def run_program(item):
    """Two chained steps; expectation composed from the exported single-step table."""
    names, s1, s2 = item['names'], item['s1'], item['s2']
    from ..common import tuple_source
    import dataflows as DF
    side = SideChannel()

    def mk(s):
        sel = py_selector(s['sel'])
        if s['kind'] == 'dup':
            return DF.duplicate(s['src'], s['dst'])
        if s['kind'] == 'addall':
            # a field zA added to EVERY resource by one step - in each of the ways a built-in step adds fields to several resources
            how = s.get('how', 'add_field')
            if how == 'acf_dict':
                return DF.add_computed_field(target=dict(name='zA', type='string'), operation='constant', with_='A')
            if how == 'acf_str':
                return DF.add_computed_field(target='zA', operation='format', with_='{b}')
            if how == 'update_schema':        # the whole field list given once, for every resource (zA is new: its cells are nulls)
                return DF.update_schema(None, fields=[dict(name='a', type='integer'), dict(name='b', type='string'), dict(name='rid', type='integer'),
                                                      dict(name='zA', type='string')])
            if how == 'update_resource':
                return DF.update_resource(None, schema=dict(fields=[dict(name='a', type='integer'), dict(name='b', type='string'), dict(name='rid', type='integer'),
                                                                    dict(name='zA', type='string')], primaryKey=['a']))
            if how == 'unpivot':
                return DF.unpivot([dict(name='b', keys=dict(k='b'))], [dict(name='k', type='string')], dict(name='zA', type='string'))
            return DF.add_field('zA', 'string', 'A')
        if s['kind'] == 'retype':
            return DF.set_type('zA', type='any', resources=sel)
        if s['kind'] == 'delete':
            return DF.delete_resource(sel)
        return DF.add_field('zA', 'string', 'A', resources=sel) if s['marker'] == 'A' else DF.update_resource(sel, title='B')
    try:
        got = results_of([tuple_source(base_resources(names)), mk(s1), mk(s2)])
    except Exception as e:
        return dict(ok=False, why='raised %s: %s' % (type(e).__name__, str(e)[:200]))
    gnames = [g[0] for g in got]
    if gnames != item['exp_names']:
        return dict(ok=False, why='resource list after program differs', observed=gnames)
    if s1['kind'] == 'dup' and s1['dst'] in gnames:
        # the copy is an exact copy of the original whatever happens to the original afterwards
        want = [dict(a=1, b='x', rid=0), dict(a=2, b='y', rid=0), dict(a=1, b='x', rid=0)]
        rows = [{k: v for k, v in r.items() if k in ('a', 'b', 'rid')} for n, d, r_ in got if n == s1['dst'] for r in r_]
        if rows != want:
            return dict(ok=False, why='the duplicated resource lost or changed rows after a step on the other resources', observed=rows)
    if s2['kind'] == 'retype':
        b = sorted(n for n, d, r in got if any(f['name'] == 'zA' and f['type'] == 'any' for f in d['schema']['fields']))
        if b != sorted(item['exp_B']):
            return dict(ok=False, why='a step on the selected resources also changed a non-selected one (shared descriptor objects)',
                        observed=dict(B=b))
        return dict(ok=True)
    a = sorted(n for n, d, r in got if any(f['name'] == 'zA' for f in d['schema']['fields']))
    b = sorted(n for n, d, r in got if d.get('title') == 'B')
    if a != sorted(item['exp_A']) or b != sorted(item['exp_B']):
        return dict(ok=False, why='marked resources differ', observed=dict(A=a, B=b))
    return dict(ok=True)


# ---------------------------------------------------------------------------

def model(max_res, max_depth, export, workers):
    wd = tlc.workdir('c10')
    cfg = tlc.write_cfg(os.path.join(wd, 'sel.cfg'), constants={'MaxRes': max_res, 'MaxDepth': max_depth},
                        invariants=['UniqueNames', 'FormsOK', 'Frame', 'Effect'],
                        constraints=['Export'] if export else [])
    return tlc.run_tlc('MC_Selector', cfg, workers=workers, allow_violation=False, timeout=3000)


def _guard(fn, it):
    import traceback
    try:
        return fn(it)
    except Exception as e:
        return {'__harness_error__': '%s: %s\n%s' % (type(e).__name__, e, traceback.format_exc()[-1500:])}


def selkey(sel):
    return digest(sel)


def classify(rep, case, proc, out):
    """A replayed case failed: known finding, or violation."""
    detail = dict(processor=proc, names=[name_of(n) for n in case['names']], selector=py_selector(case['sel']),
                  kind=case['kind'], spec_selected=case['selected'], **{k: v for k, v in out.items() if k != 'ok'})
    rep.violation(dict(case=case, proc=proc), detail, category='%s/%s/%s/%s' % (proc, case['sel']['k'], out.get('exc') or '', out['why'][:60]))


def run():
    rep = Report(PROP)
    t = rep.tier
    setup_repo()
    # 1. model level: programs of two steps (no export), design invariants
    m2 = model(2, 2, False, None)
    rep.add_tlc(m2, 'MC_Selector MaxRes=2 MaxDepth=2 (programs; FormsOK, Frame, Effect, UniqueNames)')
    # 2. exhaustive single steps with export
    max_res = 3 if t == 'quick' else 4
    m1 = model(max_res, 1, True, 1)
    rep.add_tlc(m1, 'MC_Selector MaxRes=%d MaxDepth=1 (export of every step)' % max_res)
    cases = m1.cases
    if len(cases) < 1000:
        raise tlc.MachineryError('only %d cases exported' % len(cases))
    r = rng(PROP)
    # 3. replay
    items = []
    frac = {'quick': 0.09, 'thorough': 1.0}[t]
    nsel = 0
    for c in cases:
        full = len(c['names']) <= 3 and t == 'thorough'
        if not full and r.random() > (frac if t == 'quick' else 0.25):
            continue
        nsel += 1
        if c['kind'] == 'touch':
            for p in TOUCH:
                if p == 'set_type' and not c['selected']:
                    continue        # set_type requires that its field pattern matches somewhere (documented assertion)
                if p in SLOW and r.random() > (0.03 if t == 'quick' else 0.05):
                    continue
                items.append((c, p))
                if p not in SLOW and c['names'] and r.random() < 0.2:
                    items.append((c, p + '@reuse'))
        elif c['kind'] == 'delete':
            items.append((c, 'delete_resource'))
            if c['names'] and r.random() < 0.3:
                items.append((c, 'delete_resource@reuse'))
        elif c['kind'] == 'concat':
            items.append((c, 'concatenate'))
            if c['names'] and r.random() < 0.3:
                items.append((c, 'concatenate@reuse'))
        elif c['kind'] == 'load':
            items.append((c, 'load_tuple'))
            if r.random() < 0.3:
                items.append((c, 'load_datapackage'))
    # deterministic order: group by names for cache locality
    items.sort(key=lambda it: (tuple(map(tuple, it[0]['names'])), it[1]))
    par = [it for it in items if it[1] in SLOW]          # real worker processes: not from a daemonic pool
    items = [it for it in items if it[1] not in SLOW]
    results = pmap(run_case, items, chunksize=64)
    results += [_guard(run_case, it) for it in par]
    items += par
    errs = harness_errors(results)
    if errs:
        raise tlc.MachineryError('harness error in replay: ' + errs[0])
    nontrivial = 0
    for (c, p), out in zip(items, results):
        rep.count(1, traces=1)
        if 0 < len(c['selected']) < len(c['names']) or c['sel']['k'] != 'none':
            rep.mark_distinct(dict(n=c['names'], s=c['sel'], p=p))
        if not out['ok']:
            classify(rep, c, p, out)
    for c in cases[:: max(1, len(cases) // 4)][:4]:
        rep.sample(dict(names=[name_of(n) for n in c['names']], selector=py_selector(c['sel']), kind=c['kind'],
                        selected_positions=c['selected']))
    # 4. two-step programs composed from the table
    table = {}
    for c in cases:
        table[(tuple(name_of(n) for n in c['names']), selkey(c['sel']), c['kind'])] = c
    progs = []
    by_names = {}
    for c in cases:
        if c['kind'] in ('touch', 'delete') and 2 <= len(c['names']) <= 3:
            by_names.setdefault(tuple(name_of(n) for n in c['names']), []).append(c)
    nprog = 600 if t == 'quick' else 6000
    keys = sorted(by_names)
    tries = 0
    while len(progs) < nprog and tries < nprog * 20:
        tries += 1
        names = r.choice(keys)
        c1 = r.choice(by_names[names])
        n1 = tuple(name_of(p['name']) for p in c1['post'])
        if n1 not in by_names and len(n1) > 0 and (n1, ) == ():
            continue
        cands = by_names.get(n1) or [c for c in cases if tuple(name_of(n) for n in c['names']) == n1 and c['kind'] in ('touch', 'delete')]
        if not cands:
            continue
        c2 = r.choice(cands)
        if c1['kind'] == 'delete' and c2['kind'] == 'delete' and r.random() < 0.5:
            continue
        a = [names[p - 1] for p in c1['selected']] if c1['kind'] == 'touch' else []
        b = [n1[p - 1] for p in c2['selected']] if c2['kind'] == 'touch' else []
        n2 = [name_of(p['name']) for p in c2['post']]
        progs.append(dict(names=list(names), s1=dict(sel=c1['sel'], kind=c1['kind'], marker='A'),
                          s2=dict(sel=c2['sel'], kind=c2['kind'], marker='B'),
                          exp_names=n2, exp_A=[x for x in a if x in n2], exp_B=b))
    # programs that build the package through duplicate() / a step applied to all resources, then select one of the twins
    nal = 0
    allnames = ['a', 'ab', 'abb', 'b', 'a.b', 'aab']
    while nal < (200 if t == 'quick' else 2000):
        names = r.choice([k for k in keys if len(k) == 2])
        free = [x for x in allnames if x not in names]
        dst = r.choice(free)
        n1 = (names[0], dst) + tuple(names[1:])
        cands = [c for c in by_names.get(n1, []) if c['kind'] == 'touch' and c['selected']]
        if not cands:
            continue
        c2 = r.choice(cands)
        nal += 1
        b = [n1[p - 1] for p in c2['selected']]
        if r.random() < 0.3:
            # delete exactly the original after duplicating it: the copy must survive intact
            dels = [c for c in by_names.get(n1, []) if c['kind'] == 'delete' and c['selected'] == [1]]
            if dels:
                cd = r.choice(dels)
                progs.append(dict(names=list(names), s1=dict(sel=dict(k='none'), kind='dup', src=names[0], dst=dst, marker='A'),
                                  s2=dict(sel=cd['sel'], kind='delete', marker='B'), exp_names=list(n1[1:]), exp_A=[], exp_B=[]))
                continue
        if r.random() < 0.5:
            progs.append(dict(names=list(names), s1=dict(sel=dict(k='none'), kind='dup', src=names[0], dst=dst, marker='A'),
                              s2=dict(sel=c2['sel'], kind='touch', marker='A'), exp_names=list(n1), exp_A=b, exp_B=[]))
        else:
            cands0 = [c for c in by_names.get(names, []) if c['kind'] == 'touch' and c['selected']]
            c0 = r.choice(cands0)
            progs.append(dict(names=list(names), s1=dict(sel=dict(k='none'), kind='addall', marker='A', how=r.choice(['add_field', 'acf_dict', 'acf_str', 'unpivot', 'update_schema', 'update_resource'])),
                              s2=dict(sel=c0['sel'], kind='retype', marker='B'), exp_names=list(names),
                              exp_A=list(names), exp_B=[names[p - 1] for p in c0['selected']]))
    pres = pmap(run_program, progs, chunksize=32)
    errs = harness_errors(pres)
    if errs:
        raise tlc.MachineryError('harness error in program replay: ' + errs[0])
    for pr, out in zip(progs, pres):
        rep.count(1, traces=1)
        rep.mark_distinct(pr)
        if not out['ok']:
            rep.violation(pr, dict(program=[py_selector(pr['s1']['sel']), pr['s1']['kind'],
                                            py_selector(pr['s2']['sel']), pr['s2']['kind']], names=pr['names'], **out))
    if progs:
        rep.sample(dict(program=dict(names=progs[0]['names'], step1=[progs[0]['s1']['kind'], py_selector(progs[0]['s1']['sel'])],
                                     step2=[progs[0]['s2']['kind'], py_selector(progs[0]['s2']['sel'])])))
    rep.assumptions += [
        'resource names are drawn from {a, ab, abb, b, a.b, aab} (valid Data Package names; "." is the only regex metacharacter a valid name can contain)',
        'regex selectors: every AST of size <= 3 over {a, b, .} plus 8 larger ones, rendered with minimal parentheses',
        'an integer selector must index an existing resource (out-of-range is outside the statement)',
        'concatenate requires a non-empty consecutive selection (its documented precondition)',
    ]
    rep.notes['cases_exported_by_tlc'] = len(cases)
    rep.notes['cases_selected_for_replay'] = nsel
    rep.notes['processors'] = TOUCH + ['delete_resource', 'concatenate', 'load(tuple)', 'load(datapackage.json)']
    return rep.finish(exhaustive=(t == 'thorough'))


def replay(path):
    import json
    setup_repo()
    rec = json.load(open(path))
    c = rec['case']
    if 's1' in c:
        out = run_program(c)
    else:
        out = run_case((c['case'], c['proc']))
    print(json.dumps(out, default=str))
    if not out['ok']:
        print('VIOLATION property=%s replay=%s' % (PROP, path))
        return 1
    return 0
