"""C16 - resource-level restructuring conserves rows.

Spec:   spec/ProcResources.tla: ConcatDef (at the position of the first selected resource, all rows of the selected
        resources in order, mapped onto the target fields, null elsewhere), DupDef (exact copy right after / at the end),
        DeleteDef, AppendDef; TLC checks Conserve (id accounting: nothing lost, nothing invented, exactly one extra copy)
        and OthersUnchanged on every package of <= 3 resources (4 field layouts, 0 / 2 rows) and on packages with > 1000
        rows per resource, and exports the cases.
Bind:   every exported case on the real processors (duplicate with batch sizes 1 / 2 / 1000; an in-place row edit placed
        AFTER the restructuring step so that a copy that aliases the original shows; sources as iterable / tuple load /
        sources()); plus iterable sources appended after a delete.
"""
import contextlib
import io
import json
import os

from .. import tlc
from ..common import Report, pmap, harness_errors, rng, setup_repo, canon

PROP = 'C16'


def model(rep, max_res, sizes, label):
    wd = tlc.workdir('c16')
    cfg = tlc.write_cfg(os.path.join(wd, 'prs.cfg'), constants={'MaxRes': max_res, 'Sizes': '{' + ', '.join(map(str, sizes)) + '}'},
                        invariants=['Conserve', 'OthersUnchanged'], constraints=['Export'])
    res = tlc.run_tlc('ProcResources', cfg, workers=1, allow_violation=False, timeout=6000, heap='12g')
    rep.add_tlc(res, label)
    seen, out = set(), []
    for c in res.cases:
        k = canon([c['pkg'], c['op'], c['arg']])
        if k not in seen:
            seen.add(k)
            out.append(c)
    return out


def rname(x):
    return 'cc' if x == 0 else 'copy' if 100 < x < 200 else 'appended' if x == 200 else 'r%d' % x


def val(i):
    return i[0] * 10000 + i[1]


def duplicate_typed_case(item):
    """duplicate of a resource holding every kind of typed value (sub-second times, zone-aware datetimes, decimals, nested containers):
    the copy is an EXACT copy - value by value and type by type - whatever batch_size / duplicate_to_end"""
    import datetime
    import decimal
    import dataflows as DF
    from dataflows import Flow
    from ..common import tuple_source
    setup_repo()
    tz = datetime.timezone(datetime.timedelta(hours=-5), 'EST')
    rows = [dict(i=k, dt=datetime.datetime(2020, 1, 2, 3, 4, 5, 123456 + k, tzinfo=tz if k % 2 else None), t=datetime.time(1, 2, 3, 500000 + k),
                 d=datetime.date(2020, 2, k + 1), dec=decimal.Decimal('1.%020d' % k), arr=[k, [decimal.Decimal('0.1')], None], obj=dict(z=dict(y=k)),
                 dur=datetime.timedelta(days=k, microseconds=7)) for k in range(item['n'])]
    fields = [('i', 'integer'), ('dt', 'datetime'), ('t', 'time'), ('d', 'date'), ('dec', 'number'), ('arr', 'array'), ('obj', 'object'), ('dur', 'duration')]
    try:
        with contextlib.redirect_stdout(io.StringIO()):
            import copy
            ds = Flow(tuple_source([('orig', fields, copy.deepcopy(rows))]), DF.duplicate('orig', 'copy', duplicate_to_end=item['to_end'], batch_size=item['batch'])).datastream()
            out = [[dict(r) for r in res] for res in ds.res_iter]
    except Exception as e:
        return dict(ok=False, why='raised %s: %s' % (type(e).__name__, str(e)[:150]))
    if len(out) != 2:
        return dict(ok=False, why='%d resources after duplicate' % len(out))
    for label, got in (('original', out[0]), ('copy', out[1])):
        if got != rows or [[type(v).__name__ for v in r_.values()] for r_ in got] != [[type(v).__name__ for v in r_.values()] for r_ in rows] or \
                [str(r_['dt'].utcoffset()) for r_ in got] != [str(r_['dt'].utcoffset()) for r_ in rows]:
            bad = next((k for k, (a, b) in enumerate(zip(got, rows)) if a != b), 0)
            return dict(ok=False, why='the %s emitted by duplicate is not the resource that went in' % label, got=repr(got[bad])[:300] if got else None, want=repr(rows[bad])[:300] if rows else None)
    return dict(ok=True)


def concat_sparse_case(item):
    """concatenate over rows that spell a null as an ABSENT key (what results() and the dumpers read as a null): every row is mapped by
    ITS OWN keys - a value under a key the first row of its resource lacks is not lost"""
    import dataflows as DF
    from dataflows import Flow
    from ..common import tuple_source
    setup_repo()
    k = item['k']            # which row of the first resource lacks the key 'c'
    r1 = [dict(a=10 + i, c=100 + i) for i in range(4)]
    del r1[k]['c']
    r2 = [dict(a=20 + i, b=200 + i) for i in range(2)]
    try:
        with contextlib.redirect_stdout(io.StringIO()):
            ds = Flow(tuple_source([('r1', [('a', 'integer'), ('c', 'integer')], [dict(x) for x in r1]), ('r2', [('a', 'integer'), ('b', 'integer')], [dict(x) for x in r2])]),
                      DF.concatenate(dict(a=[], b=['c']), target=dict(name='cc'))).datastream()
            out = [[dict(r) for r in res] for res in ds.res_iter]
    except Exception as e:
        return dict(ok=False, why='raised %s: %s' % (type(e).__name__, str(e)[:150]))
    want = [dict(a=x['a'], b=x.get('c')) for x in r1] + [dict(a=x['a'], b=x['b']) for x in r2]
    if out != [want]:
        return dict(ok=False, why='concatenate over rows with absent keys differs', got=out[0][:6] if out else None, want=want[:6])
    return dict(ok=True)


def sources_named_case(item):
    """sources() whose source brings NAMED resources: one whose name is the very name the step would generate next, and one that collides
    with an existing resource - the combined package has unique names, every resource keeps its own descriptor and rows, and later
    steps address each of them on its own"""
    import dataflows as DF
    from dataflows import Flow
    setup_repo()
    n = item['n']
    existing = [[{'e%d' % i: 10 * i + k} for k in range(i + 1)] for i in range(n)]
    extra = [dict(c=k) for k in range(5)]
    more = [dict(d=k) for k in range(2)]
    gen_name = 'res_%d' % (n + 1)

    def build(*steps):
        source = Flow([dict(r) for r in extra], DF.update_resource(-1, name=gen_name, path=gen_name + '.csv'),
                      [dict(r) for r in more], DF.update_resource(-1, name='res_1', path='res_1.csv'))
        return Flow(*[[dict(r) for r in rows] for rows in existing], DF.sources(source), *steps)
    try:
        with contextlib.redirect_stdout(io.StringIO()):
            res, dp, _ = build(DF.update_resource('res_1', title='first')).results()
            names = [r['name'] for r in dp.descriptor['resources']]
            if len(set(names)) != len(names):
                return dict(ok=False, why='two resources of the combined package share one name', names=names)
            if names[:n] != ['res_%d' % (i + 1) for i in range(n)] or names[n] != gen_name:
                return dict(ok=False, why='resources that did not collide were renamed', names=names)
            if [[dict(r) for r in x] for x in res] != existing + [extra, more]:
                return dict(ok=False, why='rows after sources() + a step that touches one resource by name differ', got=[x[:2] for x in res])
            if [f['name'] for f in dp.descriptor['resources'][n + 1]['schema']['fields']] != ['d']:
                return dict(ok=False, why='the descriptor of the renamed resource is not its own')
            res2, dp2, _ = build(DF.delete_resource([gen_name])).results()
            if [[dict(r) for r in x] for x in res2] != existing + [more]:
                return dict(ok=False, why='delete_resource([%r]) after sources() did not remove exactly that resource' % gen_name, got=[len(x) for x in res2])
        return dict(ok=True)
    except Exception as e:
        return dict(ok=False, why='raised %s: %s' % (type(e).__name__, str(e)[:200]))


def replay_case(item):
    import dataflows as DF
    from dataflows import Flow
    from ..common import tuple_source
    setup_repo()
    c, v = item['case'], item['variant']
    pkg = c['pkg']
    srcs = []
    for res in pkg:
        rows = [{f: val([res['name'], k]) for f in res['fields']} for k in range(1, res['n'] + 1)]
        srcs.append(('r%d' % res['name'], [(f, 'integer') for f in res['fields']], rows))
    op, arg = c['op'], c['arg']
    links = [tuple_source(srcs)]
    appended_name = None
    cc_name = 'cc'
    if op == 'concat':
        if v.get('reuse_name') and arg:
            cc_name = 'r%d' % pkg[arg[-1] - 1]['name']          # the target takes over the name of one of the resources it replaces
        links.append(DF.concatenate(dict(a=[], b=['c']), target=dict(name=cc_name), resources=['r%d' % pkg[i - 1]['name'] for i in arg]))
    elif op == 'duplicate':
        links.append(DF.duplicate('r%d' % pkg[arg['s'] - 1]['name'], 'copy', duplicate_to_end=arg['toEnd'], batch_size=v['batch']))
    elif op == 'delete':
        links.append(DF.delete_resource(['r%d' % pkg[i - 1]['name'] for i in arg]))
    else:
        rows = [dict(a=val([200, k]), b=val([200, k])) for k in range(1, arg + 1)]
        if v['source'] == 'iterable' and rows:
            links.append(rows)
        elif v['source'] == 'sources' and rows:
            links.append(DF.sources(rows))
        elif v['source'] == 'load' and rows:
            import tempfile
            tmpd = tempfile.mkdtemp(prefix='c16l-', dir=tlc.WORK_ROOT)
            with open(os.path.join(tmpd, 'appended.csv'), 'w') as f:
                f.write('a,b\n' + ''.join('%d,%d\n' % (r_['a'], r_['b']) for r_ in rows))
            links.append(DF.load(os.path.join(tmpd, 'appended.csv'), name='appended', cast_strategy=DF.load.CAST_WITH_SCHEMA))
        else:
            links.append(tuple_source([('appended', [('a', 'integer'), ('b', 'integer')], rows)]))
    if v.get('preused') and op in ('concat', 'duplicate', 'delete'):
        from ..common import preuse
        preuse(links[1:], lambda: tuple_source(srcs))
    drop = v.get('then_delete')
    if drop is not None:
        links.append(DF.delete_resource([rname(drop) if drop in (0,) or drop > 100 else 'r%d' % drop]))
    if v['mutate']:
        def bump(row):
            if row.get('a') is not None:
                row['a'] += 5
        links.append(bump)
    try:
        with contextlib.redirect_stdout(io.StringIO()):
            ds = Flow(*links).datastream()
            got_rows = [[dict(r) for r in res] for res in ds.res_iter]
            desc = ds.dp.descriptor['resources']
    except Exception as e:
        return dict(ok=False, why='raised %s: %s' % (type(e).__name__, str(e)[:200]))
    finally:
        if 'tmpd' in locals():
            import shutil
            shutil.rmtree(tmpd, ignore_errors=True)
    got_names = [r['name'] for r in desc]
    if drop is not None:
        keep = [i for i, x in enumerate(c['names']) if x != drop]
        c = dict(c, names=[c['names'][i] for i in keep], rows=[c['rows'][i] for i in keep])
    want_names = [cc_name if x == 0 else rname(x) for x in c['names']]
    if op == 'append':
        if len(got_names) != len(want_names) or got_names[:-1] != want_names[:-1]:
            return dict(ok=False, why='resources after the appended source differ', got=got_names, want=want_names)
        if len(set(got_names)) != len(got_names):
            return dict(ok=False, why='resource names are not unique', got=got_names)
    elif got_names != want_names:
        return dict(ok=False, why='resource list differs', got=got_names, want=want_names)
    if len(got_rows) != len(got_names):
        return dict(ok=False, why='%d row streams for %d descriptors' % (len(got_rows), len(got_names)))
    for ri, (x, rows, want) in enumerate(zip(c['names'], got_rows, c['rows'])):
        fields = [f['name'] for f in desc[ri]['schema']['fields']]
        exp = []
        for w in want:
            if x == 0:
                row = {f: (val(w['id']) if f in w['has'] else None) for f in ('a', 'b')}
            else:
                row = {f: val(w['id']) for f in w['has']}
            if v['mutate'] and row.get('a') is not None:
                row['a'] += 5
            exp.append(row)
        got = [{f: r.get(f) for f in (('a', 'b') if x == 0 else sorted(set(r) | set(fields)))} for r in rows]
        exp2 = [{f: e.get(f) for f in (('a', 'b') if x == 0 else sorted(set(e)))} for e in exp]
        if got != exp2:
            k = next((i for i, (g, e) in enumerate(zip(got, exp2)) if g != e), min(len(got), len(exp2)))
            return dict(ok=False, why='rows of resource %s differ' % got_names[ri], n_got=len(got), n_want=len(exp2),
                        first_diff=dict(index=k, got=got[k] if k < len(got) else None, want=exp2[k] if k < len(exp2) else None))
        if x == 0 and sorted(fields) != ['a', 'b']:
            return dict(ok=False, why='target fields of concatenate differ', got=fields)
        if x == 0 and any(sorted(r.keys()) != ['a', 'b'] for r in rows):
            bad = next(r for r in rows if sorted(r.keys()) != ['a', 'b'])
            return dict(ok=False, why='a concatenated row does not carry every target field (absent ones as nulls)', got=bad)
    return dict(ok=True)


def after_delete_case(item):
    """iterable sources appended after a delete: names stay unique, every stream stays with its descriptor"""
    from dataflows import Flow
    import dataflows as DF
    setup_repo()
    n, d = item['n'], item['delete']
    srcs = [[dict(a=i * 100 + k) for k in range(1, 3)] for i in range(1, n + 1)]
    new = [dict(z=9000 + k) for k in range(1, 3)]
    try:
        with contextlib.redirect_stdout(io.StringIO()):
            res, dp, _ = Flow(*srcs, DF.delete_resource(d), new).results()
    except Exception as e:
        return dict(ok=False, why='raised %s: %s' % (type(e).__name__, str(e)[:200]))
    names = [r['name'] for r in dp.descriptor['resources']]
    if len(set(names)) != len(names):
        return dict(ok=False, why='resource names are not unique after appending a source', got=names)
    want = [s for i, s in enumerate(srcs) if i != d % n] + [new]
    if res != want:
        return dict(ok=False, why='rows after delete + append differ', got=res, want=want)
    fields = [[f['name'] for f in r['schema']['fields']] for r in dp.descriptor['resources']]
    if fields[-1] != ['z']:
        return dict(ok=False, why='appended resource has the wrong descriptor', got=fields)
    return dict(ok=True)


def sources_case(item):
    """sources(...) after n existing iterable resources: unique names, every stream with its own descriptor, separate files"""
    from dataflows import Flow
    import dataflows as DF
    import tempfile, shutil
    setup_repo()
    n, k = item['n'], item['k']
    prev = [[dict(p=i * 10 + j) for j in range(2)] for i in range(n)]
    new = [[{('s%d' % i): 100 * i + j} for j in range(2)] for i in range(k)]
    root = tempfile.mkdtemp(prefix='c16s-', dir=tlc.WORK_ROOT)
    try:
        with contextlib.redirect_stdout(io.StringIO()):
            if item.get('grouped'):
                # ONE source that brings all k resources (each numbered from res_1 by its own flow), after a resource whose
                # name is already the one the renaming would try first
                pre = [DF.update_resource(-1, name='res_%d' % (n + 1), path='res_%d.csv' % (n + 1))] if n else []
                res, dp, _ = Flow(*prev, *pre, DF.sources(Flow(*new)), DF.dump_to_path(root + '/o')).results()
            else:
                res, dp, _ = Flow(*prev, DF.sources(*new), DF.dump_to_path(root + '/o')).results()
        names = [r['name'] for r in dp.descriptor['resources']]
        if len(set(names)) != len(names):
            return dict(ok=False, why='resource names are not unique after sources()', got=names)
        if res != prev + new:
            return dict(ok=False, why='rows after sources() differ', got=res)
        fields = [[f['name'] for f in r['schema']['fields']] for r in dp.descriptor['resources']]
        want = [['p']] * n + [['s%d' % i] for i in range(k)]
        if fields != want:
            return dict(ok=False, why='descriptors after sources() are not paired with their rows', got=fields, want=want)
        paths = [r['path'] for r in dp.descriptor['resources']]
        if len(set(paths)) != len(paths) or not all(os.path.exists(os.path.join(root, 'o', p_)) for p_ in paths):
            return dict(ok=False, why='dumped files of the appended sources collide', got=paths)
        return dict(ok=True)
    except Exception as e:
        return dict(ok=False, why='raised %s: %s' % (type(e).__name__, str(e)[:200]))
    finally:
        shutil.rmtree(root, ignore_errors=True)


def rename_case(item):
    """update_resource(sel, name=..., path=...) keeps every stream with its descriptor, also for the steps that follow"""
    from dataflows import Flow
    import dataflows as DF
    setup_repo()
    n, pos, follow = item['n'], item['pos'], item['follow']
    srcs = [[{('f%d' % i): i * 100 + k} for k in range(3)] for i in range(n)]
    steps = [DF.update_resource(pos, name='renamed', path='renamed.csv')]
    if follow == 'add_field':
        steps.append(DF.add_field('z', 'integer', 7))
    elif follow == 'filter':
        steps.append(DF.filter_rows(condition=lambda r: True))
    elif follow == 'delete_other' and n > 1:
        steps.append(DF.delete_resource('res_%d' % (1 if pos % n != 0 else 2)))
    elif follow == 'source':
        steps.append([dict(q=1)])
    try:
        with contextlib.redirect_stdout(io.StringIO()):
            res, dp, _ = Flow(*srcs, *steps).results()
    except Exception as e:
        return dict(ok=False, why='raised %s: %s' % (type(e).__name__, str(e)[:200]))
    names = [r['name'] for r in dp.descriptor['resources']]
    if len(set(names)) != len(names) or 'renamed' not in names:
        return dict(ok=False, why='resource names after update_resource(name=...)', got=names)
    for r, rows in zip(dp.descriptor['resources'], res):
        fields = [f['name'] for f in r['schema']['fields'] if f['name'] != 'z']
        for row in rows:
            if sorted(k for k in row if k != 'z') != sorted(fields):
                return dict(ok=False, why='a row stream is paired with the wrong descriptor after update_resource', got=dict(resource=r['name'], fields=fields, row=row))
    total = sum(len(x) for x in res)
    want = 3 * n - (3 if follow == 'delete_other' and n > 1 else 0) + (1 if follow == 'source' else 0)
    if total != want:
        return dict(ok=False, why='rows lost or invented around update_resource', got=total, want=want)
    return dict(ok=True)


def twin_nested(item, srcs, src_name, target):
    """rows with array / object cells; after the duplicate a step edits the NESTED values of one twin in place:
    the other twin must still be the exact copy (a copy that shares nested lists / dicts with the original is not one)"""
    from dataflows import Flow
    import dataflows as DF
    import copy
    n, pos, to_end, which = item['n'], item['pos'], item['to_end'], item['which']
    for s_ in srcs:
        for k, r_ in enumerate(s_):
            r_['tags'] = ['t%d' % k, [k]]
            r_['meta'] = dict(k=k, deep=dict(l=[k]))
    want = copy.deepcopy(srcs)

    def edit_nested(package):
        yield package.pkg
        for rows in package:
            if rows.res.name == target:
                def it(rows=rows):
                    for r_ in rows:
                        r_['tags'].append('late')
                        r_['tags'][1].append(99)
                        r_['meta']['deep']['l'].append(99)
                        r_['meta']['k'] = -1
                        yield r_
                yield it()
            else:
                yield rows
    try:
        with contextlib.redirect_stdout(io.StringIO()):
            res, dp, _ = Flow(*[copy.deepcopy(s_) for s_ in srcs], DF.duplicate(src_name, 'dup', duplicate_to_end=to_end, batch_size=item.get('batch', 1000)),
                              edit_nested).results()
    except Exception as e:
        return dict(ok=False, why='raised %s: %s' % (type(e).__name__, str(e)[:200]))
    by = {r['name']: rows for r, rows in zip(dp.descriptor['resources'], res)}
    other = src_name if which == 'copy' else 'dup'
    if by.get(other) != want[pos]:
        return dict(ok=False, why='nested values of the twin that was NOT edited changed', resource=other, got=(by.get(other) or [None])[:1])
    edited = copy.deepcopy(want[pos])
    for r_ in edited:
        r_['tags'].append('late')
        r_['tags'][1].append(99)
        r_['meta']['deep']['l'].append(99)
        r_['meta']['k'] = -1
    if by.get(target) != edited:
        return dict(ok=False, why='the edited twin is not what the edit defines', resource=target, got=(by.get(target) or [None])[:1])
    for i in range(n):
        if i != pos and by.get('res_%d' % (i + 1)) != want[i]:
            return dict(ok=False, why='an unrelated resource changed', resource='res_%d' % (i + 1))
    return dict(ok=True)


def twin_case(item):
    """duplicate, then a step restricted to ONE of the twins: the other twin - descriptor and rows - stays the exact copy"""
    from dataflows import Flow
    import dataflows as DF
    setup_repo()
    n, pos, to_end, which, edit = item['n'], item['pos'], item['to_end'], item['which'], item['edit']
    srcs = [[dict(id=i * 100 + k, v='s%d' % k) for k in range(3)] for i in range(1, n + 1)]
    src_name = 'res_%d' % (pos + 1)
    target = 'dup' if which == 'copy' else src_name
    if edit == 'nested_inplace':
        return twin_nested(item, srcs, src_name, target)
    step = {'add_field': lambda: DF.add_field('flag', 'string', 'x', resources=target),
            'delete_fields': lambda: DF.delete_fields(['v'], resources=target),
            'set_type': lambda: DF.set_type('id', type='string', transform=str, resources=target),
            'rename_fields': lambda: DF.rename_fields({'v': 'w'}, resources=target),
            'update_schema': lambda: DF.update_schema(target, missingValues=['', '-']),
            'set_primary_key': lambda: DF.set_primary_key(['id'], resources=target)}[edit]()
    try:
        with contextlib.redirect_stdout(io.StringIO()):
            res, dp, _ = Flow(*[[dict(r) for r in s_] for s_ in srcs], DF.duplicate(src_name, 'dup', duplicate_to_end=to_end), step).results()
    except Exception as e:
        return dict(ok=False, why='raised %s: %s' % (type(e).__name__, str(e)[:200]))
    names = [r['name'] for r in dp.descriptor['resources']]
    base = ['res_%d' % i for i in range(1, n + 1)]
    want_names = base + ['dup'] if to_end else base[:pos + 1] + ['dup'] + base[pos + 1:]
    if names != want_names:
        return dict(ok=False, why='resource order after duplicate differs', got=names, want=want_names)
    by = {r['name']: (r, rows) for r, rows in zip(dp.descriptor['resources'], res)}
    other = src_name if which == 'copy' else 'dup'
    d, rows = by[other]
    fields = [(f['name'], f['type']) for f in d['schema']['fields']]
    if fields != [('id', 'integer'), ('v', 'string')] or d['schema'].get('missingValues', ['']) != [''] or d['schema'].get('primaryKey'):
        return dict(ok=False, why='the descriptor of the twin that was NOT selected changed', resource=other, got=dict(fields=fields, schema={k: v for k, v in d['schema'].items() if k != 'fields'}))
    if rows != srcs[pos]:
        return dict(ok=False, why='the rows of the twin that was NOT selected changed', resource=other, got=rows[:2])
    d, rows = by[target]
    fields = [f['name'] for f in d['schema']['fields']]
    wantf = {'add_field': ['id', 'v', 'flag'], 'delete_fields': ['id'], 'rename_fields': ['id', 'w']}.get(edit, ['id', 'v'])
    if fields != wantf or any(sorted(r_.keys()) != sorted(wantf) for r_ in rows) or len(rows) != 3:
        return dict(ok=False, why='the edited twin is not what the edit defines', resource=target, got=dict(fields=fields, rows=rows[:1]))
    for i in range(n):
        if i != pos and by[base[i]][1] != srcs[i]:
            return dict(ok=False, why='an unrelated resource changed', resource=base[i])
    # the copy is a resource of its own: its own path, so that a dumper writes two complete files
    paths = [r.get('path') for r in dp.descriptor['resources']]
    if len(set(map(str, paths))) != len(paths):
        return dict(ok=False, why='the copy shares its path with another resource', got=paths)
    return dict(ok=True)


def run():
    rep = Report(PROP)
    t = rep.tier
    setup_repo()
    r = rng(PROP)
    cases = model(rep, 3, [0, 2], 'ProcResources <=3 resources x 4 field layouts x {0, 2} rows: Conserve, OthersUnchanged')
    big = model(rep, 1 if t == 'quick' else 2, [1100], 'ProcResources with 1100 rows per resource (batch boundaries)')
    if t == 'quick':
        r.shuffle(cases)
        cases = cases[:2500]
    items = []
    for c in cases + big:
        items.append(dict(case=c, variant=dict(batch=r.choice([1, 2, 1000]), mutate=r.random() < 0.5, source=r.choice(['iterable', 'tuple', 'sources', 'load']),
                                               preused=r.random() < 0.3, reuse_name=r.random() < 0.3)))
    # two-step programs: the restructuring step followed by a delete_resource of one of its outputs
    for c in (cases + big):
        if c['op'] == 'duplicate' and r.random() < (0.3 if t == 'quick' else 1.0):
            orig = c['pkg'][c['arg']['s'] - 1]['name']
            items.append(dict(case=c, variant=dict(batch=r.choice([1, 2, 1000]), mutate=False, source='tuple', then_delete=r.choice([orig, 100 + c['arg']['s']]))))
        if c['op'] == 'concat' and len(c['names']) > 1 and r.random() < (0.3 if t == 'quick' else 1.0):
            items.append(dict(case=c, variant=dict(batch=1000, mutate=False, source='tuple', then_delete=r.choice(c['names']))))
    res = pmap(replay_case, items, chunksize=16)
    errs = harness_errors(res)
    if errs:
        raise tlc.MachineryError('harness error in resources replay: ' + errs[0])
    for it, out in zip(items, res):
        rep.count(1, traces=1)
        rep.mark_distinct(dict(p=it['case']['pkg'], o=it['case']['op'], a=it['case']['arg'], d=it['variant'].get('then_delete')))
        if not out['ok']:
            rep.violation(it, dict(op=it['case']['op'], arg=it['case']['arg'], package=it['case']['pkg'], variant=it['variant'],
                                   **{k: v for k, v in out.items() if k != 'ok'}), category='%s/%s' % (it['case']['op'], out['why'][:40]))
    rep.sample(dict(case=dict(pkg=items[0]['case']['pkg'], op=items[0]['case']['op'], arg=items[0]['case']['arg'], names=items[0]['case']['names'])))
    for it in [dict(duplicate_typed=True, n=n, to_end=te, batch=b) for n in (0, 1, 3) for te in (False, True) for b in (1, 2, 1000)]:
        out = duplicate_typed_case(it)
        rep.count(1, traces=1)
        rep.mark_distinct(it)
        if not out['ok']:
            rep.violation(it, dict(case=it, **{k: v for k, v in out.items() if k != 'ok'}), category='duplicate-typed/%s' % out['why'][:40])
    for it in [dict(concat_sparse=True, k=k) for k in (0, 1, 3)]:
        out = concat_sparse_case(it)
        rep.count(1, traces=1)
        rep.mark_distinct(it)
        if not out['ok']:
            rep.violation(it, dict(case=it, **{k_: v for k_, v in out.items() if k_ != 'ok'}), category='concatenate-sparse/%s' % out['why'][:40])
    for it in [dict(sources_named=True, n=n) for n in (1, 2, 3, 4)]:
        out = sources_named_case(it)
        rep.count(1, traces=1)
        rep.mark_distinct(it)
        if not out['ok']:
            rep.violation(it, dict(case=it, **{k: v for k, v in out.items() if k != 'ok'}), category='sources-named/%s' % out['why'][:40])
    ad = [dict(n=n, delete=d) for n in (1, 2, 3) for d in range(-n, n)]
    ares = pmap(after_delete_case, ad, procs=1)
    errs = harness_errors(ares)
    if errs:
        raise tlc.MachineryError('harness error: ' + errs[0])
    for it, out in zip(ad, ares):
        rep.count(1, traces=1)
        rep.mark_distinct(it)
        if not out['ok']:
            rep.violation(it, dict(program='%d iterable sources, delete_resource(%d), one more iterable source' % (it['n'], it['delete']),
                                   **{k: v for k, v in out.items() if k != 'ok'}), category='append-after-delete/%s' % out['why'][:40])
    rc = [dict(n=n, pos=p_, follow=f) for n in (1, 2, 3) for p_ in range(-n, n) for f in ('none', 'add_field', 'filter', 'delete_other', 'source')]
    for it, out in zip(rc, pmap(rename_case, rc, chunksize=4)):
        if '__harness_error__' in out:
            raise tlc.MachineryError('harness error: ' + out['__harness_error__'])
        rep.count(1, traces=1)
        rep.mark_distinct(dict(rename=it))
        if not out['ok']:
            rep.violation(it, dict(program='%d resources, update_resource(%d, name=...), then %s' % (it['n'], it['pos'], it['follow']),
                                   **{k_: v for k_, v in out.items() if k_ != 'ok'}), category='update_resource/%s' % out['why'][:40])
    tw = [dict(n=n, pos=p_, to_end=e, which=w, edit=ed) for n in (1, 2, 3) for p_ in range(n) for e in (False, True) for w in ('copy', 'original')
          for ed in ('add_field', 'delete_fields', 'set_type', 'rename_fields', 'update_schema', 'set_primary_key', 'nested_inplace')]
    tw += [dict(n=2, pos=p_, to_end=e, which=w, edit='nested_inplace', batch=b) for p_ in range(2) for e in (False, True) for w in ('copy', 'original') for b in (1, 2)]
    for it, out in zip(tw, pmap(twin_case, tw, chunksize=4)):
        if '__harness_error__' in out:
            raise tlc.MachineryError('harness error: ' + out['__harness_error__'])
        rep.count(1, traces=1)
        rep.mark_distinct(dict(twin=it))
        if not out['ok']:
            rep.violation(dict(twin=it), dict(program='%d resources, duplicate(res_%d, to_end=%s), then %s on the %s only' % (it['n'], it['pos'] + 1, it['to_end'], it['edit'], it['which']),
                                              **{k_: v for k_, v in out.items() if k_ != 'ok'}), category='duplicate-then-edit-one-twin/%s' % out['why'][:40])
    sc = [dict(n=n, k=k) for n in (0, 1, 2) for k in (1, 2, 3)] + [dict(n=n, k=k, grouped=True) for n in (1, 2) for k in (2, 3)]
    for it, out in zip(sc, pmap(sources_case, sc, procs=1)):
        if '__harness_error__' in out:
            raise tlc.MachineryError('harness error: ' + out['__harness_error__'])
        rep.count(1, traces=1)
        rep.mark_distinct(dict(sources=it))
        if not out['ok']:
            rep.violation(it, dict(program='%d iterable resources, then sources() of %d lists' % (it['n'], it['k']), **{k_: v for k_, v in out.items() if k_ != 'ok'}),
                          category='sources/%s' % out['why'][:40])
    rep.assumptions += ['concatenate on a consecutive non-empty selection whose rows all have a mapped non-null value (documented assertions)',
                        'selections are given as lists of names here; the selector forms are C10']
    return rep.finish(exhaustive=(t == 'thorough'))


def replay(path):
    setup_repo()
    rec = json.load(open(path))
    c = rec['case']
    out = (concat_sparse_case(c) if c.get('concat_sparse') else duplicate_typed_case(c) if c.get('duplicate_typed') else sources_named_case(c) if c.get('sources_named') else replay_case(c) if 'case' in c else twin_case(c['twin']) if 'twin' in c else rename_case(c) if 'follow' in c
           else sources_case(c) if 'k' in c else after_delete_case(c))
    print(json.dumps(out, default=str)[:1500])
    if not out['ok']:
        print('VIOLATION property=%s replay=%s' % (PROP, path))
        return 1
    return 0
