"""C07 - resuming from a checkpoint reproduces the first run.

Spec:   spec/CheckpointChain.tla (histories of Run / DeleteDir over K chained checkpoints: which segments a run executes,
        which checkpoints exist), spec/Checkpoint.tla (ResumeSkipsUpstream, DeleteRecomputes at file-operation level),
        spec/Ejson.tla (the typed-cell codec of the checkpoint file: RoundTrip), spec/EjsonTrace.tla
Bind:   (a) every history TLC enumerates (K = 1, 2, 3; length <= 5/6) is replayed with freshly constructed Flows; per run
            the executed segments (side-effect counters), the result (must equal the first run's) and the checkpoint
            files must be what the model says;
        (b) typed tables (boundary catalogue + hypothesis) go through a real first run and a resumed run; every cell is
            given to TLC as (value in, bytes written, value out): out = in, bytes = Encode(in), out = Decode(bytes).
        (c) spec/FlowChain.tla: pipelines as bracketed token sequences (steps, checkpoints, nested Flows), the IDEAL
            resumption (nothing before the last existing checkpoint runs) next to the link absorption the code implements
            (a checkpoint absorbs only the links of ITS OWN Flow).  TLC: ResultSame, ContentOK, RowsAsIdeal, LastWritten,
            DeleteRecomputes, FlatMeetsIdeal hold; ResumeSkipsUpstream is refuted on nested pipelines and TLC shows the
            deviation is exactly "package phase of an un-absorbed outer predecessor runs" (DeviationIsPkgOnly,
            ResumeSkipsUpstreamUnlessOuter).  Every exported (pipeline, history) is built for real (Flow objects nested as
            the brackets say, package-function steps with package-phase and row counters) and run: per run the result, the
            executed steps and the checkpoint files must be the ideal's; a difference is the listed finding only if its
            trigger holds and the real run equals the IMPL prediction.
"""
import contextlib
import datetime
import decimal
import io
import json
import os
import shutil
import tempfile

from .. import tlc
from ..common import Report, pmap, harness_errors, rng, setup_repo, canon, seed

PROP = 'C07'
KF_MICRO = 'C07-subsecond-precision-lost'
KF_NESTED = 'C07-checkpoint-in-nested-flow-runs-outer-upstream'
KF_TAGOBJ = 'C07-user-dict-shaped-like-a-typed-value'


def model(rep, t):
    wd = tlc.workdir('c07')
    cases = []
    for K, L in ([(1, 5), (2, 5)] if t == 'quick' else [(1, 6), (2, 6), (3, 5)]):
        cfg = tlc.write_cfg(os.path.join(wd, 'cc%d.cfg' % K), constants={'K': K, 'MaxLen': L},
                            invariants=['ResumeSkipsUpstream', 'LastWritten', 'FirstRunComputes'], properties=['DeleteRecomputes'],
                            constraints=['Export'])
        res = tlc.run_tlc('CheckpointChain', cfg, workers=1, allow_violation=False)
        rep.add_tlc(res, 'CheckpointChain K=%d histories of length <= %d' % (K, L))
        cases += res.cases
    cfg = tlc.write_cfg(os.path.join(wd, 'cp.cfg'), constants={'MaxRes': 2, 'MaxRows': 2, 'MaxRuns': 4},
                        invariants=['PickedUpIsComplete', 'NeverBadResult'], properties=['ResumeSkipsUpstream', 'DeleteRecomputes'])
    res = tlc.run_tlc('Checkpoint', cfg, allow_violation=False)
    rep.add_tlc(res, 'Checkpoint (file level) 4 runs: ResumeSkipsUpstream, DeleteRecomputes, NeverBadResult')
    cfg = tlc.write_cfg(os.path.join(wd, 'ejtag.cfg'), constants={'OffsetAs': '"total"', 'KeepMicro': 'TRUE', 'WithTagObjects': 'TRUE', 'AwareBy': '"offset"'},
                        invariants=['RoundTripUnlessTagObject', 'TagObjectComesBackTyped'])
    res = tlc.run_tlc('Ejson', cfg, allow_violation=False)
    rep.add_tlc(res, 'Ejson catalogue + user dicts shaped like typed values: everything but those round-trips; they come back as the typed value')
    cfg = tlc.write_cfg(os.path.join(wd, 'ejtag2.cfg'), constants={'OffsetAs': '"total"', 'KeepMicro': 'TRUE', 'WithTagObjects': 'TRUE', 'AwareBy': '"offset"'}, invariants=['RoundTripAll'])
    if not tlc.run_tlc('Ejson', cfg).violated:
        raise tlc.MachineryError('non-vacuity: Ejson with WithTagObjects must refute RoundTripAll (the encoding is not injective)')
    for oa, km, inv, expect in (('total', 'TRUE', 'RoundTripAll', False), ('seconds', 'TRUE', 'RoundTripAll', True), ('total', 'FALSE', 'RoundTripAll', True)):
        cfg = tlc.write_cfg(os.path.join(wd, 'ej%s%s.cfg' % (oa, km)), constants={'OffsetAs': '"%s"' % oa, 'KeepMicro': km, 'WithTagObjects': 'FALSE', 'AwareBy': '"offset"'}, invariants=[inv])
        res = tlc.run_tlc('Ejson', cfg)
        if bool(res.violated) != expect:
            raise tlc.MachineryError('Ejson.tla OffsetAs=%s KeepMicro=%s: expected violation=%s' % (oa, km, expect))
        if not expect:
            rep.add_tlc(res, 'Ejson boundary catalogue (offsets -12h..+14h, years 1..9999, microseconds, zones without a name): RoundTrip')
    cfg = tlc.write_cfg(os.path.join(wd, 'ejname.cfg'), constants={'OffsetAs': '"total"', 'KeepMicro': 'TRUE', 'WithTagObjects': 'FALSE', 'AwareBy': '"name"'}, invariants=['RoundTripAll'])
    if not tlc.run_tlc('Ejson', cfg).violated:
        raise tlc.MachineryError('non-vacuity: Ejson with AwareBy="name" (a datetime is zone-aware iff a zone NAME was written) must refute RoundTripAll')
    return cases


# ---------------------------------------------------------------------------
# (a) histories

def replay_history(case):
    from dataflows import Flow, checkpoint
    setup_repo()
    K, hist = case['k'], case['hist']
    # checkpoint names are arbitrary valid names: half of the histories use names that contain the temporary-file suffix itself
    CP = 'cp%d' if len(hist) % 2 else 'cp.active%d'
    if not any(h[0] == 'run' for h in hist):
        return dict(ok=True, trivial=True)
    root = tempfile.mkdtemp(prefix='c07-', dir=tlc.WORK_ROOT)
    try:
        def run_once(fail_in=None):
            ex = [0] * (K + 1)

            def src():
                for i in range(4):
                    ex[0] += 1
                    yield dict(a=i, b='s%d' % i)

            def seg(j):
                def f(row):
                    ex[j] += 1
                    if fail_in == j and ex[j] == 3:
                        raise RuntimeError('segment %d fails at its third row' % j)
                    row['a'] = row['a'] * 2 + j
                return f

            def failing_src():
                for i in range(4):
                    ex[0] += 1
                    if i == 2:
                        raise RuntimeError('the source fails at its third row')
                    yield dict(a=i, b='s%d' % i)
            links = [src() if fail_in != 0 else failing_src()]
            for j in range(1, K + 1):
                links.append(checkpoint(CP % j, checkpoint_path=root))
                links.append(seg(j))
            if fail_in is not None:
                import gc
                try:
                    with contextlib.redirect_stdout(io.StringIO()), contextlib.redirect_stderr(io.StringIO()):
                        Flow(*links).results()
                except Exception:
                    pass
                else:
                    return 'a run whose segment %d raises returned normally' % fail_in, None
                del links
                gc.collect()        # the abandoned generators of the failed run are finalised now, as at interpreter exit
                return None, None
            with contextlib.redirect_stdout(io.StringIO()):
                res, dp, _ = Flow(*links).results()
            return canon(dict(rows=res, resources=[dict(name=r['name'], schema=r['schema']) for r in dp.descriptor['resources']])), [e > 0 for e in ex]
        first = None
        ri = 0
        for h in hist:
            if h[0] == 'del':
                shutil.rmtree(os.path.join(root, CP % h[1]))
                continue
            if h[0] == 'fail':
                why, _ = run_once(fail_in=h[1])
                if why:
                    return dict(ok=False, why=why)
                continue
            result, executed = run_once()
            if first is None:
                first = result
            if result != first:
                return dict(ok=False, why='run %d returned a different result than the first run' % (ri + 1))
            want = case['execd'][ri]
            if executed != want:
                return dict(ok=False, why='run %d executed segments %s, the model says %s' % (ri + 1, executed, want))
            ri += 1
        exists = [os.path.exists(os.path.join(root, CP % j, 'stream.ndjson')) for j in range(1, K + 1)]
        if exists != case['exists']:
            return dict(ok=False, why='checkpoint files after the history: %s, model: %s' % (exists, case['exists']))
        return dict(ok=True)
    except Exception as e:
        return dict(ok=False, why='raised %s: %s' % (type(e).__name__, str(e)[:200]))
    finally:
        shutil.rmtree(root, ignore_errors=True)


# ---------------------------------------------------------------------------
# (c) nested Flows: FlowChain.tla

def model_nested(rep, t):
    wd = tlc.workdir('c07n')
    consts = {'MaxTok': 6, 'MaxDepth': 2, 'MaxHist': 3} if t == 'quick' else {'MaxTok': 7, 'MaxDepth': 2, 'MaxHist': 4}
    invs = ['ResultSame', 'ContentOK', 'RowsAsIdeal', 'ResumeSkipsUpstreamUnlessOuter', 'DeviationIsPkgOnly', 'LastWritten', 'DeleteRecomputes', 'FlatMeetsIdeal']
    cfg = tlc.write_cfg(os.path.join(wd, 'fc.cfg'), constants=consts, invariants=invs, constraints=['Export'])
    res = tlc.run_tlc('FlowChain', cfg, workers=1, allow_violation=False, timeout=3000)
    rep.add_tlc(res, 'FlowChain: all bracketed pipelines of <= %(MaxTok)s tokens (depth <= %(MaxDepth)s) x histories of <= %(MaxHist)s runs/deletions' % consts)
    cfg = tlc.write_cfg(os.path.join(wd, 'fc2.cfg'), constants=consts, invariants=['ResumeSkipsUpstream'])
    r2 = tlc.run_tlc('FlowChain', cfg)
    if r2.violated != 'ResumeSkipsUpstream':
        raise tlc.MachineryError('non-vacuity: FlowChain must refute ResumeSkipsUpstream for the implemented absorption on nested pipelines')
    rep.notes['design_level_finding_nested'] = 'TLC refutes ResumeSkipsUpstream for the implemented link absorption on nested pipelines (e.g. s ( c ))'
    return res.cases


def build_pipeline(tokens, root, pk, rw):
    """the bracketed token sequence as real objects: Flow(...) nested as written, checkpoint('cp<pos>'), package-function steps"""
    from dataflows import Flow, checkpoint

    def mk_step(pos):
        def step(package):
            pk[pos] = pk.get(pos, 0) + 1
            first = not package.pkg.descriptor.get('resources')
            if first:
                package.pkg.add_resource({'name': 'r', 'path': 'r.csv', 'profile': 'tabular-data-resource',
                                          'schema': {'fields': [{'name': 't', 'type': 'string'}]}})
            yield package.pkg

            def source():
                for i in range(2):
                    rw[pos] = rw.get(pos, 0) + 1
                    yield {'t': 's%d' % pos}

            def edit(rows):
                for row in rows:
                    rw[pos] = rw.get(pos, 0) + 1
                    yield dict(row, t=row['t'] + ',%d' % pos)
            for rows in package:
                yield edit(rows)
            if first:
                yield source()
        step.__name__ = 'step%d' % pos
        return step

    def parse(i):
        links = []
        while i < len(tokens) and tokens[i] != ')':
            tk = tokens[i]
            if tk == 's':
                links.append(mk_step(i + 1))
                i += 1
            elif tk == 'c':
                links.append(checkpoint('cp%d' % (i + 1), checkpoint_path=root))
                i += 1
            else:
                sub, j = parse(i + 1)
                links.append(Flow(*sub))
                i = j + 1
        return links, i
    links, _ = parse(0)
    return Flow(*links)


def replay_nested(case):
    setup_repo()
    tokens, hist = case['tree'], case['hist']
    cps_ = [i + 1 for i, tk in enumerate(tokens) if tk == 'c']
    steps_ = [i + 1 for i, tk in enumerate(tokens) if tk == 's']
    root = tempfile.mkdtemp(prefix='c07n-', dir=tlc.WORK_ROOT)
    kf = []
    drift = []
    try:
        ri = 0
        first = None
        for h in hist:
            if h[0] == 'del':
                shutil.rmtree(os.path.join(root, 'cp%d' % h[1]))
                continue
            m = case['runs'][ri]
            pk, rw = {}, {}
            buf = io.StringIO()
            try:
                with contextlib.redirect_stdout(buf):
                    res, dp, _ = build_pipeline(tokens, root, pk, rw).results()
            except Exception as e:
                return dict(ok=False, why='run %d raised %s: %s' % (ri + 1, type(e).__name__, str(getattr(e, 'cause', e))[:160]))
            result = canon(dict(rows=res, names=[r['name'] for r in dp.descriptor['resources']]))
            want_t = 's%d' % m['result'][0] + ''.join(',%d' % x for x in m['result'][1:])
            if first is None:
                first = result
                if res != [[{'t': want_t}, {'t': want_t}]]:
                    return dict(ok=False, why='the first run does not apply every step once in pipeline order', got=res, want=want_t)
            if result != first:
                return dict(ok=False, why='run %d returned a different result than the first run' % (ri + 1), got=res)
            real = {p: ('none' if not pk.get(p) else 'full' if rw.get(p) else 'pkg') for p in steps_}
            ideal = {p: m['ideal'][p - 1] for p in steps_}
            impl = {p: m['impl'][p - 1] for p in steps_}
            if real != ideal:
                if m['outer'] and real == impl:
                    kf.append(dict(run=ri + 1, real=real, ideal=ideal))
                else:
                    return dict(ok=False, why='run %d executed %s; no step before the resume point (checkpoint at %d) may run: %s' % (ri + 1, real, m['from'], ideal),
                                impl=impl)
            elif real != impl:
                drift.append(dict(run=ri + 1, real=real, impl=impl))
            out = buf.getvalue()
            saved = sorted(k for k in cps_ if ('checkpoint saved: cp%d\n' % k) in out)
            if saved != sorted(m['written']):
                return dict(ok=False, why='run %d published checkpoints %s, the model says %s' % (ri + 1, saved, sorted(m['written'])))
            ri += 1
        exists = sorted(k for k in cps_ if os.path.exists(os.path.join(root, 'cp%d' % k, 'stream.ndjson')))
        if exists != sorted(case['exists']):
            return dict(ok=False, why='checkpoint files after the history: %s, model: %s' % (exists, sorted(case['exists'])))
        return dict(ok=True, kf=kf, drift=drift)
    finally:
        shutil.rmtree(root, ignore_errors=True)


# ---------------------------------------------------------------------------
# (b) values

def cps(s):
    return [ord(c) for c in s]


ZERO = dict(kind='null', y=0, m=0, d=0, h=0, mi=0, s=0, us=0, aware=False, off=0, txt=[], named=False)


def is_tagobj(v):
    return isinstance(v, dict) and len(v) == 1 and list(v)[0] in ('type{date}', 'type{time}', 'type{decimal}') and isinstance(list(v.values())[0], str)


def project_value(v):
    """python value -> Ejson cell record (None for containers)"""
    z = dict(ZERO)
    if v is None:
        return z
    if is_tagobj(v):
        # a user dict shaped like a typed value: {"type{date}": "2020-01-02"} (Ejson.tla: kind tagobj-*)
        tag, txt = list(v.items())[0]
        if tag == 'type{date}':
            return dict(z, kind='tagobj-date', y=int(txt[0:4]), m=int(txt[5:7]), d=int(txt[8:10]))
        if tag == 'type{time}':
            return dict(z, kind='tagobj-time', h=int(txt[0:2]), mi=int(txt[3:5]), s=int(txt[6:8]))
        return dict(z, kind='tagobj-dec', txt=cps(txt))
    if isinstance(v, bool):
        return dict(z, kind='bool', txt=cps(str(v)))
    if isinstance(v, int):
        return dict(z, kind='int', txt=cps(str(v)))
    if isinstance(v, str):
        return dict(z, kind='str', txt=cps(v))
    if isinstance(v, float):
        # a plain JSON number inside an array / object / any cell: it is a float before and a float after (Ejson: a "plain" cell)
        return dict(z, kind='float', txt=cps(repr(v)))
    if isinstance(v, decimal.Decimal):
        return dict(z, kind='dec', txt=cps(str(v)))
    if isinstance(v, datetime.datetime):
        off = v.utcoffset()
        return dict(z, kind='dt', y=v.year, m=v.month, d=v.day, h=v.hour, mi=v.minute, s=v.second, us=v.microsecond,
                    aware=off is not None, off=int(off.total_seconds()) if off is not None else 0, named=off is not None and v.tzname() is not None)
    if isinstance(v, datetime.date):
        return dict(z, kind='date', y=v.year, m=v.month, d=v.day)
    if isinstance(v, datetime.time):
        return dict(z, kind='time', h=v.hour, mi=v.minute, s=v.second, us=v.microsecond)
    if isinstance(v, datetime.timedelta):
        import isodate
        return dict(z, kind='dur', txt=cps(isodate.duration_isoformat(v)))
    return None


def project_written(w):
    if isinstance(w, dict) and len(w) == 1 and list(w)[0].startswith('type{'):
        tag = list(w)[0]
        val = w[tag]
        if tag == 'type{datetime}':
            return dict(tag=tag, txt=cps(val[0]), has_ofs=val[1] is not None, ofs=val[1] or 0, has_tz=val[2] is not None)
        return dict(tag=tag, txt=cps(val), has_ofs=False, ofs=0, has_tz=False)
    if w is None:
        return dict(tag='plain', txt=[], has_ofs=False, ofs=0, has_tz=False)
    return dict(tag='plain', txt=cps(str(w)), has_ofs=False, ofs=0, has_tz=False)


MISMATCH = object()      # the three views of a cell do not even have the same structure


def leaves(v, w, o, path=''):
    """zip the first-run value, the written json and the resumed value down to typed leaves"""
    if is_tagobj(v):
        yield path, v, w, o
    elif isinstance(v, dict) and not (isinstance(w, dict) and len(w) == 1 and list(w)[0].startswith('type{')):
        if not isinstance(w, dict) or not isinstance(o, dict) or set(v) != set(w) or set(v) != set(o):
            yield path, MISMATCH, MISMATCH, MISMATCH
            return
        for k in v:
            yield from leaves(v[k], w[k], o[k], path + '.' + k)
    elif isinstance(v, (set, frozenset)):
        # sets are written as {"type{set}": [...]} and must come back as sets (elements are ints here: a total order)
        if not (isinstance(w, dict) and list(w) == ['type{set}'] and isinstance(w['type{set}'], list)) or not isinstance(o, (set, frozenset)) \
                or len(w['type{set}']) != len(v) or len(o) != len(v):
            yield path, MISMATCH, MISMATCH, MISMATCH
            return
        for i, (a, b, c) in enumerate(zip(sorted(v), sorted(w['type{set}']), sorted(o))):
            yield from leaves(a, b, c, path + '{%d}' % i)
    elif isinstance(v, (list, tuple)):
        if not isinstance(w, list) or not isinstance(o, (list, tuple)) or len(w) != len(v) or len(o) != len(v):
            yield path, MISMATCH, MISMATCH, MISMATCH
            return
        for i, (a, b, c) in enumerate(zip(v, w, o)):
            yield from leaves(a, b, c, path + '[%d]' % i)
    else:
        yield path, v, w, o


class _NoName(datetime.tzinfo):
    def __init__(self, minutes):
        self.minutes = minutes

    def utcoffset(self, d):
        return datetime.timedelta(minutes=self.minutes)

    def dst(self, d):
        return None

    def tzname(self, d):
        return None

    def __deepcopy__(self, memo):
        return _NoName(self.minutes)

    def __reduce__(self):          # (tzinfo's own __reduce__ would rebuild the object without its argument)
        return (_NoName, (self.minutes,))


def catalogue_rows():
    D = decimal.Decimal
    tz = datetime.timezone
    td = datetime.timedelta
    rows = []
    offs = [-43200, -18000, -3600, -60, 0, 60, 19800, 50400]
    for i, off in enumerate(offs):
        rows.append(dict(i=i, dt=datetime.datetime(1999 + i, 1, 2, 3, 4, 5, tzinfo=tz(td(seconds=off))), dec=D('1.50'),
                         d=datetime.date(2000, 2, 29), t=datetime.time(23, 59, 58), s=u'café \U0001F600', dur=td(days=1, seconds=7),
                         arr=[1, 'x', D('2.5'), [datetime.date(2001, 1, 1)]], obj=dict(k=D('0.1'), z=dict(n=None))))
    rows.append(dict(i=100, dt=datetime.datetime(1, 1, 1, 0, 0, 0), dec=D('-0E-7'), d=datetime.date(1, 1, 1), t=datetime.time(0, 0, 0), s='',
                     dur=td(0), arr=[], obj={}))
    rows.append(dict(i=101, dt=datetime.datetime(9999, 12, 31, 23, 59, 59), dec=D('123456789012345678901234567890.000000000001'),
                     d=datetime.date(9999, 12, 31), t=datetime.time(12, 0, 1), s='line\nbreak "quoted" \\ back', dur=td(seconds=86399),
                     arr=[None, True, False], obj=dict(a=[1, 2, dict(b=datetime.date(2020, 5, 5))])))
    rows.append(dict(i=102, dt=None, dec=None, d=None, t=None, s=None, dur=None, arr=None, obj=None))
    rows.append(dict(i=103, dt=datetime.datetime(2020, 6, 7, 8, 9, 10, 123456), dec=D('1E+5'), d=datetime.date(2020, 6, 7),
                     t=datetime.time(1, 2, 3, 500000), s='micro', dur=td(hours=5), arr=[D('1')], obj=dict(x=1)))
    # sets (the encoding claims them: type{set}), at top level of an `any` field and nested
    rows.append(dict(i=104, dt=None, dec=None, d=None, t=None, s='sets', dur=None, arr=[{1, 2}, set()], obj=dict(tags={3, 1, 2}), anyv={7, -1}))
    # user dicts that happen to look like the encoding of a typed value (inside an object cell, an array cell, an any cell)
    rows.append(dict(i=105, dt=None, dec=None, d=None, t=None, s='tag objects', dur=None, arr=[{'type{decimal}': '1.5'}, 1],
                     obj=dict(when={'type{date}': '2020-01-02'}, at={'type{time}': '01:02:03'}), anyv={'type{date}': '1999-12-31'}))
    # plain floats inside array / object / any cells (a float is not a Decimal when it comes back)
    rows.append(dict(i=106, dt=None, dec=None, d=None, t=None, s='floats', dur=None, arr=[0.1, 32.0853, -2.5e-7, [1e300]], obj=dict(lat=32.0853, lon=dict(v=0.3)), anyv=0.1))
    # zone names say nothing about the offset: two zones called CST (Chicago, Shanghai), two called IST
    for j, (name, hours) in enumerate((('CST', -6), ('CST', 8), ('IST', 5.5), ('IST', 2), ('CST', -6))):
        rows.append(dict(i=110 + j, dt=datetime.datetime(2021, 3, 4, 9, 0, 0, tzinfo=tz(td(hours=hours), name)), dec=None, d=None, t=None, s=name, dur=None, arr=None, obj=None))
    # zones that have no NAME (dateutil's tzoffset(None, seconds) - what set_type(format='any') produces -, a tzinfo of one's own)
    from dateutil.tz import tzoffset

    for j, zone in enumerate((tzoffset(None, 3600), tzoffset(None, -18000), _NoName(330), _NoName(-60))):
        rows.append(dict(i=120 + j, dt=datetime.datetime(2020, 1, 2, 3, 4, 5, tzinfo=zone), dec=None, d=None, t=None, s='unnamed zone', dur=None, arr=None, obj=None))
    for x in rows:
        x.setdefault('anyv', None)
    return rows


FIELDS = [('i', 'integer'), ('dt', 'datetime'), ('dec', 'number'), ('d', 'date'), ('t', 'time'), ('s', 'string'),
          ('dur', 'duration'), ('arr', 'array'), ('obj', 'object'), ('anyv', 'any')]


def random_rows(r, n):
    D = decimal.Decimal
    tz = datetime.timezone
    td = datetime.timedelta
    rows = []
    for i in range(n):
        aware = r.random() < 0.6
        off = r.choice([r.randrange(-86340, 86340, 60), r.randrange(-43200, 50400, 900)])
        us = r.choice([0, 0, 0, r.randrange(1, 999999)])
        dt = datetime.datetime(r.randint(1, 9999), r.randint(1, 12), r.randint(1, 28), r.randint(0, 23), r.randint(0, 59), r.randint(0, 59), us,
                               tzinfo=(tz(td(seconds=off), r.choice(['CST', 'IST'])) if r.random() < 0.3 else tz(td(seconds=off))) if aware else None)
        dec = D(r.choice(['%d.%0*d' % (r.randint(-10 ** 12, 10 ** 12), r.randint(1, 20), r.randint(0, 10 ** 9)), '%dE%d' % (r.randint(-99, 99), r.randint(-30, 30)), '0', '-0.0']))
        s = ''.join(r.choice(['a', 'Z', ' ', '"', '\\', '\n', '\t', u'é', u'中', u'\U0001F600', ',', '{', '}']) for _ in range(r.randint(0, 8)))
        rows.append(dict(i=i, dt=dt, dec=dec, d=datetime.date(r.randint(1, 9999), r.randint(1, 12), r.randint(1, 28)),
                         t=datetime.time(r.randint(0, 23), r.randint(0, 59), r.randint(0, 59), r.choice([0, 0, r.randrange(1, 999999)])),
                         s=s, dur=td(days=r.randint(0, 400), seconds=r.randint(0, 86399)),
                         arr=[r.randint(-5, 5), s, [dec], r.choice([0.1, 0.5, 2.0 / 3, -1e-9])], obj=dict(k=dec, n=dict(d=datetime.date(2000, 1, r.randint(1, 28))), f=r.random()),
                         anyv=r.choice([None, {r.randint(-9, 9) for _ in range(r.randint(0, 3))}, r.randint(0, 5)])))
    return rows


def value_cells(item):
    """first run + resumed run of a typed table through a real checkpoint -> list of TLC cell records (+ structural verdict)"""
    from dataflows import Flow, checkpoint
    from ..common import tuple_source
    setup_repo()
    rows = item['rows']
    root = tempfile.mkdtemp(prefix='c07v-', dir=tlc.WORK_ROOT)
    try:
        def build():
            import copy
            return Flow(tuple_source([('t', FIELDS, copy.deepcopy(rows))]), checkpoint('cp', checkpoint_path=root))
        try:
            with contextlib.redirect_stdout(io.StringIO()), contextlib.redirect_stderr(io.StringIO()):
                first = build().datastream()
                first_rows = [list(r) for r in first.res_iter][0]
                first_desc = first.dp.descriptor
                second = build().datastream()
                second_rows = [list(r) for r in second.res_iter][0]
                second_desc = second.dp.descriptor
        except Exception as e:
            # values of every type the encoding claims must pass a checkpoint: a run that raises is a verdict, not a harness failure
            return dict(cells=[], problems=['the first run / the resumed run raised %s: %s' % (type(e).__name__, str(getattr(e, 'cause', e))[:150])])
        lines = open(os.path.join(root, 'cp', 'stream.ndjson')).read().split('\n')
        written = [json.loads(l) for l in lines[1:1 + len(rows)]]
        cells = []
        problems = []
        if canon(first_desc) != canon(second_desc):
            problems.append('descriptor of the resumed run differs from the first run')
        if len(second_rows) != len(first_rows):
            problems.append('row count differs: %d vs %d' % (len(first_rows), len(second_rows)))
        for ri, (a, w, o) in enumerate(zip(first_rows, written, second_rows)):
            if set(a.keys()) != set(o.keys()):
                # a null is a value: the resumed row carries the same fields as the row of the first run (the next step reads row[field];
                # the ORDER of the keys of a row means nothing)
                problems.append('row %d: the resumed row carries the fields %s, the first run\'s row %s' % (ri, list(o.keys()), list(a.keys())))
            for name, _ in FIELDS:
                for path, va, vw, vo in leaves(a.get(name), w.get(name), o.get(name), name):
                    if va is MISMATCH:
                        problems.append('row %d %s: structure differs between first run / file / resumed run' % (ri, path))
                        continue
                    pa, po = project_value(va), project_value(vo)
                    if pa is None or po is None or (va is None and vw is None and vo is None and path != name and False):
                        problems.append('row %d %s: structure differs between first run / file / resumed run' % (ri, path))
                        continue
                    cells.append(dict(inv=pa, wr=project_written(vw), outv=po, where='row %d %s' % (ri, path)))
        return dict(cells=cells, problems=problems)
    finally:
        shutil.rmtree(root, ignore_errors=True)


def validate_cells(rep, cells):
    wd = tlc.workdir('c07t')
    tf = tlc.write_ndjson(os.path.join(wd, 'cells.ndjson'), [dict(inv=c['inv'], wr=c['wr'], outv=c['outv']) for c in cells])
    cfg = tlc.write_cfg(os.path.join(wd, 'tr.cfg'), spec='TraceSpec', constants={'OffsetAs': '"total"', 'KeepMicro': 'TRUE', 'WithTagObjects': 'TRUE', 'AwareBy': '"offset"'}, constraints=['Verdict'])
    res = tlc.run_tlc('EjsonTrace', cfg, workers=1, env={'TRACE_FILE': tf}, allow_violation=False, timeout=3000)
    rep.add_tlc(res, 'EjsonTrace: %d typed cells through a real checkpoint' % len(cells))
    out = {v[0]: dict(same=v[1], same_dev=v[2], enc=v[3], dec=v[4]) for v in res.tuples('VERDICT')}
    if len(out) != len(cells):
        raise tlc.MachineryError('EjsonTrace: %d verdicts for %d cells' % (len(out), len(cells)))
    return [out[i + 1] for i in range(len(cells))]


def binding_selftest(rep, cells):
    """a recorded cell with one field corrupted must be rejected by the trace spec (else the binding does not bind)"""
    import copy
    probe = next((c for c in cells if c['inv']['kind'] == 'dt' and c['inv']['aware']), None)
    if probe is None:
        return
    c1 = copy.deepcopy(probe)
    c1['outv']['off'] += 3600                 # the resumed value is an hour off
    c2 = copy.deepcopy(probe)
    c2['wr']['txt'][3] = c2['wr']['txt'][3] ^ 1    # one digit of the written year differs
    v1, v2 = validate_cells(rep, [c1, c2])
    if v1['same'] or v2['enc']:
        raise tlc.MachineryError('EjsonTrace accepted a corrupted cell (same=%s enc=%s): the trace spec does not bind' % (v1['same'], v2['enc']))
    rep.notes['trace_binding_selftest'] = 'a cell whose resumed offset is changed fails out=in; a cell whose written text is changed fails bytes=Encode(in)'


def model_reuse(rep):
    """FlowReuse.tla: histories of runs of ONE Flow object that ends in a checkpoint"""
    wd = tlc.workdir('c07r')
    cfg = tlc.write_cfg(os.path.join(wd, 'fr.cfg'), constants={'MaxLen': 5, 'Accumulates': 'FALSE'}, invariants=['ComputesOnce'], constraints=['Export'])
    res = tlc.run_tlc('FlowReuse', cfg, workers=1, allow_violation=False)
    rep.add_tlc(res, 'FlowReuse: every run / delete history of length <= 5 on one Flow object: a run resumes or computes ONCE')
    cfg = tlc.write_cfg(os.path.join(wd, 'fr0.cfg'), constants={'MaxLen': 4, 'Accumulates': 'TRUE'}, invariants=['ComputesOnce'])
    if tlc.run_tlc('FlowReuse', cfg).violated != 'ComputesOnce':
        raise tlc.MachineryError('non-vacuity: FlowReuse with Accumulates=TRUE (the pinned checkpoint keeps the links handed over before a resumed run) must violate ComputesOnce')
    seen, out = set(), []
    for c in res.cases:
        k = canon(c['hist'])
        if k not in seen and any(h[0] == 'run' for h in c['hist']):
            seen.add(k)
            out.append(dict(flow_reuse=True, hist=c['hist'], mult=c['mult']))
    return out


def reuse_case(c):
    """the history on ONE real Flow object: every run returns the rows of a fresh run, and the upstream step runs mult times"""
    from dataflows import Flow, checkpoint
    setup_repo()
    root = tempfile.mkdtemp(prefix='c07u-', dir=tlc.WORK_ROOT)
    try:
        seen = []

        def upstream(row):
            seen.append(row['a'])
        rows = [dict(a=i, b='r%d' % i) for i in range(3)]
        f = Flow([dict(r) for r in rows], upstream, checkpoint('cp', checkpoint_path=root))
        runs = iter(c['mult'])
        for n, h in enumerate(c['hist'], start=1):
            if h[0] == 'del':
                shutil.rmtree(os.path.join(root, 'cp'))
                continue
            want = next(runs)
            del seen[:]
            try:
                with contextlib.redirect_stdout(io.StringIO()), contextlib.redirect_stderr(io.StringIO()):
                    res = f.results()[0]
            except Exception as e:
                return dict(ok=False, why='run %d of the history on one Flow object raised %s: %s' % (n, type(e).__name__, str(getattr(e, 'cause', e))[:120]))
            if [[dict(r) for r in x] for x in res] != [rows]:
                return dict(ok=False, why='run %d of the history on one Flow object does not return the rows of a fresh run' % n, got=[[dict(r) for r in x] for x in res])
            if len(seen) != want * len(rows):
                return dict(ok=False, why='run %d executed the upstream step %d times per row, the specification says %d' % (n, len(seen) // len(rows), want))
        return dict(ok=True)
    finally:
        shutil.rmtree(root, ignore_errors=True)


_DEFAULT_PATH_SCRIPT = r"""
import sys, os, shutil, json, io, contextlib
sys.path.insert(0, sys.argv[1])
sys.dont_write_bytecode = True
import dataflows as DF
os.makedirs(sys.argv[2]); os.chdir(sys.argv[2])
runs = []
def src():
    runs.append(1)
    yield from ({'a': i} for i in range(3))
def go():
    with contextlib.redirect_stdout(io.StringIO()):
        return DF.Flow(src(), DF.checkpoint('n')).results()[0]
r1 = go(); exists = os.path.isdir(os.path.join('.checkpoints', 'n')); r2 = go(); after_resume = len(runs)
shutil.rmtree(os.path.join('.checkpoints', 'n'), ignore_errors=True); r3 = go()
print(json.dumps(dict(exists=exists, after_resume=after_resume, runs=len(runs), same=(r1 == r2 == r3))))
"""


def default_path_case(item):
    """checkpoint(name) with the DEFAULT checkpoint_path: '.checkpoints/<name>' of the directory the run is started in - also when that
    is not the directory the library was imported in.  run / run (resumes) / delete the directory / run (computes again)"""
    import subprocess
    import sys
    from ..common import REPO
    root = tempfile.mkdtemp(prefix='c07d-', dir=tlc.WORK_ROOT)
    try:
        script = os.path.join(root, 'case.py')
        open(script, 'w').write(_DEFAULT_PATH_SCRIPT)
        p = subprocess.run([sys.executable, script, REPO, os.path.join(root, item['sub'])], cwd=root, stdout=subprocess.PIPE, stderr=subprocess.PIPE, text=True, timeout=300)
        if p.returncode != 0:
            return dict(ok=False, why='a run with the default checkpoint path raised', stderr=p.stderr[-300:])
        out = json.loads(p.stdout.strip().splitlines()[-1])
        if not out['exists']:
            return dict(ok=False, why='the checkpoint was not saved under .checkpoints/<name> of the working directory', got=out)
        if out['after_resume'] != 1:
            return dict(ok=False, why='the second run executed the source although the checkpoint was there', got=out)
        if out['runs'] != 2:
            return dict(ok=False, why='after the checkpoint directory was removed the next run did not compute from the source again', got=out)
        if not out['same']:
            return dict(ok=False, why='the three runs returned different rows', got=out)
        return dict(ok=True)
    finally:
        shutil.rmtree(root, ignore_errors=True)


def run():
    rep = Report(PROP)
    t = rep.tier
    setup_repo()
    r = rng(PROP)
    for it in (dict(default_path=True, sub='work'), dict(default_path=True, sub=os.path.join('deep', 'er'))):
        out = default_path_case(it)
        rep.count(1, traces=1)
        rep.mark_distinct(it)
        if not out['ok']:
            rep.violation(it, dict(case=it, **{k: v for k, v in out.items() if k != 'ok'}), category='default-checkpoint-path/%s' % out['why'][:40])
    for c in model_reuse(rep):
        out = reuse_case(c)
        rep.count(1, traces=1)
        rep.mark_distinct(c)
        if not out['ok']:
            rep.violation(c, dict(case=c, **{k: v for k, v in out.items() if k != 'ok'}), category='one-flow-object/%s' % out['why'][:40])
    cases = model(rep, t)
    res = pmap(replay_history, cases, chunksize=4)
    errs = harness_errors(res)
    if errs:
        raise tlc.MachineryError('harness error in history replay: ' + errs[0])
    for c, out in zip(cases, res):
        rep.count(1, traces=1)
        if not out.get('trivial'):
            rep.mark_distinct(c['hist'])
        if not out['ok']:
            rep.violation(c, dict(history=c['hist'], k=c['k'], why=out['why']), category='history/K%d' % c['k'])
    rep.sample(dict(history=[c for c in cases if len(c['hist']) >= 4][0]))
    # nested Flows
    ncases = model_nested(rep, t)
    if t == 'quick':
        nested = [c for c in ncases if '(' in c['tree']]
        flat = [c for c in ncases if '(' not in c['tree']]
        r.shuffle(nested)
        r.shuffle(flat)
        ncases = nested[:1500] + flat[:200]
    nres = pmap(replay_nested, ncases, chunksize=8)
    errs = harness_errors(nres)
    if errs:
        raise tlc.MachineryError('harness error in nested-pipeline replay: ' + errs[0])
    for c, out in zip(ncases, nres):
        rep.count(1, traces=1)
        rep.mark_distinct(dict(t=c['tree'], h=c['hist']))
        if not out['ok']:
            rep.violation(c, dict(pipeline=' '.join(c['tree']), history=c['hist'], **{k: v for k, v in out.items() if k != 'ok'}), category='nested/%s' % out['why'][:40])
            continue
        for k in out['kf']:
            rep.known(KF_NESTED, 'steps of an enclosing Flow before a nested Flow holding the checkpoint still run their package phase on resume',
                      dict(pipeline=' '.join(c['tree']), history=c['hist'], **k))
        for d in out['drift']:
            rep.model_drift('FlowChain: the real run skipped more than the implemented absorption predicts (pipeline %s)' % ' '.join(c['tree']), dict(case=c, **d))
    rep.sample(dict(nested_pipeline=next((c for c in ncases if '(' in c['tree'] and len(c['hist']) >= 3), ncases[0])))
    # values
    tables = [dict(rows=catalogue_rows())]
    for i in range(8 if t == 'quick' else 150):
        tables.append(dict(rows=random_rows(r, 12)))
    vres = pmap(value_cells, tables, procs=8, chunksize=1)
    errs = harness_errors(vres)
    if errs:
        raise tlc.MachineryError('harness error in value round trip: ' + errs[0])
    cells = []
    for ti, out in enumerate(vres):
        for p in out['problems']:
            rep.violation(dict(table=ti), dict(table=ti, why=p), category='values/structure')
        cells += out['cells']
    verd = validate_cells(rep, cells)
    binding_selftest(rep, cells)
    for c, v in zip(cells, verd):
        rep.count(1, traces=1)
        rep.mark_distinct(dict(i=c['inv'], w=c['wr']))
        if not v['same']:
            if v['same_dev'] and c['inv']['kind'].startswith('tagobj'):
                rep.known(KF_TAGOBJ, 'a user dict shaped like the encoding of a typed value comes back as that typed value', c)
            elif v['same_dev'] and c['inv']['us'] != 0 and c['inv']['kind'] in ('dt', 'time'):
                rep.known(KF_MICRO, 'sub-second part of a time/datetime lost on resume', c)
            else:
                rep.violation(c, dict(cell=c['where'], value_in=c['inv'], written=c['wr'], value_out=c['outv']), category='values/%s' % c['inv']['kind'])
        elif not v['enc'] or not v['dec']:
            rep.model_drift('bytes written / value decoded differ from Ejson.tla although the value round-trips (%s)' % c['where'], c)
    rep.sample(dict(cell=cells[1]))
    rep.notes['typed_cells'] = len(cells)
    rep.assumptions += ['a run = a freshly constructed Flow (re-running the same Flow object after deleting the directory is outside the quantifier, DESIGN.md R15)',
                        'typed values enter through load((descriptor, iterators)) so that their Python types are exactly the given ones',
                        'aware datetimes are compared by wall-clock fields + UTC offset']
    return rep.finish()


def replay(path):
    setup_repo()
    rec = json.load(open(path))
    c = rec['case']
    if c.get('flow_reuse'):
        out = reuse_case(c)
        print(out)
        bad = not out['ok']
    elif c.get('default_path'):
        out = default_path_case(c)
        print(out)
        bad = not out['ok']
    elif 'tree' in c:
        out = replay_nested(c)
        print(out)
        bad = not out['ok']
    elif 'hist' in c:
        out = replay_history(c)
        print(out)
        bad = not out['ok']
    else:
        print('value cells are re-derived by re-running the check')
        bad = False
    if bad:
        print('VIOLATION property=%s replay=%s' % (PROP, path))
    return 1 if bad else 0
