"""C14 - set_type and validate cast valid values and apply the error policy exactly.

Spec:   spec/ProcValidate.tla: the declarative meaning of every policy (raise / drop / ignore / clear / custom 4- and
        5-argument handlers) and the cast loop as implemented (one action per cell and per row); TLC checks loop =
        definition (emitted rows, their indices, the offending row/field of a raise, the exact handler call log) and
        ValidRowsUntouched on every table of <= 3 rows x 2 checked fields x {native, lexical, invalid, null}.
Bind:   every exported case is instantiated with concrete values for integer / number / boolean / date / datetime / year /
        constrained string / array and run through set_type (field-name regex), validate(), results(on_error=) and the
        dumpers' validator; the cast outcome of each cell comes from tableschema itself (the property's reference).
"""
import contextlib
import datetime
import io
import json
import os
import shutil
import tempfile
from decimal import Decimal

from .. import tlc
from ..common import Report, pmap, harness_errors, rng, setup_repo, canon

PROP = 'C14'

TYPES = {
    'integer': (dict(type='integer'), 5, '7', 'x'),
    'number': (dict(type='number'), Decimal('1.5'), '2.5', 'abc'),
    'boolean': (dict(type='boolean'), True, 'true', 'maybe'),
    'date': (dict(type='date'), datetime.date(2020, 1, 2), '2021-03-04', '2020-13-45'),
    'datetime': (dict(type='datetime'), datetime.datetime(2020, 1, 2, 3, 4, 5), '2021-03-04T05:06:07Z', 'junk'),
    'year': (dict(type='year'), 2020, '1999', 'yr'),
    'string3': (dict(type='string', constraints=dict(maxLength=3)), 'ab', 'cd', 'toolong'),
    'array': (dict(type='array'), [1, 2], '[3, 4]', 'notjson'),
    'intmin': (dict(type='integer', constraints=dict(minimum=0)), 3, '4', -1),
    # the invalid value EQUALS a valid one of another class (True == 1 == 1.0, same hash): a cast decided per value, never per "equal" value
    'numbool': (dict(type='number'), 1.0, '1.0', True),
    'boolone': (dict(type='boolean'), True, 'true', 1),
    'intbool': (dict(type='integer'), 1, '1', True),
    # two fields of one type and format whose CONSTRAINTS differ: the text '4' is valid for the first and invalid for the second
    'int_lax': (dict(type='integer'), 3, '4', 'x'),
    'int_min5': (dict(type='integer', constraints=dict(minimum=5)), 7, '8', '4'),
    # required: the invalid value of this setting is NULL itself (cases with a valid-null cell in such a column are not instantiated)
    'intreq': (dict(type='integer', constraints=dict(required=True)), 5, '7', None),
}
CHANNELS = ['set_type', 'set_type_transform', 'validate', 'results', 'dumper']


def model(rep, t):
    wd = tlc.workdir('c14')
    cfg = tlc.write_cfg(os.path.join(wd, 'pv.cfg'), constants={'MaxRows': 3, 'NFields': 2,
                        'Policies': '{"raise", "drop", "ignore", "clear", "custom4", "custom5", "custom5r"}'},
                        invariants=['LoopMeetsDefinition', 'ValidRowsUntouched'], constraints=['Export'])
    res = tlc.run_tlc('ProcValidate', cfg, workers=1, allow_violation=False, timeout=3000)
    rep.add_tlc(res, 'ProcValidate <=3 rows x 2 fields x 4 cell classes x 7 policies: loop = definition, ValidRowsUntouched')
    return res.cases


def cell_value(cls, tname):
    opts, nat, lex, bad = TYPES[tname]
    return {'nat': nat, 'lex': lex, 'bad': bad, 'nul': None}[cls]


def native(tname, raw):
    from tableschema import Field
    opts = TYPES[tname][0]
    return Field(dict(name='x', **opts)).cast_value(raw)


def replay_case(item):
    import dataflows as DF
    from dataflows import Flow
    import sys as _sys
    sv = _sys.modules['dataflows.base.schema_validator']
    from ..common import tuple_source
    setup_repo()
    c, ch, t1, t2 = item['case'], item['channel'], item['t1'], item['t2']
    pattern = item.get('pattern', 'f[12]')
    if ch in ('set_type', 'set_type_transform'):
        t2 = t1
    tn = [t1, t2]
    rows = []
    # the resource's schema may declare missing values of its own (update_schema / load(override_schema=)): a cell holding one of them
    # is a NULL for every cast, whoever does it
    mv = item.get('mv')
    for i, r in enumerate(c['tbl']):
        rows.append(dict(rid=i, f1=cell_value(r[0], t1), f2=cell_value(r[1], t2), f1x='keep-%d' % i))
        if mv:
            for fn, cls in zip(('f1', 'f2'), r):
                if cls == 'nul' and i % 2 == 0:
                    rows[-1][fn] = 'n/a'
    calls = []
    pol = c['policy']

    def custom4(res_name, row, i, e):
        calls.append([i, 0])
        return i % 2 == 0

    def custom5(res_name, row, i, e, field):
        calls.append([i, {'f1': 1, 'f2': 2}.get(getattr(field, 'name', None), 0)])
        if field is not None and field.name == 'f1':
            row['f1'] = None
            return True
        return False
    def custom5r(res_name, row, i, e, which):        # (the fifth parameter has a name of its own: handlers are told apart by their arity)
        calls.append([i, {'f1': 1, 'f2': 2}.get(getattr(which, 'name', None), 0)])
        if which is not None and which.name == 'f2':
            row['f2'] = None
            return True
        return False
    def custom5_default(res_name, row, i, e, field=None):
        # the same 5-argument handler, its last parameter written with a default (validate(<row check>) calls handlers without a field)
        return custom5(res_name, row, i, e, field)
    if pol == 'custom5' and len(c['tbl']) % 2 == 1:
        custom5_used = custom5_default
    else:
        custom5_used = custom5
    handler = {'raise': sv.raise_exception, 'drop': sv.drop, 'ignore': sv.ignore, 'clear': sv.clear,
               'custom4': custom4, 'custom5': custom5_used, 'custom5r': custom5r}[pol]
    root = tempfile.mkdtemp(prefix='c14-', dir=tlc.WORK_ROOT)
    try:
        anyf = [('rid', 'integer'), ('f1', 'any'), ('f2', 'any'), ('f1x', 'string')]
        typed = [('rid', 'integer'), ('f1', TYPES[t1][0]['type'], {k: v for k, v in TYPES[t1][0].items() if k != 'type'}),
                 ('f2', TYPES[t2][0]['type'], {k: v for k, v in TYPES[t2][0].items() if k != 'type'}), ('f1x', 'string')]
        raised = None
        out = None
        with contextlib.redirect_stdout(io.StringIO()), contextlib.redirect_stderr(io.StringIO()):
            try:
                if ch == 'set_type':
                    opts = dict(TYPES[t1][0])
                    ds = Flow(tuple_source([('t', anyf, rows, None, ({'missingValues': ['', 'n/a']} if mv else None))]), DF.set_type(pattern, on_error=handler, **opts)).datastream()
                    out = [[dict(r) for r in res] for res in ds.res_iter][0]
                elif ch == 'set_type_transform':
                    # lexical values arrive wrapped in '<...>' and only the transform makes them castable: it must run BEFORE the cast,
                    # on every value of the checked fields and on nothing else
                    opts = dict(TYPES[t1][0])
                    wrapped = [dict(r, **{f: ('<%s>' % r[f] if isinstance(r[f], str) and c['tbl'][i][j] == 'lex' else r[f])
                                          for j, f in enumerate(('f1', 'f2'))}) for i, r in enumerate(rows)]

                    def unwrap(v):
                        return v[1:-1] if isinstance(v, str) and v.startswith('<') and v.endswith('>') else v
                    def unwrap3(v, field_name, row):
                        # the documented richer signature: the transform is told which field of which row it is looking at
                        if field_name not in ('f1', 'f2') or row.get(field_name) is not v or row.get('f1x') is None:
                            return 'WRONG-ARGUMENTS'
                        return unwrap(v)
                    tf = unwrap3 if len(c['tbl']) % 2 else unwrap
                    ds = Flow(tuple_source([('t', anyf, wrapped)]), DF.set_type(pattern, on_error=handler, transform=tf, **opts)).datastream()
                    out = [[dict(r) for r in res] for res in ds.res_iter][0]
                elif ch == 'validate':
                    ds = Flow(tuple_source([('t', typed, rows, None, ({'missingValues': ['', 'n/a']} if mv else None))]), DF.validate(on_error=handler)).datastream()
                    out = [[dict(r) for r in res] for res in ds.res_iter][0]
                elif ch == 'results':
                    out = Flow(tuple_source([('t', typed, rows)])).results(on_error=handler)[0][0]
                else:
                    ds = Flow(tuple_source([('t', typed, rows)]), DF.dump_to_path(os.path.join(root, 'o'), format='json', validator_options=dict(on_error=handler))).datastream()
                    out = [[dict(r) for r in res] for res in ds.res_iter][0]
            except DF.exceptions.ProcessorError as e:
                raised = e.cause
            except sv.ValidationError as e:
                raised = e
        # expectation
        if c['raised'] >= 0:
            if raised is None:
                return dict(ok=False, why='no error raised although row %d has an uncastable value (policy raise)' % c['raised'], got=out)
            if not isinstance(raised, sv.ValidationError):
                return dict(ok=False, why='raised %s instead of ValidationError' % type(raised).__name__)
            if raised.index != c['raised'] or (raised.row or {}).get('rid') != c['raised']:
                return dict(ok=False, why='ValidationError carries index %r / row %r, expected row %d' % (raised.index, (raised.row or {}).get('rid'), c['raised']))
            return dict(ok=True)
        if raised is not None:
            return dict(ok=False, why='raised %s: %s although the policy is %s' % (type(raised).__name__, str(raised)[:100], pol))
        want = []
        for idx, cells in zip(c['idx'], c['rows']):
            src = rows[idx]
            w = dict(rid=idx, f1x=src['f1x'])
            for fi, (fname, cls) in enumerate(zip(('f1', 'f2'), cells)):
                orig_cls = c['tbl'][idx][fi]
                if cls == 'nul':
                    w[fname] = None
                elif cls == 'bad':
                    w[fname] = src[fname]
                else:
                    w[fname] = native(tn[fi], src[fname])
            want.append(w)
        got = [dict(rid=r.get('rid'), f1=r.get('f1'), f2=r.get('f2'), f1x=r.get('f1x')) for r in out]
        if canon(got) != canon(want) or [type(x.get('f1')).__name__ for x in got] != [type(x.get('f1')).__name__ for x in want]:
            return dict(ok=False, why='emitted rows differ', got=got, want=want)
        if pol in ('custom4', 'custom5', 'custom5r'):
            wc = [[a, (b if pol != 'custom4' else 0)] for a, b in c['calls']]
            if calls != wc:
                return dict(ok=False, why='handler call log differs', got=calls, want=wc)
        return dict(ok=True)
    except Exception as e:
        import traceback
        return dict(ok=False, why='harness/flow raised %s: %s' % (type(e).__name__, str(e)[:200]), tb=traceback.format_exc()[-600:])
    finally:
        shutil.rmtree(root, ignore_errors=True)


def run():
    rep = Report(PROP)
    t = rep.tier
    setup_repo()
    r = rng(PROP)
    cases = model(rep, t)
    tnames = sorted(TYPES)
    items = []
    for c in cases:
        reps = 1 if t == 'quick' else 3
        if t == 'quick' and r.random() > 0.2:
            continue
        for _ in range(reps):
            ch = r.choice(CHANNELS)
            if ch == 'dumper' and c['policy'] not in ('raise', 'drop', 'clear'):
                ch = r.choice(CHANNELS[:4])     # a dumper cannot serialise the invalid values that ignore / keep-handlers let through
            # the dumpers re-declare the format of datetime fields (their own dialect), so its default lexical form is not valid there
            tn2 = [x for x in tnames if x != 'datetime'] if ch == 'dumper' else tnames
            nul1 = any(row[0] == 'nul' for row in c['tbl'])
            nul2 = any(row[1] == 'nul' for row in c['tbl'])
            same = ch in ('set_type', 'set_type_transform')            # both checked fields get the first type there
            t1 = r.choice([x for x in tn2 if x != 'intreq' or not (nul1 or (same and nul2))])
            t2 = r.choice([x for x in tn2 if x != 'intreq' or not nul2])
            items.append(dict(case=c, channel=ch, t1=t1, t2=t2, pattern=r.choice(['f[12]', 'f1|f2', 'f2|f1', 'f(1|2)']),
                              mv=(ch in ('set_type', 'validate') and 'intreq' not in (t1, t2) and r.random() < 0.3)))
            if ch == 'validate' and r.random() < 0.15:
                items.append(dict(case=c, channel=ch, t1='int_lax', t2='int_min5', pattern='f[12]', mv=False))
    res = pmap(replay_case, items, chunksize=32)
    errs = harness_errors(res)
    if errs:
        raise tlc.MachineryError('harness error in validate replay: ' + errs[0])
    for it, out in zip(items, res):
        rep.count(1, traces=1)
        if any('bad' in row for row in it['case']['tbl']):
            rep.mark_distinct(dict(c=it['case']['tbl'], p=it['case']['policy'], ch=it['channel'], t=[it['t1'], it['t2']]))
        if not out['ok']:
            rep.violation(it, dict(policy=it['case']['policy'], channel=it['channel'], types=[it['t1'], it['t2']], table=it['case']['tbl'],
                                   **{k: v for k, v in out.items() if k != 'ok'}),
                          category='%s/%s/%s' % (it['channel'], it['case']['policy'], out['why'][:40]))
    rep.sample(dict(case=items[len(items) // 2]))
    rep.assumptions += ['the cast outcome of every cell (native value / CastError) is tableschema.Field.cast_value itself',
                        'concrete values per class and type come from a fixed catalogue (TYPES in harness/props/c14.py)']
    return rep.finish(exhaustive=(t == 'thorough'))


def replay(path):
    setup_repo()
    rec = json.load(open(path))
    out = replay_case(rec['case'])
    print(json.dumps(out, default=str)[:1500])
    if not out['ok']:
        print('VIOLATION property=%s replay=%s' % (PROP, path))
        return 1
    return 0
