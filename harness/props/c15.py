"""C15 - field-level processors change schema and rows in lockstep.

Spec:   spec/ProcFields.tla (+ Regex.tla): SelectDef (selection order), DeleteDef / RenameDef (original order, first
        matching pair), Computed (sum/avg/min/max/multiply/constant/join/format over the non-null source cells of one
        row), find_replace; regex on/off (off = the pattern's text compared literally); TLC checks SelectOK, DeleteOK,
        RenameOK on all 80 000+ cases (schemas of <=3 names from a catalogue with prefixes and ".", sequences of <=2
        patterns incl. a.*, a|ab, ., .b) and exports them.
Bind:   every exported case (quick: seeded sample) on the real processor: resulting field list = the definition's, every
        row's keys = that list, untouched/renamed fields keep their values, computed value = the definition's.
        Several resources: exported cases and two-step programs (a field added to every resource, then renamed / deleted /
        retyped in some) under every resource-selector form: selected resources end with the definition's field list,
        the others are untouched, and in every resource row keys = field list.
"""
import contextlib
import io
import json
import os
from fractions import Fraction

from .. import tlc
from ..common import Report, pmap, harness_errors, rng, setup_repo, canon
from .c10 import render_re

PROP = 'C15'


def model(rep, t):
    wd = tlc.workdir('c15')
    cfg = tlc.write_cfg(os.path.join(wd, 'pf.cfg'), invariants=['SelectOK', 'DeleteOK', 'RenameOK'], constraints=['Export'])
    res = tlc.run_tlc('ProcFields', cfg, workers=1, allow_violation=False, timeout=3000)
    rep.add_tlc(res, 'ProcFields: SelectOK, DeleteOK, RenameOK over schemas x pattern sequences x regex on/off; computed operations; find_replace')
    seen, out = set(), []
    for c in res.cases:
        k = canon(c)
        if k not in seen:
            seen.add(k)
            out.append(c)
    return out


def name(n):
    return ''.join(n)


def norm_spec(v):
    if v[0] == 'n':
        return ('n',)
    if v[0] == 'i':
        return ('q', Fraction(v[1]))
    if v[0] == 'q':
        return ('q', Fraction(v[1], v[2]))
    if v[0] == 't':
        return ('t', ''.join(v[1]))
    raise ValueError(v)


def norm_real(v):
    from decimal import Decimal
    if v is None:
        return ('n',)
    if isinstance(v, bool):
        return ('b', v)
    if isinstance(v, float):
        f = Fraction(v).limit_denominator(1000)
        return ('q', f if float(f) == v else Fraction(v))
    if isinstance(v, (int, Decimal)):
        return ('q', Fraction(v))
    if isinstance(v, str):
        return ('t', v)
    return ('?', repr(v))


def py(v):
    return None if v[0] == 'n' else (v[1] if v[0] == 'i' else ''.join(v[1]))


def replay_case(c):
    import dataflows as DF
    from dataflows import Flow
    from ..common import tuple_source
    setup_repo()
    op, regex = c['op'], c['regex']
    schema = [name(n) for n in c['schema']]
    try:
        with contextlib.redirect_stdout(io.StringIO()):
            if op in ('select', 'delete', 'rename'):
                rows = [{f: 10 * r + i for i, f in enumerate(schema)} for r in (1, 2)]
                rows[1] = dict(reversed(list(rows[1].items())))          # the second row lists its keys in another order than the first
                src = tuple_source([('t', [(f, 'integer') for f in schema], rows)])
                if op == 'select':
                    step = DF.select_fields([render_re(p) for p in c['arg']], regex=regex)
                elif op == 'delete':
                    step = DF.delete_fields([render_re(p) for p in c['arg']], regex=regex)
                else:
                    step = DF.rename_fields({render_re(p['src']): name(p['tgt']) for p in c['arg']}, regex=regex)
                ds = Flow(src, step).datastream()
                out = [[dict(r) for r in res] for res in ds.res_iter][0]
                fields = [f['name'] for f in ds.dp.descriptor['resources'][0]['schema']['fields']]
            elif op == 'computed':
                a = c['arg']
                row = {f: py(a['row'][i]) for i, f in enumerate(schema)}
                srcs = [schema[i - 1] for i in a['src']]
                with_ = {'join': '-', 'format': '{%s}-x' % srcs[0], 'constant': 'K'}.get(a['cop'], '')
                # the abstract constant "K" is bound to several concrete constants, the falsy ones included (0, False, 0.0 are values, not "no constant");
                # the argument is spelt with_= or with=
                cval = None
                if a['cop'] == 'constant':
                    h = sum(map(ord, json.dumps(c, sort_keys=True)))
                    cval = with_ = ['K', 0, False, 0.0, 7, ''][h % 6]
                kw = {'with': with_} if (a['cop'] == 'constant' and sum(map(ord, json.dumps(c, sort_keys=True))) % 2) else {'with_': with_}
                ds = Flow(tuple_source([('t', [(f, 'integer') for f in schema], [row])]),
                          DF.add_computed_field(target='z', operation=a['cop'], source=srcs, **kw)).datastream()
                out = [[dict(r) for r in res] for res in ds.res_iter][0]
                fields = [f['name'] for f in ds.dp.descriptor['resources'][0]['schema']['fields']]
                chain_out = None
                if a['cop'] in ('sum', 'min', 'max', 'multiply', 'join', 'format'):
                    # ONE call, two specifications: the second one uses the first one's target ("computed values equal the documented
                    # operation applied to that row": the row as it stands when the specification is reached)
                    second = dict(target='z2', operation='join', source=['z', srcs[0]], with_='|')
                    ds2 = Flow(tuple_source([('t', [(f, 'integer') for f in schema], [dict(row)])]),
                               DF.add_computed_field([dict(target='z', operation=a['cop'], source=srcs, **kw), second])).datastream()
                    chain_out = [[dict(r) for r in res] for res in ds2.res_iter][0][0]
            else:
                # a second replaced field after the first: it is processed whatever the first one holds (a null included)
                row = dict(a=py(c['arg']), ab=1, b=2, c='bxb')
                ds = Flow(tuple_source([('t', [('a', 'string'), ('ab', 'integer'), ('b', 'integer'), ('c', 'string')], [row])]),
                          DF.find_replace([dict(name='a', patterns=[dict(find='b', replace='X')]),
                                           dict(name='c', patterns=[dict(find='b', replace='X')])])).datastream()
                out = [[dict(r) for r in res] for res in ds.res_iter][0]
                fields = [f['name'] for f in ds.dp.descriptor['resources'][0]['schema']['fields']]
    except Exception as e:
        return dict(ok=False, why='raised %s: %s' % (type(e).__name__, str(e)[:200]))
    if op in ('select', 'delete', 'rename'):
        want = [name(n) for n in c['result']]
        if fields != want:
            return dict(ok=False, why='resulting field list differs', got=fields, want=want)
        for r_i, r in enumerate(out):
            if sorted(r.keys()) != sorted(want):
                return dict(ok=False, why='row keys differ from the resulting schema', got=sorted(r.keys()), want=want)
        # values travel with their field (by position for rename, by name otherwise)
        for ri, r in enumerate(out):
            for f in want:
                if op == 'rename':
                    orig = schema[want.index(f)]
                else:
                    orig = f
                if r[f] != 10 * (ri + 1) + schema.index(orig):
                    return dict(ok=False, why='a kept field changed its value', field=f, got=r[f])
        return dict(ok=True)
    if op == 'computed':
        if fields != schema + ['z']:
            return dict(ok=False, why='computed field not appended at the end', got=fields)
        r = out[0]
        if sorted(r.keys()) != sorted(fields):
            return dict(ok=False, why='row keys differ from the resulting schema', got=sorted(r.keys()))
        if any(norm_real(r[f]) != norm_real(py(c['arg']['row'][i])) for i, f in enumerate(schema)):
            return dict(ok=False, why='an untouched field changed', got=r)
        if c['arg']['cop'] == 'constant':
            if r['z'] != cval or type(r['z']) is not type(cval):
                return dict(ok=False, why='the constant field does not hold the constant', got=repr(r['z']), want=repr(cval))
        elif norm_real(r['z']) != norm_spec(c['result'][0]):
            return dict(ok=False, why='computed value differs', got=repr(r['z']), want=c['result'][0])
        if chain_out is not None:
            src0 = [schema[i - 1] for i in c['arg']['src']][0]
            want2 = '|'.join(str(x) for x in (r['z'], chain_out.get(src0)) if x is not None)
            if chain_out.get('z') != r['z'] or chain_out.get('z2') != want2:
                return dict(ok=False, why='a later specification of the same call does not see the field computed before it', got=chain_out, want_z2=want2)
        return dict(ok=True)
    r = out[0]
    if norm_real(r['a']) != norm_spec(c['result'][0]) or r['ab'] != 1 or r['b'] != 2:
        return dict(ok=False, why='replaced value differs', got=repr(r['a']), want=c['result'][0])
    if r.get('c') != 'XxX':
        return dict(ok=False, why='the second replaced field was not processed', got=repr(r.get('c')), first_field=repr(r['a']))
    return dict(ok=True)


SELECTORS = [None, 't2', 1, ['t1', 't3'], 't[13]', -1]


def selected_names(sel):
    names = ['t1', 't2', 't3']
    if sel is None:
        return names
    if isinstance(sel, int):
        return [names[sel]]
    if isinstance(sel, list):
        return [n for n in names if n in sel]
    return ['t1', 't3'] if sel == 't[13]' else [sel]


def replay_multi(item):
    """several resources: the step (a TLC-exported select/delete/rename case, or a two-step program that first adds a field
    to every resource and then edits it in some) is restricted by a resource selector; every selected resource must end
    with the definition's field list, every other one untouched, and in EVERY resource each row's keys = its field list"""
    import dataflows as DF
    from dataflows import Flow
    from ..common import tuple_source
    setup_repo()
    sel = item['sel']
    chosen = selected_names(sel)
    kw = dict(resources=sel)          # explicit: set_type's own default is the last resource
    try:
        with contextlib.redirect_stdout(io.StringIO()):
            if item['kind'] == 'case':
                c = item['case']
                op, regex = c['op'], c['regex']
                schema = [name(n) for n in c['schema']]
                want_sel = [name(n) for n in c['result']]
                if op == 'select':
                    steps = [DF.select_fields([render_re(p) for p in c['arg']], regex=regex, **kw)]
                elif op == 'delete':
                    steps = [DF.delete_fields([render_re(p) for p in c['arg']], regex=regex, **kw)]
                else:
                    steps = [DF.rename_fields({render_re(p['src']): name(p['tgt']) for p in c['arg']}, regex=regex, **kw)]
                origin = {f: (schema[want_sel.index(f)] if op == 'rename' else f) for f in want_sel}
                want = {n: (want_sel if n in chosen else schema) for n in ('t1', 't2', 't3')}
                types = {n: {f: 'integer' for f in want[n]} for n in want}
                consts = {}
            else:
                schema = ['a', 'b']
                adder, editor = item['adder'], item['editor']
                if adder == 'add_field':
                    a = DF.add_field('z', 'integer', 5)
                elif adder == 'acf_dict':
                    a = DF.add_computed_field(target=dict(name='z', type='integer'), operation='constant', with_=5)
                elif adder == 'acf_list':
                    a = DF.add_computed_field([dict(target=dict(name='z', type='integer'), operation='constant', with_=5)])
                else:
                    a = DF.add_computed_field(target='z', operation='sum', source=['a', 'b'])
                after = {'rename': ['a', 'b', 'zz'], 'delete': ['a', 'b'], 'select': ['a', 'b'], 'set_type': ['a', 'b', 'z'],
                         'rename_a': ['A', 'b', 'z']}[editor]
                b = {'rename': lambda: DF.rename_fields({'z': 'zz'}, **kw), 'delete': lambda: DF.delete_fields(['z'], **kw),
                     'select': lambda: DF.select_fields(['a', 'b'], **kw), 'set_type': lambda: DF.set_type('z', type='number', **kw),
                     'rename_a': lambda: DF.rename_fields({'a': 'A'}, **kw)}[editor]()
                steps = [a, b]
                want = {n: (after if n in chosen else ['a', 'b', 'z']) for n in ('t1', 't2', 't3')}
                origin = {'zz': 'z', 'A': 'a'}
                types = {n: {f: ('number' if (f == 'z' and editor == 'set_type' and n in chosen) else 'integer') for f in want[n]} for n in want}
                consts = {'z': None if adder == 'acf_sum' else 5}
            rows = {n: [{f: 100 * k + 10 * r + i for i, f in enumerate(schema)} for r in (1, 2)] for k, n in enumerate(('t1', 't2', 't3'), 1)}
            src = tuple_source([(n, [(f, 'integer') for f in schema], [dict(x) for x in rows[n]]) for n in ('t1', 't2', 't3')])
            ds = Flow(src, *steps).datastream()
            out = [[dict(r) for r in res] for res in ds.res_iter]
            descs = ds.dp.descriptor['resources']
    except Exception as e:
        return dict(ok=False, why='raised %s: %s' % (type(e).__name__, str(e)[:200]))
    if [d['name'] for d in descs] != ['t1', 't2', 't3'] or len(out) != 3:
        return dict(ok=False, why='resources changed', got=[d['name'] for d in descs])
    for d, rs in zip(descs, out):
        n = d['name']
        fields = [f['name'] for f in d['schema']['fields']]
        if fields != want[n]:
            return dict(ok=False, why='field list of a %s resource differs' % ('selected' if n in chosen else 'NON-selected'), resource=n, got=fields, want=want[n])
        ftypes = {f['name']: f['type'] for f in d['schema']['fields']}
        if ftypes != types[n]:
            return dict(ok=False, why='field types of a %s resource differ' % ('selected' if n in chosen else 'NON-selected'), resource=n, got=ftypes, want=types[n])
        if len(rs) != 2:
            return dict(ok=False, why='row count changed', resource=n, got=len(rs))
        for ri, r in enumerate(rs):
            if sorted(r.keys()) != sorted(fields):
                return dict(ok=False, why='row keys differ from the field list of the same resource', resource=n, got=sorted(r.keys()), want=fields)
            for f in fields:
                o = origin.get(f, f) if n in chosen else f
                if o in schema:
                    if r[f] != rows[n][ri][o]:
                        return dict(ok=False, why='a kept field changed its value', resource=n, field=f, got=repr(r[f]))
                elif o in consts:
                    exp = consts[o] if consts[o] is not None else rows[n][ri]['a'] + rows[n][ri]['b']
                    if r[f] != exp:
                        return dict(ok=False, why='the added field lost its value', resource=n, field=f, got=repr(r[f]), want=exp)
    return dict(ok=True)


def find_replace_multi_case(item):
    """find_replace over SEVERAL resources, and the same pattern specification handed to two steps: every selected resource gets the
    replacement (what a step did for the first resource must not change what it does for the next), the caller's specification is
    left as it was"""
    import copy
    import dataflows as DF
    from dataflows import Flow
    from ..common import tuple_source
    setup_repo()
    n, sel = item['n'], item['sel']
    rows = lambda i: [dict(a=k, b=('xb%d' % k if k % 2 else None), c='bb') for k in range(3 + i)]
    spec = [dict(name='b', patterns=[dict(find='b', replace='X')]), dict(name='c', patterns=[dict(find='^b', replace='Y'), dict(find='b$', replace='Z')])]
    before = copy.deepcopy(spec)
    names = ['t%d' % i for i in range(n)]
    kw = {} if sel is None else dict(resources=sel)
    try:
        with contextlib.redirect_stdout(io.StringIO()):
            steps = [DF.find_replace(spec, **kw)] + ([DF.find_replace(spec, **kw)] if item['twice'] else [])
            ds = Flow(tuple_source([(nm, [('a', 'integer'), ('b', 'string'), ('c', 'string')], rows(i)) for i, nm in enumerate(names)]), *steps).datastream()
            out = [[dict(r) for r in res] for res in ds.res_iter]
    except Exception as e:
        return dict(ok=False, why='raised %s: %s' % (type(e).__name__, str(e)[:150]))
    chosen = names if sel is None else [names[sel]] if isinstance(sel, int) else [x for x in names if x in sel]

    def rep(v, c_):
        if v is None:
            return None
        if c_ == 'b':
            return v.replace('b', 'X')
        return 'YZ'            # '^b' -> Y, then 'b$' -> Z on "bb" (the second application finds nothing left)
    for i, nm in enumerate(names):
        want = [dict(a=r_['a'], b=rep(r_['b'], 'b'), c=rep(r_['c'], 'c')) if nm in chosen else r_ for r_ in rows(i)]
        if out[i] != want:
            return dict(ok=False, why='find_replace over several resources: resource %d differs' % i, got=out[i][:3], want=want[:3])
    if spec != before:
        return dict(ok=False, why='find_replace changed the specification it was given', got=repr(spec)[:200])
    return dict(ok=True)


def multi_items(cases, r, t):
    base = [c for c in cases if c['op'] in ('select', 'delete', 'rename')]
    r.shuffle(base)
    items = [dict(kind='case', case=c, sel=SELECTORS[i % len(SELECTORS)]) for i, c in enumerate(base[:600 if t == 'quick' else 12000])]
    for adder in ('add_field', 'acf_dict', 'acf_list', 'acf_sum'):
        for editor in ('rename', 'delete', 'select', 'set_type', 'rename_a'):
            for sel in SELECTORS:
                items.append(dict(kind='two-step', adder=adder, editor=editor, sel=sel))
    return items


def run():
    rep = Report(PROP)
    t = rep.tier
    setup_repo()
    r = rng(PROP)
    cases = model(rep, t)
    if t == 'quick':
        keep = [c for c in cases if c['op'] == 'find_replace' or (c['op'] == 'computed' and r.random() < 0.25)]
        rest = [c for c in cases if c['op'] not in ('computed', 'find_replace')]
        r.shuffle(rest)
        # renames onto names the schema already has (swaps, cycles, shifts): a share of them in every quick run
        perm = [c for c in rest if c['op'] == 'rename' and any(p['tgt'] in c['schema'] for p in c['arg'])]
        taken = {id(c) for c in perm[:600]}
        cases = keep + perm[:600] + [c for c in rest if id(c) not in taken][:6400]
    res = pmap(replay_case, cases, chunksize=64)
    errs = harness_errors(res)
    if errs:
        raise tlc.MachineryError('harness error in fields replay: ' + errs[0])
    for c, out in zip(cases, res):
        rep.count(1, traces=1)
        rep.mark_distinct(c)
        if not out['ok']:
            a = c['arg']
            desc = dict(op=c['op'], regex=c['regex'], schema=[name(n) for n in c['schema']],
                        arg=([render_re(p) for p in a] if c['op'] in ('select', 'delete') else
                             {render_re(p['src']): name(p['tgt']) for p in a} if c['op'] == 'rename' else a))
            rep.violation(c, dict(desc, **{k: v for k, v in out.items() if k != 'ok'}),
                          category='%s/%s/%s' % (c['op'], 'regex' if c['regex'] else 'literal', out['why'][:40]))
    mitems = multi_items(cases, r, t)
    mres = pmap(replay_multi, mitems, chunksize=32)
    errs = harness_errors(mres)
    if errs:
        raise tlc.MachineryError('harness error in multi-resource replay: ' + errs[0])
    for it, out in zip(mitems, mres):
        rep.count(1, traces=1)
        rep.mark_distinct(['multi', it])
        if not out['ok']:
            desc = dict(resources_selector=it['sel'])
            if it['kind'] == 'case':
                c = it['case']
                desc.update(op=c['op'], regex=c['regex'], schema=[name(n) for n in c['schema']])
            else:
                desc.update(program=[it['adder'] + ' on every resource', it['editor'] + ' on the selected ones'])
            rep.violation(dict(multi=it), dict(desc, **{k: v for k, v in out.items() if k != 'ok'}),
                          category='several-resources/%s/%s' % (it['kind'] if it['kind'] == 'case' else it['adder'] + '+' + it['editor'], out['why'][:40]))
    rep.notes['several_resources_cases'] = len(mitems)
    for it in [dict(find_replace_multi=True, n=n, sel=sel, twice=tw) for n in (1, 2, 3) for sel in (None, 0, -1) for tw in (False, True)]:
        out = find_replace_multi_case(it)
        rep.count(1, traces=1)
        rep.mark_distinct(it)
        if not out['ok']:
            rep.violation(it, dict(case=it, **{k: v for k, v in out.items() if k != 'ok'}), category='find_replace-several-resources/%s' % out['why'][:40])
    smp = [c for c in cases if c['op'] in ('select', 'delete', 'rename')][-1]
    rep.sample(dict(case=dict(op=smp['op'], schema=[name(n) for n in smp['schema']], regex=smp['regex'],
                              patterns=[render_re(p['src'] if smp['op'] == 'rename' else p) for p in smp['arg']],
                              result=[name(n) for n in smp['result']])))
    rep.assumptions += ['rows with no non-null source are outside the documented domain of avg/min/max/multiply and are not generated for them',
                        'rename targets are fresh names and no two fields are renamed to the same name (the documented assertion)']
    return rep.finish(exhaustive=(t == 'thorough'))


def replay(path):
    setup_repo()
    rec = json.load(open(path))
    out = (find_replace_multi_case(rec['case']) if rec['case'].get('find_replace_multi') else
           replay_multi(rec['case']['multi']) if 'multi' in rec['case'] else replay_case(rec['case']))
    print(json.dumps(out, default=str)[:1500])
    if not out['ok']:
        print('VIOLATION property=%s replay=%s' % (PROP, path))
        return 1
    return 0
