"""Runs real-multiprocessing parallelize flows (called in its own process group by c18.py):
       par_real.py specs.json out.json
   one outcome per spec, written incrementally.  Every queue operation, start and join of the REAL primitives is
   recorded (queue recorder): proxies around multiprocessing / threading / queue are placed in the module globals of
   dataflows.processors.parallelize; each actor logs a put BEFORE the call and a get AFTER it returns through one
   O_APPEND file descriptor (single write() per event, inherited by the forked workers), so the file order is consistent
   with real time and with every happens-before edge through a queue."""
import json
import os
import random
import sys
import threading
import time

sys.path.insert(0, os.path.dirname(os.path.dirname(os.path.abspath(__file__))))
from harness.common import setup_repo  # noqa

setup_repo()
from dataflows import Flow, parallelize  # noqa

_DELAY = [0.0]
_LOG = {'fd': None}
_ACTOR = threading.local()
_PROC_ACTOR = [None]          # set in a forked worker


def actor():
    return getattr(_ACTOR, 'name', None) or _PROC_ACTOR[0] or 'collector'


def log(ev):
    os.write(_LOG['fd'], (json.dumps(ev) + '\n').encode())


def vid(item):
    return 0 if item is None else item['id']


class QueueProxy:
    def __init__(self, real, role):
        self.real, self.role = real, role

    def __getattr__(self, name):
        # close / join_thread / cancel_join_thread / empty ...: whatever the code under test calls on a queue reaches the real one
        return getattr(self.real, name)

    def put(self, item, *a, **k):
        who = actor()
        v = vid(item)
        if who == 'producer':
            log(['PMarker'] if (item is None and self.role == 'q_in') else ['PFail'] if item is None else ['PPut', v])
        elif who.startswith('w'):
            log(['WExit', int(who[1:])] if item is None else ['WPut', int(who[1:]), v])
        elif who == 'fetcher':
            log(['FEnd'] if item is None else ['FFwd', v])
        return self.real.put(item, *a, **k)

    def get(self, *a, **k):
        item = self.real.get(*a, **k)
        who = actor()
        v = vid(item)
        if who.startswith('w') and who != 'worker':
            log(['WGet', int(who[1:]), v])
        elif who == 'fetcher':
            log(['FGet', v])
        elif who == 'collector':
            log(['CGet', v])
        return item


class State:
    def __init__(self):
        self.mpq = 0
        self.workers = 0
        self.started = False


def install(pm, state):
    import multiprocessing as real_mp
    import queue as real_queue
    import threading as real_threading

    class MP:
        @staticmethod
        def Queue(*a, **k):
            state.mpq += 1
            return QueueProxy(real_mp.Queue(*a, **k), 'q_in' if state.mpq % 2 == 1 else 'q_out')

        @staticmethod
        def Process(target=None, args=(), **k):
            state.workers += 1
            idx = state.workers

            def run(*args_):
                _PROC_ACTOR[0] = 'w%d' % idx
                return target(*args_)
            p = real_mp.Process(target=run, args=args, **k)
            return HandleProxy(p, 'w%d' % idx, state)

    class TH:
        @staticmethod
        def Thread(target=None, args=(), **k):
            name = target.__name__

            def run(*args_):
                _ACTOR.name = name
                return target(*args_)
            return HandleProxy(real_threading.Thread(target=run, args=args, **k), name, state)

    class Q:
        Empty = real_queue.Empty

        @staticmethod
        def Queue(*a, **k):
            return QueueProxy(real_queue.Queue(*a, **k), 'q_internal')
    pm.mp, pm.threading, pm.queue = MP, TH, Q


class HandleProxy:
    def __init__(self, real, name, state):
        self.real, self.name, self.state = real, name, state

    def start(self):
        if not self.state.started:
            self.state.started = True
            log(['CStart'])
        elif self.name == 'fetcher':
            log(['CStartF'])
        elif self.name != 'producer':
            log(['CFork', int(self.name[1:])])
        return self.real.start()

    def join(self, *a, **k):
        r = self.real.join(*a, **k)
        if self.name == 'producer':
            log(['CJoinProd'])
        elif self.name == 'fetcher':
            log(['CJoinF'])
        else:
            log(['CJoinW', int(self.name[1:])])
        return r

    def close(self):
        return self.real.close() if hasattr(self.real, 'close') else None

    def kill(self):
        return self.real.kill()


def row_func(row):
    if _DELAY[0]:
        time.sleep(random.random() * _DELAY[0])
    row['n'] += 1


def main(specf, outf):
    specs = json.load(open(specf))
    out = []
    pm = sys.modules['dataflows.processors.parallelize']
    saved = (pm.mp, pm.threading, pm.queue)
    for si, sp in enumerate(specs):
        rnd = random.Random(sp['seed'])
        R, N, pat = sp['R'], sp['N'], sp['pat']
        _DELAY[0] = rnd.choice([0, 0.002, 0.01])
        logf = outf + '.%d.log' % si
        _LOG['fd'] = os.open(logf, os.O_WRONLY | os.O_CREAT | os.O_APPEND | os.O_TRUNC, 0o644)
        state = State()
        install(pm, state)

        def pred(row, R=R, pat=pat):
            i = row['id']
            return pat == 'all' or (pat == 'odd' and i % 2 == 1) or (pat == 'late' and i == R)

        def src():
            for i in range(R):
                if rnd.random() < 0.2:
                    time.sleep(0.001)
                yield dict(id=i + 1, n=0)

        def sink(rows):
            for row in rows:
                if not state.started:
                    log(['CPeekYield', row['id']])
                yield row
            if not state.started:
                log(['CPeekEnd'])
        delivered, applied = [], []
        ok = True
        try:
            rows = Flow(src(), parallelize(row_func, num_processors=N, predicate=pred), sink).results()[0]
            for r in (rows[0] if rows else []):
                delivered.append(r['id'])
                applied.append(r['n'])
        except Exception:
            ok = False
        finally:
            pm.mp, pm.threading, pm.queue = saved
        os.close(_LOG['fd'])
        ev = [json.loads(x) for x in open(logf).read().splitlines() if x.strip()]
        os.unlink(logf)
        out.append(dict(delivered=delivered, applied=applied, terminated=ok, ev=ev))
        json.dump(out, open(outf, 'w'))


if __name__ == '__main__':
    main(sys.argv[1], sys.argv[2])
    os._exit(0)
