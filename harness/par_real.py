"""Runs real-multiprocessing parallelize flows (called in its own process group by c18.py):
   par_real.py specs.json out.json   - one outcome per spec, written incrementally."""
import json
import os
import random
import sys
import time

sys.path.insert(0, os.path.dirname(os.path.dirname(os.path.abspath(__file__))))
from harness.common import setup_repo  # noqa

setup_repo()
from dataflows import Flow, parallelize  # noqa

_DELAY = [0.0]


def row_func(row):
    if _DELAY[0]:
        time.sleep(random.random() * _DELAY[0])
    row['n'] += 1


def main(specf, outf):
    specs = json.load(open(specf))
    out = []
    for sp in specs:
        rnd = random.Random(sp['seed'])
        R, N, pat = sp['R'], sp['N'], sp['pat']
        _DELAY[0] = rnd.choice([0, 0.002, 0.01])

        def pred(row, R=R, pat=pat):
            i = row['id']
            return pat == 'all' or (pat == 'odd' and i % 2 == 1) or (pat == 'late' and i == R)

        def src():
            for i in range(R):
                if rnd.random() < 0.2:
                    time.sleep(0.001)
                yield dict(id=i + 1, n=0)
        delivered, applied = [], []
        ok = True
        try:
            rows = Flow(src(), parallelize(row_func, num_processors=N, predicate=pred)).results()[0]
            for r in (rows[0] if rows else []):
                delivered.append(r['id'])
                applied.append(r['n'])
        except Exception as e:
            ok = False
        out.append(dict(delivered=delivered, applied=applied, terminated=ok))
        json.dump(out, open(outf, 'w'))


if __name__ == '__main__':
    main(sys.argv[1], sys.argv[2])
    os._exit(0)
