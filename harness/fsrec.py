"""File-operation recorder and crash-point runner.

The recorder is injected (in a forked child only) into the globals of the module under test (stream.py, file_dumper.py,
to_path.py): `open`, `os.rename`, `tempfile.NamedTemporaryFile`, `shutil.copy`, `os.unlink` ... are replaced by numbering
wrappers.  Modes: record | kill_before k | kill_after k | raise k.  Every operation is appended to a log file before it
is performed (O_APPEND, one line per op), so the parent can read what happened even when the child was killed.
"""
import builtins
import json
import os
import sys


from .common import cov_start as _cov_start, cov_save as _cov_save      # no-ops unless VERIF_COV is set (bin/covsweep)

class InjectedIOError(OSError):
    pass


class Recorder:
    def __init__(self, logpath, mode='record', k=None):
        self.fd = os.open(logpath, os.O_WRONLY | os.O_CREAT | os.O_APPEND, 0o644)
        self.mode, self.k = mode, k
        self.n = 0
        self.classify = lambda cls, data: [len(data)]

    def op(self, name, *args):
        self.n += 1
        idx = self.n
        if idx == self.k:
            if self.mode == 'kill_before':
                _cov_save()
                os._exit(77)
            if self.mode == 'raise':
                os.write(self.fd, (json.dumps(['!raise', idx]) + '\n').encode())
                raise InjectedIOError('injected failure at file operation %d (%s)' % (idx, name))
        os.write(self.fd, (json.dumps([name] + list(args)) + '\n').encode())
        return idx

    def after(self, idx):
        if self.mode == 'kill_after' and idx == self.k:
            _cov_save()
            os._exit(77)


class FileProxy:
    def __init__(self, f, rec, cls):
        self._f, self._rec, self._cls = f, rec, cls

    def write(self, data):
        i = self._rec.op('write', self._cls, *self._rec.classify(self._cls, data))
        r = self._f.write(data)
        self._rec.after(i)
        return r

    def flush(self):
        i = self._rec.op('flush', self._cls)
        r = self._f.flush()
        self._rec.after(i)
        return r

    def close(self):
        if self._f.closed:
            return
        i = self._rec.op('close', self._cls)
        r = self._f.close()
        self._rec.after(i)
        return r

    def __getattr__(self, name):
        return getattr(self._f, name)

    def __setattr__(self, name, value):
        if name in ('_f', '_rec', '_cls'):
            object.__setattr__(self, name, value)
        else:
            setattr(self._f, name, value)

    def __enter__(self):
        return self

    def __exit__(self, *a):
        self.close()

    def __iter__(self):
        return iter(self._f)


class ModProxy:
    """forwards to a real module, except for the wrapped names"""

    def __init__(self, real, overrides):
        self._real, self._over = real, overrides

    def __getattr__(self, name):
        if name in self._over:
            return self._over[name]
        return getattr(self._real, name)


def read_log(path):
    out = []
    if os.path.exists(path):
        for line in open(path):
            line = line.strip()
            if line:
                out.append(json.loads(line))
    return out


def in_child(fn, timeout=120):
    """run fn() in a forked child; returns its exit status (77 = killed by the recorder)"""
    sys.stdout.flush()
    sys.stderr.flush()
    pid = os.fork()
    if pid == 0:
        rc = 1
        try:
            _cov_start(fresh=True)
            devnull = os.open(os.devnull, os.O_WRONLY)
            os.dup2(devnull, 1)
            os.dup2(devnull, 2)
            fn()
            rc = 0
        except SystemExit as e:
            rc = e.code or 0
        except BaseException:
            rc = 3
        finally:
            _cov_save()
            os._exit(rc)
    _, status = os.waitpid(pid, 0)
    return os.WEXITSTATUS(status) if os.WIFEXITED(status) else -os.WTERMSIG(status)


# ---------------------------------------------------------------------------
# stream.py / checkpoint

def install_stream(rec, final_name='stream.ndjson'):
    m = sys.modules['dataflows.processors.stream']
    real_os = os

    def cls_of(fn):
        b = os.path.basename(fn)
        return 'active' if b.endswith('.active') else 'final' if b == final_name else 'other'

    def _open(fn, mode='r', *a, **k):
        i = rec.op('open', cls_of(fn), mode)
        f = builtins.open(fn, mode, *a, **k)
        rec.after(i)
        return FileProxy(f, rec, cls_of(fn))

    def _rename(a, b):
        i = rec.op('rename', cls_of(a), cls_of(b))
        r = real_os.rename(a, b)
        rec.after(i)
        return r
    state = {'first': True}

    def classify(cls, data):
        if data == '\n':
            return ['S']
        if state['first']:
            state['first'] = False
            return ['D']
        return ['R']
    rec.classify = classify

    def _unlink(p_):
        i = rec.op('unlink', cls_of(p_))
        r = real_os.unlink(p_)
        rec.after(i)
        return r

    def _copy(src, dst, *a, **k):
        # a publish step that COPIES the finished file under its final name (not what stream.py does today; Checkpoint.tla has no such
        # action, so a run that does it is not one of its behaviours): create, two chunks, close - it can be interrupted in between
        i = rec.op('copy_create', cls_of(dst))
        out = builtins.open(dst, 'wb')
        rec.after(i)
        data = builtins.open(src, 'rb').read()
        half = len(data) // 2
        for part in (data[:half], data[half:]):
            i = rec.op('copy_chunk', cls_of(dst))
            out.write(part)
            out.flush()
            rec.after(i)
        i = rec.op('copy_close', cls_of(dst))
        out.close()
        rec.after(i)
        return dst
    m.open = _open
    m.os = ModProxy(real_os, {'rename': _rename, 'replace': _rename, 'unlink': _unlink, 'remove': _unlink})
    import shutil as real_shutil
    for modname in ('shutil',):
        if hasattr(m, modname):
            setattr(m, modname, ModProxy(real_shutil, {'copy': _copy, 'copyfile': _copy, 'copy2': _copy, 'move': _rename}))


# ---------------------------------------------------------------------------
# file dumpers (dump_to_path)

def install_dump(rec, out_path):
    import tempfile as real_tempfile
    import shutil as real_shutil
    fd = sys.modules['dataflows.processors.dumpers.file_dumper']
    tp = sys.modules['dataflows.processors.dumpers.to_path']
    real_os = os
    state = {'n': 0}

    def _ntf(*a, **k):
        state['n'] += 1
        cls = 'tmp%d' % state['n']
        i = rec.op('tmp_open', cls)
        f = real_tempfile.NamedTemporaryFile(*a, **k)
        rec.after(i)
        return FileProxy(f, rec, cls)

    def _unlink(p):
        i = rec.op('unlink', os.path.basename(p)[:3])
        r = real_os.unlink(p)
        rec.after(i)
        return r

    def _copy(src, dst):
        rel = os.path.relpath(dst, out_path)
        i = rec.op('copy_create', rel)
        out = builtins.open(dst, 'wb')
        rec.after(i)
        data = builtins.open(src, 'rb').read()
        half = len(data) // 2
        for part in (data[:half], data[half:]):
            i = rec.op('copy_chunk', rel)
            out.write(part)
            out.flush()
            rec.after(i)
        i = rec.op('copy_close', rel)
        out.close()
        rec.after(i)
        return dst
    fd.tempfile = ModProxy(real_tempfile, {'NamedTemporaryFile': _ntf})
    fd.os = ModProxy(real_os, {'unlink': _unlink})
    tp.shutil = ModProxy(real_shutil, {'copy': _copy})
