"""Regenerates /verif/MANIFEST.json from the table below (python3 harness/manifest.py)."""
import json
import os
import subprocess

VERIF = os.path.dirname(os.path.dirname(os.path.abspath(__file__)))

CHECKS = {
    'C10': dict(
        level='model_checking',
        text='TLC enumerates the complete bounded universe (every selector form x every package of 0..3/4 distinct names from a '
             'catalogue with prefixes and the metacharacter ".", x step kinds touch/delete/concat/load) and checks FormsOK, Frame, '
             'Effect and UniqueNames on every step and on all 2-step programs; every exported step is then replayed into each of the 21 '
             'selector-taking call sites (19 processors, load from tuple and from datapackage.json) and the set of resources the real '
             'step changed must equal Selected(sel, names), everything else byte-identical.',
        note='Trusted: TLC, the regex renderer (AST -> pattern text with minimal parentheses), the per-processor effect markers in '
             'harness/props/c10.py. Names are valid Data Package names; integer selectors in range; concatenate on a consecutive selection.',
        technique='TLA+ spec (Regex/Selector/MC_Selector) model-checked with TLC; every TLC-exported transition replayed into the real processors',
        design='6/C10', specs=['Regex.tla', 'Selector.tla', 'MC_Selector.tla']),
    'C01': dict(
        level='model_checking',
        text='Engine.tla models the lazy pull engine as a coroutine stack machine (one action per generator resumption) next to the '
             'step-by-step meaning Eval; TLC checks LazyEqualsEager/NoDeadlock/ObserverComplete for every program of length <=3 (quick) / <=4 '
             '(thorough) over 7 step kinds. Real executions (400/4000 random programs of length <=6, three driver modes, several real '
             'processors per abstract kind) are recorded by boundary probes and validated by TLC against EngineTrace.tla: every event must '
             'be the model\'s next visible transition and the recorded results must equal Eval(steps). On the full Menu of ~45 built-in step '
             'instances the property\'s own differential is replayed: chained vs each step alone on materialised output, every split into '
             'nested Flows, always-true conditional wrapping, results()/process()/datastream(); plus link dispatch for every callable flavour.',
        note='Trusted: TLC, the binding abstract kind -> real processor (harness/engine.py), probes. The Menu differential is real-vs-real '
             '(the statement itself is a differential); ill-typed programs are compared as "both raise". The inference sample is set to 2 rows for engine traces.',
        technique='TLA+ engine model checked with TLC + TLC trace validation of probe-recorded executions + differential replay of program menus',
        design='6/C01', specs=['Engine.tla', 'EngineTrace.tla']),
    'C04': dict(
        level='model_checking',
        text='Engine.tla contains a raising step kind (package phase / first row / end of stream x generic, CastError, UniqueKeyError) and '
             'the driver\'s exception funnel modelled branch by branch; TLC checks FailNeverSucceeds, NoCommitAfterFailure, FailureIsReported '
             'for all programs of length <=3 over 8 kinds (and shows the historical log-only CastError branch violates them). Fault '
             'enumeration on the real code: probe traces of ~700 (quick) fault-carrying abstract programs validated by TLC (EngineTrace clause C04), '
             'a raising step at every position x phase x class in four pipelines that together contain every built-in processor, and 18 '
             'faults provoked inside real processors; each run is judged by TLC against FaultRun.tla (ProcessorError, cause = original '
             'exception, no dump descriptor / checkpoint / stream file after the failure).',
        note='Trusted: TLC, probes, the injected Faulty step, file-existence as the meaning of "committed". parallelize upstream failures are covered under C18.',
        technique='TLA+ engine model with fault actions checked by TLC + fault enumeration on the real code judged by TLC trace specs',
        design='6/C04', specs=['Engine.tla', 'EngineTrace.tla', 'FaultRun.tla']),
    'C05': dict(
        level='model_checking',
        text='Engine.tla gives observers a persisted log and a commit flag and finalizers a call counter; TLC checks ObserverComplete, '
             'AllObserversCommit, FinalizerOnce, FinalizerAtEnd for all programs of length <=3/4 (deleting, filtering and buffering steps '
             'downstream included). Real runs: every (prefix, observer variant {dump_to_path csv/json, dump_to_zip, stream, checkpoint, '
             'finalizer with/without stats}, discarding suffix) abstract program recorded by probes and validated by TLC (the finalizer '
             'callback is a logged event that must occur exactly where the model fires it); on the Menu every real observer kind (printer, '
             'dumpers, stream, checkpoint, finalizer, update_stats, validate) between 11 real prefixes and 10 discarding suffixes: '
             'downstream results with vs without it, and what it persisted vs the results of the prefix alone.',
        note='Premise made explicit: the consumer drains the pipeline (process()/results()). Persisted files are read back by the harness '
             '(csv/json/ndjson readers of its own), values restricted to ints/decimals/ASCII so codec issues stay under C03/C07.',
        technique='TLA+ engine model checked with TLC + TLC trace validation of probe-recorded runs + transparency/completeness replay on real observers',
        design='6/C05', specs=['Engine.tla', 'EngineTrace.tla', 'Printer.tla', 'SubFlow.tla', 'Stats.tla']),
    'C06': dict(
        level='model_checking',
        text='Engine.tla counts, per source, the rows pulled (inference sample in the package phase, reader pre-read at the first row '
             'demand) and, per delivery, the read-ahead; TLC checks BoundedLookahead for every program without a buffering step over '
             'sources longer than the sample (three Sample/Ahead settings) and finds the bound exceeded as soon as a sort step is allowed '
             '(non-vacuity). Real pipelines of non-buffering Menu steps over counted sources (generators incl. a column that stays empty '
             'beyond the sample, and load(csv) with a counting tabulator Stream) at two stream lengths: the deliveries observed at the '
             'end of the pipeline are validated by TLC against LookaheadTrace.tla (bound K(program), causality) and the maximum must be the same at both lengths.',
        note='K(program) is fixed from the program: 99 rows for iterable sources, 1000 for load(). Quick uses 300/3000 (csv 3000/9000) rows, thorough 1000/100000 (csv 5000/50000).',
        technique='TLA+ engine model with read-ahead counters checked by TLC + TLC validation of delivery traces recorded from long real runs',
        design='6/C06', specs=['Engine.tla', 'LookaheadTrace.tla']),
    'C18': dict(
        level='model_checking',
        text='Parallelize.tla models producer thread, N worker processes, fetcher thread and collector with multiprocessing queues as they '
             'behave (per-process feeder buffers, FIFO per producer only) and the lazy start; TLC checks ExactlyOnce, AtMostOnce, '
             'AppliedBeforeDelivered, Quiescent, NoRowAfterEnd and, under weak fairness, Termination, exhaustively for 0..4 rows x 1..3 '
             'workers x all predicate patterns (thorough: up to 5 rows / 4 workers). The unmodified producer/fetcher/work/fork bodies are '
             'run under a cooperative scheduler along ~1700 (quick) / ~17000 seeded schedules (uniform, feeder-starving, PCT-style), '
             'every queue operation logged as the spec action it must be; TLC validates each log against ParallelizeTrace.tla and judges the '
             'recorded deliveries (exactly once, applied once iff selected, terminated, no deadlock). Real multiprocessing runs with random '
             'delays in a killable process group are judged by the same formula.',
        note='Trusted: TLC, the scheduler shims for mp/threading/queue (harness/sched.py). A get() with a timeout may time out whenever the queue is '
             'empty (none exists in the pinned code). Upstream/row_func failures are outside C18 (C04).',
        technique='TLA+ protocol model checked with TLC incl. liveness + TLC trace validation of schedules driven through the real code by a cooperative scheduler',
        design='6/C18', specs=['Parallelize.tla', 'ParallelizeTrace.tla']),
    'C08': dict(
        level='model_checking',
        text='Checkpoint.tla has one action per file operation of the checkpoint writer (open/truncate, write, flush - separators are not '
             'flushed, close, rename) plus Kill (any prefix of the unflushed buffer survives), StepFails, NextRun (resume iff the final name '
             'exists) and DeleteDir; TLC checks PickedUpIsComplete, NeverBadResult and the action properties InterruptedNeverUsed, '
             'ResumeSkipsUpstream, DeleteRecomputes for all shapes up to 3 resources x 3 rows and up to 4 runs. Exhaustive crash-point '
             'enumeration on the real code: for 8 (quick) / 16 shapes every recorded file operation k is killed right before and right after, '
             'or made to raise; sources fail at every row and a step after the checkpoint fails at every row. The operation prefix, the '
             'directory afterwards and a fresh follow-up run are validated by TLC against the model (CheckpointTrace.tla).',
        note='Kill = os._exit in a forked child; the file system itself is assumed to keep flushed data and to rename atomically. Two-checkpoint chains are covered by C07.',
        technique='TLA+ storage protocol model checked with TLC + exhaustive crash-point enumeration of the real writer validated by a TLC trace spec',
        design='6/C08', specs=['Checkpoint.tla', 'CheckpointTrace.tla']),
    'C19': dict(
        level='model_checking',
        text='Dump.tla models dump_to_path as its sequence of file operations (temp file writes, close, non-atomic copy as create/chunk/close, '
             'unlink; descriptor last) with a kill between any two; TLC checks DescriptorLast and NoEarlyDescriptor. Exhaustive crash-point '
             'enumeration on the real code for 7 (quick) / 13 dumps (1..3 resources, 0..5 rows, csv and json): a forked child is killed right '
             'before and right after every recorded operation (quick: one representative per run of consecutive temp-file writes); the '
             'recorded prefix and the directory are validated by TLC (DumpTrace.tla): model file system = real one, and a parseable '
             'datapackage.json implies every listed file exists with the recorded size and md5.',
        note='Kill = os._exit in a forked child; shutil.copy replaced by a chunked copy so that a kill can fall inside it; fresh output directory.',
        technique='TLA+ storage protocol model checked with TLC + exhaustive crash-point enumeration of the real dumper validated by a TLC trace spec',
        design='6/C19', specs=['Dump.tla', 'DumpTrace.tla']),
    'C09': dict(
        level='model_checking',
        text='DumpStats.tla models how a dumper keeps its counters (per-resource bytes/rows, package totals, stats; incoming descriptors that '
             'already carry counters) and TLC checks StatsDescribeBytes, TotalsAreSums, StatsAgreeWithDescriptor (and that the historical '
             'accumulate-onto-incoming variant violates them). TLC enumerates the configuration universe (MC_DumpCases: 8192 cases = format x '
             'path/zip x 8 counter configurations x add_filehash_to_path x pretty_descriptor x fresh/second dumper/re-dump x 4 shapes x '
             'ascii/multi-byte); each case (quick: ~600 covering every counters x incoming x filehash x target x format combination) is dumped '
             'for real twice, the harness measures every written file (size, md5, data rows, inside the zip too) and TLC evaluates the C09 '
             'clauses on (recorded, measured) and replays the model on the measured sizes.',
        note='Known finding C09-stats-bytes-include-descriptor (stats bytes = written total + size of datapackage.json) is matched by its own deviation formula only. Three genuine defects were repaired (fix: commits).',
        technique='TLA+ counter model checked with TLC; TLC-enumerated configurations replayed on the real dumpers; recorded vs measured facts validated by a TLC trace spec',
        design='6/C09', specs=['DumpStats.tla', 'MC_DumpCases.tla', 'DumpStatsTrace.tla']),
    'C07': dict(
        level='model_checking',
        text='CheckpointChain.tla models histories of Run / DeleteDir over K chained checkpoints (a run resumes from the last checkpoint whose '
             'file exists, executes only the segments after it, rewrites the checkpoints after it); TLC checks ResumeSkipsUpstream, '
             'LastWritten, FirstRunComputes, DeleteRecomputes and exports every history (K=1,2 length<=5; thorough K<=3 length<=6), each '
             'replayed with freshly constructed Flows: per run the executed segments (side-effect counters), the result (= first run) and the '
             'checkpoint files must be the model\'s. Ejson.tla specifies the typed-cell codec (RoundTrip over a boundary catalogue of '
             'offsets -12h..+14h, years 1..9999, microseconds - the pinned unsigned-offset and second-precision variants are shown to violate '
             'it); ~1300 (quick) typed cells from a catalogue + seeded random tables (decimals, dates, times, naive/aware datetimes, '
             'durations, nested arrays/objects, unicode) go through a real first run and a resumed run and TLC checks, per cell, value out = '
             'value in, bytes written = Encode(in), value out = Decode(bytes).',
        note='Run = fresh Flow construction. Value domain beyond the catalogue is sampled (seeded), judged by the spec\'s equations; string/int/bool/decimal text is compared as code points.',
        technique='TLA+ history model checked with TLC and every history replayed; TLA+ codec spec checked on a boundary catalogue; TLC trace validation of cells recorded from real first/resumed runs',
        design='6/C07', specs=['CheckpointChain.tla', 'Checkpoint.tla', 'Ejson.tla', 'EjsonTrace.tla']),
    'C11': dict(
        level='model_checking',
        text='ProcJoin.tla states join twice - the declarative relational definition (JoinDef / DedupDef, one AggDef per aggregator) and the '
             'streaming design of the code (IndexRow folding source rows into per-key states, EmitTarget, unused keys at the end) - and TLC '
             'checks streaming = declarative on every case: 12 aggregators x 3 modes x all source tables of <=2 (quick) / <=3 rows x target '
             'tables <=2 rows over keys {1,2,null} and values {0,2,null}, plus key = row number. Every exported case (quick: a seeded fifth, '
             '~13000) is run on the real join with key as field list / format string, source_delete on/off, wildcard mapping, and '
             'join_with_self; target rows compared in order, unmatched-source and deduplication rows as multisets. 300/6000 seeded random '
             'joins of 0..12 rows (negative, zero, null values; duplicate/missing/null keys) are recorded and TLC evaluates JoinDef on the '
             'recorded input (JoinTrace.tla).',
        note='Numeric aggregates compared as exact rationals (a double stands for the small-denominator rational it rounds). The >10240-key on-disk index is not yet driven (planned for the thorough tier).',
        technique='TLA+ declarative vs streaming join model checked with TLC; every exported case replayed on the real join; recorded random joins judged by the TLA+ definition',
        design='6/C11', specs=['ProcJoin.tla', 'JoinTrace.tla']),
    'C12': dict(
        level='model_checking',
        text='ProcSort.tla puts the ideal (stable ascending sort; reverse = exact reverse) next to the implemented key design (a key '
             'string built from the rendered key and 8 hex digits of the row number, lexicographic; numbers via an order-preserving encoding '
             'of IEEE bits, modelled on a miniature float format with denormals and two zeros). Three key-string designs are in the spec: '
             'plain concatenation (the pinned code: refuted by TLC on proper-prefix key pairs), a bare NUL separator (refuted on keys '
             'containing NUL) and the escaped terminator of the repaired code, for which TLC proves ImplSort = IdealSort on all 394 420 '
             'tables of <=3 keys of <=2 characters over eight character classes straddling the hex digits and including NUL and SOH; the '
             'numeric encoding preserves order and equality (ZeroFix; the pinned treatment of -0.0 is refuted). Every exported text table '
             '(quick: a seeded 3%) is sorted for real with key as format string / field list / callable, reverse, batch sizes 1/2/1000 and '
             'must come out in the ideal order. 420/6300 seeded numeric (both zeros included), unicode-text (any lengths, NUL inside) and '
             'multi-field tables (ints, floats to 1e300, Decimals, negatives) and tables of 2 500 (thorough 12 000 / 30 000, beyond the '
             '10 240-entry cache) rows are rank-abstracted with exact arithmetic and TLC checks permutation, order, stability and exact reversal.',
        note='One known finding (integers beyond 2^53 collapse in the float64 key) is matched by trigger + predicted deviation only; the prefix-pair and -0.0 defects were repaired by fix: commits designed in the spec. Ranks are computed with Fraction / code points (trusted).',
        technique='TLA+ ideal-vs-implemented sort key design model-checked exhaustively; exported tables replayed; rank-abstracted real runs validated by a TLC trace spec',
        design='6/C12', specs=['ProcSort.tla', 'SortTrace.tla']),
    'C14': dict(
        level='model_checking',
        text='ProcValidate.tla gives the declarative meaning of every error policy (raise, drop, ignore, clear, custom 4- and 5-argument '
             'handlers) and the cast loop as implemented (one action per cell, one per row end); TLC checks, on all 26 214 cases (tables of '
             '<=3 rows x 2 checked fields x {native, lexical, invalid, null} x 6 policies), that the loop yields exactly the defined rows, '
             'row indices, offending row/field of a raise and handler call log, and that all-valid rows are never dropped or altered. '
             'Every exported case (quick: a seeded fifth) is instantiated with concrete values for 9 type/constraint settings (integer, '
             'number, boolean, date, datetime, year, string with maxLength, array, integer with minimum) and run through set_type with a '
             'field-name regex, validate(), results(on_error=) and the dumpers\' validator; native values are tableschema\'s own casts.',
        note='Trusted: tableschema Field.cast_value as the reference cast; the value catalogue. The dumper channel is limited to policies whose output a dumper can serialise and to types whose format it does not re-declare.',
        technique='TLA+ declarative-vs-loop model of the error policy checked with TLC; every exported case replayed through four real validator entry points',
        design='6/C14', specs=['ProcValidate.tla']),
    'C17': dict(
        level='model_checking',
        text='ProcRows.tla defines filter_rows (any-of equals / any-of not_equals / callable), deduplicate (first row per distinct '
             'primary-key tuple, nulls as key values, idempotent) and unpivot (per row, per specification entry, per matching field in schema '
             'order: kept fields + derived key + cell; literal and regex names, constant / whole-match / group back-reference keys) and TLC '
             'checks FilterOK (subsequence), DedupOK and CellConservation on every case: all tables of <=2 (quick) / <=3 rows over a row '
             'domain chosen to contain hash-colliding key values (-1, -2), nulls and a field that only prefix-matches the unpivot regex. '
             'Every exported case is run on the real processors (regex on/off, dedup applied twice, merged condition dicts); 400/6000 '
             'seeded random tables of <=14 rows are recorded and judged by the definitions in TLC (RowsTrace.tla).',
        note='Trusted: value projection (row.get, missing = null). The unpivot pattern family is literal names plus the one-group regex x(.).',
        technique='TLA+ definitions model-checked with TLC; every exported case replayed; recorded random runs judged by the TLA+ definitions',
        design='6/C17', specs=['ProcRows.tla', 'RowsTrace.tla']),
    'C15': dict(
        level='model_checking',
        text='ProcFields.tla (with Regex.tla) defines select_fields (selection order), delete_fields / rename_fields (original order, first '
             'matching pair, positions and values kept), add_computed_field (sum/avg/min/max/multiply/constant/join/format over the non-null '
             'source cells of one row, incl. 0 and negative values) and find_replace, with regex on/off (off = the pattern text compared '
             'literally); TLC checks SelectOK, DeleteOK, RenameOK on all ~80 000 cases: schemas of <=3 names from a catalogue with prefixes of one '
             'another and the metacharacter ".", sequences of <=2 patterns (every catalogue name written as a pattern, a.*, a|ab, ., .b). '
             'Every exported case (quick: 7000 seeded + all find_replace + a quarter of the computed ones) runs on the real processor: '
             'resulting field list = definition, every row\'s keys = that list, kept/renamed fields keep their values, computed value = definition.',
        note='Two genuine defects repaired (half-anchored alternations in four processors; find_replace turning null into the text None). add_field is covered through C10/C02.',
        technique='TLA+ definitions (regex semantics included) model-checked with TLC; every exported case replayed on the real processors',
        design='6/C15', specs=['ProcFields.tla', 'Regex.tla']),
    'C16': dict(
        level='model_checking',
        text='ProcResources.tla defines concatenate (placed at the first selected resource, rows of the selected resources in order mapped '
             'onto the target fields, null elsewhere), duplicate (exact copy after / at the end), delete_resource and appended sources with '
             'rows identified by <<resource, row>> ids; TLC checks Conserve (nothing lost, nothing invented, exactly one extra copy) and '
             'OthersUnchanged on all 11 568 cases (packages of <=3 resources x 4 field layouts x {0,2} rows x every consecutive selection / '
             'subset / source / size) and on packages with 1100 rows per resource. Every exported case (quick: 2500 + the big ones) runs on '
             'the real processors with duplicate batch sizes 1/2/1000, an in-place row edit placed after the step (aliasing), sources as '
             'iterable / tuple load / sources(); two-step programs delete an output of the restructuring step; iterable sources appended after a delete.',
        note='Selections are lists of names (selector forms are C10). One genuine defect repaired (iterable source named like an existing resource after a delete).',
        technique='TLA+ definitions with id accounting model-checked with TLC; every exported case (incl. >1000-row resources) replayed on the real processors',
        design='6/C16', specs=['ProcResources.tla']),
    'C20': dict(
        level='model_checking',
        text='Sql.tla models the table over a history of dumps and the writer as implemented (bloom-filter seen set, insert buffer flushed '
             'before an UPDATE / beyond the batch size / at the end, UPDATE ... WHERE key); TLC checks after every dump ModeOK (rewrite: '
             'exactly the dumped rows; append: previous ++ dumped; update: one row per key with the latest values), PairingOK (the writer reports every row once, in order - what the FIFO pairing of the repaired dumper relies on), Downstream (WriterGetsCopy; the pinned in-place conversion is refuted on every run), '
             'FlagsTruthful, NeverFlagsOutsideUpdate for all histories of <=2 dumps x <=2 rows x 3 modes x bloom on/off x batch {1,1000} '
             '(255 844 states; thorough adds 1500 simulated behaviours with up to 5 dumps x 3 rows x batch {1,2,1000}). Every exported '
             'history (quick: 3000 seeded) is replayed against a fresh on-disk SQLite file with an array and an object column (30%: also a duration column, a type the database holds as text), update keys '
             'explicit or from the primary key: SELECT * after each dump, the rows delivered downstream and the updated flags must be the model\'s.',
        note='Preconditions: non-null keys, update starts from one row per key, append without a unique constraint. Known finding: a duration (fallback-typed) column dumped onto an existing table raises; the former finding (array/object cells continuing as JSON text) was repaired by a fix: commit.',
        technique='TLA+ history model of the SQL writer checked with TLC (+ simulation); every exported history replayed against SQLite',
        design='6/C20', specs=['Sql.tla']),
    'C03': dict(
        level='model_checking',
        text='Codec.tla specifies, over code points, the CSV writer as the dumper configures it and a reader driven only by the recorded '
             'dialect; MC_Codec checks RoundTrip exhaustively on all tables of 2x1 / 1x2 cells of <=3 characters over {a , " LF CR space} '
             '(thorough: also 2x2 and 3x1 with <=2 characters, 3.4 M tables). Every exported table (quick: 2500) is dumped for real: the '
             'written bytes must be Codec!EncodeRows, the specification\'s reader applied by TLC to the REAL bytes with the RECORDED dialect '
             'must give the cells back (CodecTrace.tla), and load() must return the table. Seeded random typed tables (10 field types, '
             'nulls, 30-digit decimals, >2^63 integers, quotes, delimiters, newlines, non-BMP, fields arriving with foreign lexical '
             'properties) over the matrix csv/json x path/zip x add_filehash_to_path x temporal_format_property x 1-2 resources x '
             'alphabetical/reversed/shuffled field order (96 configurations x 3 / x 60): load() must return the typed data that entered the '
             'dumper and the data file decoded by the spec reader (csv) / json.loads and cast with nothing but the recorded field descriptors must give the same values.',
        note='Unbounded lexical domains are sampled (exploration strength) and judged through tableschema casts of the recorded descriptors; the quoting/dialect layer is model-checked. Known findings: JSON needs alphabetical field order to load back; CR LF inside a cell loads as LF.',
        technique='TLA+ byte-level codec model-checked exhaustively; real files decoded by the TLA+ reader in TLC; typed round trips replayed over a configuration matrix',
        design='6/C03', specs=['Codec.tla', 'MC_Codec.tla', 'CodecTrace.tla']),
    'C13': dict(
        level='model_checking',
        text='Load.tla (on Codec.tla) defines load of a delimited file: header row -> field names (RenameDuplicateHeaders transcribed; '
             'reject when duplicates are not to be renamed; case sensitive or not), one row per data line in order, cell text preserved '
             'apart from Strip, limit_rows = the first n rows; TLC checks NamesUnique, OneRowPerLine, TextPreserved, RejectedIffDup on '
             '17 571 cases and exports each WITH the file bytes (the specification\'s own encoding of the table). Each file (quick: 4000) is '
             'written and loaded for real under string / default strategies and the name option: names, row count, order and cell text must '
             'be LoadDef\'s. ProcValidate.tla policy cases run through load(cast_strategy=schema, on_error=raise/drop/ignore/clear, a '
             'one-row inference sample, limit_rows). 300/6000 random files from an independent writer (python csv, unicode, LF / CR LF) '
             'are loaded and TLC applies the spec reader to the bytes and compares with what load() returned (LoadTrace.tla). Resource '
             'selection from a data package and a (descriptor, iterators) pair for every selector form.',
        note='Known finding C13-dialect-is-sniffed (load guesses the CSV dialect) is matched only when csv.Sniffer really returns a non-default dialect AND load() equals the decode under that dialect. Type inference is tableschema\'s and is not modelled.',
        technique='TLA+ definition of load over a byte-level codec, model-checked; spec-encoded files replayed into load(); random real loads judged by the TLA+ reader in TLC',
        design='6/C13', specs=['Load.tla', 'Codec.tla', 'LoadTrace.tla', 'ProcValidate.tla']),
    'C02': dict(
        level='model_checking',
        text='Typing.tla abstracts a package to resources and fields with their declared type and the set of value tags their cells may '
             'carry, and transcribes per built-in step the typing rule the code implements next to the value rule (add_field, '
             'add_computed_field x 7 operations, delete/select/rename incl. a swap, set_type, filter/sort/dedup/validate/find_replace, '
             'unpivot, duplicate, delete_resource, concatenate with its field-derivation rule, sources, join x 7 aggregates) with their '
             'preconditions; TLC checks WellFormed (unique resource and field names, every tag admissible for the declared type) in every '
             'state reachable by programs of <=3 steps (33 000 states) and shows that the pinned rule for join avg/median violates it. '
             'Every explored program of <=2 (thorough: <=3) steps runs on the real library: results() must not raise, one row stream per '
             'descriptor, unique names, every row key declared, every value castable by tableschema for the declared type, the descriptor a '
             'valid Data Package and equal to the model\'s prediction; plus 1200/20000 seeded random programs of up to 8 steps over the full Menu and inputs of every inferable type.',
        note='Validity = castability by tableschema (independent oracle). Random Menu programs are judged only if they run (ill-typed otherwise) and use every menu entry at most once; concatenate / sources are explored through the model with their preconditions.',
        technique='TLA+ typing model of the processors checked with TLC; every explored program replayed with an independent validity oracle; random program exploration',
        design='6/C02', specs=['Typing.tla']),
}

NOT_YET = 'check not built yet (build in progress, see DESIGN.md section 10)'


# what later rounds (seeded changes, thorough runs, mutation sweep) added to each check
EXTRA = {
    'C01': 'Engine.tla also has the kinds dup (duplicate: tee + copy from the store), cat (concatenate) and cond (conditional) bound to the real '
           'processors, Terminates under weak fairness, the refuted deviation DelDrains <- DelSkips, and the whole <=2/<=3-step program '
           'universe of the model (EnginePrograms.tla) is executed under probes and trace-validated. '
           'Also: process() of programs ending in a conditional (descriptor and stats of process() = those of results()), inputs with '
           'array/object cells and a step that edits nested values in place (a shallow copy between two lazily chained steps shows).',
    'C02': 'Typing.tla also has concatenate restricted to the first / the last resource (descriptors and streams must stay paired '
           'around the target).',
    'C03': 'Also: in-place edits by a step AFTER the dumper must not reach the written file.',
    'C04': 'Also: the failing row lies in a resource that a later delete_resource / concatenate / join removes or behind a duplicate twin; '
           'a bare CastError with an empty error list; upstream failures inside parallelize: Parallelize.tla has the failing upstream (FailAt), '
           'TLC checks UpstreamFailureSurfaces + Termination and refutes the pinned producer (SwallowUpstream); 30/300 cooperative schedules with a '
           'failing upstream iterator are validated by ParallelizeTrace.tla (the run raises that failure, nobody is left behind) - repaired by fix b5610a4.',
    'C05': 'Also: the counts every dumper reports (per resource, package total, stats) incl. resources that are empty at the dumper; '
           'a failed read-back is a violation; failed runs (source / later step raising at row k or at the end) must not leave an '
           'incomplete stream published under the final name of stream / checkpoint.',
    'C06': 'load() is also driven with limit_rows far above / at half of the file length: the read-ahead must not change.',
    'C08': 'Also: a third run after the follow-up run must resume and reproduce the result; no .active file may survive a successful run.',
    'C10': 'Also: aliasing programs (duplicate twins, a field added to all and retyped in one, a twin keeps its rows when the original is '
           'deleted by every selector form) and the falsy selector forms 0 and [].',
    'C11': 'Also: target sequences that revisit a key after an unmatched one; total value projection (datetimes with microseconds and offsets, '
           'times, bools, Decimals under every aggregate incl. counters); joins with > 10 240 distinct keys (JoinBigTrace.tla).',
    'C12': 'Also: keys that mix a formatted field with a plain numeric one; runs above the 10 240-entry cache in both directions in the quick tier.',
    'C13': 'The known finding C13-dialect-is-sniffed is recognised by comparing with what the third-party reader (tabulator Stream, called '
           'directly) yields for the file under its guessed dialect; any other difference is a violation.',
    'C14': 'Also: a 5-argument handler that says drop for an earlier field and keep for a later one (custom5r); field-name patterns written as '
           'top-level alternations (f1|f2) next to f[12]; set_type(transform=).',
    'C15': 'Also several resources: exported cases and two-step programs (a field added to every resource by add_field / add_computed_field, '
           'then renamed / deleted / retyped in some) under every resource-selector form; every resource must keep row keys = field list.',
    'C16': 'Also: update_resource(name=, path=) rename family, sources() with colliding names, duplicate followed by a step restricted to one twin.',
    'C18': 'The spec also carries a failing upstream iterator (FailAt; scripts and model runs with FailAt > 0). Spec -> code: complete behaviours of the specification (TLC -simulate over ParallelizeSim.tla, 358/~5000 distinct scripts) are granted '
           'operation by operation to the same unmodified bodies and the projected queue state is compared with the spec state after '
           'every step; row_func failures (Fail constant); real multiprocessing runs with a queue recorder validated by ParallelizeTrace.',
    'C20': 'Array/object cells carry falsy nested items (0, False, "", [], {}, null) and the empty array / object.',
}

EXTRA3 = {'C01': " Session 3: malformed iterable links ('abc', a bare dict, a list of scalars, a malformed item after good rows) must be rejected.", 'C02': ' Session 3: Infer.tla (type inference of iterable sources over every set of <=3 of 14 Python value classes, every order of appearance; the pinned classifier is refuted), chained computed fields of one call (ChainSees), an input whose shared field has different types in its two resources, an integer field that varies inside a key group (median), a set_type pattern matching differently named fields in different resources.', 'C03': " Session 3: Missing.tla (nulls vs the schema's missingValues; typed tables carry missingValues lists), JsonCodec.tla/JsonTrace.tla (every real JSON data file is decoded by the specification's grammar-only reader, json.loads only cross-checks it), several temporal fields of one type with their own output formats, dotted resource names, resource paths inside directories.", 'C04': ' Session 3: StopIteration as exception class (row / rows functions, filter_rows, add_computed_field, set_type, sort_rows callables, sources); steps failing after ALL streams are exhausted in the main chain, in sources() sub-flows, conditionals, nested Flows and in a Flow consumed through load((descriptor, res_iter)); join target-key errors.', 'C05': ' Session 3: Printer.tla (which rows the printer shows, every case replayed; the printed tables must not depend on later steps), finalizer callbacks taking stats, observers in a Flow consumed by another Flow through load((descriptor, res_iter)) with and without resource selection, resource paths inside directories.', 'C06': ' Session 3: lazily iterated sources that know their length; a consumer that stops reading a resource early.', 'C07': 'FlowChain.tla: every bracketed pipeline (steps, checkpoints, nested Flows) x every history of runs / deletions, ideal vs implemented link absorption (known finding for nested Flows); CheckpointChain also carries failed runs; Ejson.tla TagObjects (known finding); checkpoint names that contain the temporary suffix.', 'C08': ' Session 3: a retry of the same Flow object after a failed first run.', 'C09': "Session 3: rows dropped by the dumper's own validator (drops), a second dump of other rows into the same target (same_dir_again).", 'C10': ' Session 3: the same step object used before on a rotated package (@reuse, 20% of the touch/delete/concat cases); aliasing programs for every field-adding step (add_field, add_computed_field dict/string target, unpivot).', 'C11': ' Session 3: the order/collection aggregators over the universe {0, -1, null} (NegVals).', 'C12': " Session 3: three key-string designs and ZeroFix in the spec (repairs designed there); keys of any length over an alphabet with NUL/SOH; both zeros; two resources sharing the key field's name (text in one, numbers in the other).", 'C13': ' Session 3: limit_rows exactly in front of an uncastable row under on_error=raise; the string strategies on a data package and a (descriptor, iterators) pair (nulls stay nulls); list selectors with names that look like patterns.', 'C14': ' Session 3: required constraint (the invalid value is null); invalid values that equal a valid one of another class (True/1/1.0); 5-argument handlers with a defaulted / differently named fifth parameter.', 'C15': " Session 3: falsy constants under both spellings of with; rows listing their keys in different orders; a later specification of one add_computed_field call using an earlier one's target.", 'C16': ' Session 3: in-place edits of nested values of one twin; pre-used step objects; a concatenate target named like one of the resources it replaces.', 'C17': 'Session 3: the same table as two resources of one package (per-resource state), overlapping unpivot entries, pre-used step objects.', 'C19': 'Session 3: dumps with the resource hash switched off, a package dumped again after loading it, byte-identical resources under add_filehash_to_path; a complete dump that lists missing files is a verdict.', 'C20': ' Session 3: WriterGetsCopy / PairingOK in the spec (repair designed there), histories without array/object columns, with a duration column (known finding on existing tables), and with a second table written by the same step.'}
EXTRA4 = {
    'C02': "Round 8: Typing.tla carries primary keys (KeysDeclared; PkFollows=FALSE, the pinned behaviour, is refuted - fix 5999354), a renaming concatenate and set_type(on_error=clear) over several fields; the oracle also asks tableschema whether every emitted schema is a valid Table Schema.",
    'C03': "Round 8: rows whose key order is not the schema's; resources that arrive with an encoding of their own (files are decoded with the RECORDED encoding).",
    'C04': "Round 8: sources raising exception classes the table reader treats specially (UnicodeDecodeError, OSError, io.UnsupportedOperation, classes with constructors of their own) inside / after the inference sample and at exhaustion.",
    'C05': "Round 8: Stats.tla (statistics merged in pipeline order: LastReportWins; every chain replayed through process(), results() and a finalizer's stats); an xlsx dumper among the engine's observers and rows rebuilt with another key order.",
    'C07': "Round 8: plain floats inside array / object / any cells; zone names shared by different UTC offsets.",
    'C09': "Round 8: hash counters on while every byte / row counter is off.",
    'C12': "Round 8: neighbouring doubles of both signs and integers in 2^52..2^53 as keys.",
    'C13': "Round 8: duplicated headers whose text contains % (text, not a template).",
    'C17': "Round 8: deduplicate over text keys whose glued renderings collide (one injective relabelling of the model's tables per field).",
    'C18': "Round 8: the scheduler's queue shim implements mp.Queue.close() as CPython does (sentinel behind buffered items, both pipe ends closed, inherited at fork).",
}
EXTRA5 = {
    'C01': "Round 9: step by step is also taken through results() (the materialised output a user gets); a source whose cells need the loader's cast and a filter that sees nulls.",
    'C02': "Round 9: Typing.tla has dump_to_sql with an update flag (sql_flag: the flag is a declared field, fix 6b510fb) and join on row numbers in full-outer mode.",
    'C03': "Round 9: a second file dumper of the other format later in the same flow.",
    'C05': "Round 9: SubFlow.tla ObserverDrains - consumers that are LATER STEPS of the same chain and stop reading early (islice / break / return) behind every observer kind (fix 6430243).",
    'C06': "Round 9: the early-stopping observation (nothing more is pulled once the consumer stopped) applies to pipelines without an observer; behind a dumper / stream / checkpoint the rest IS read - C05 demands it - and thrown away row by row.",
    'C07': "Round 9: the default checkpoint_path (child process imports the library in one directory and runs in another: run / run / delete / run).",
    'C08': "Round 9: the file-system recorder also intercepts copy-style publishing of the stream file (create / chunks / close are interruptible).",
    'C09': "Round 9: multi-byte text in the descriptor itself; a hashed-path package re-dumped with edited rows into the same directory.",
    'C11': "Round 9: every emitted row carries exactly the declared fields (extra rows of full-outer joins carry the target's own fields as nulls, fixes da27635 / 7c912c8).",
    'C13': "Round 9: limit_rows versus the inference sample (the first text cell of an integer-looking column at line n, n+1, ...); the sniffed-dialect finding is also recognised when it ends in 'duplicate headers'.",
    'C15': "Round 9: ProcFields.tla renames onto names the schema already has (swaps, cycles, shifts).",
    'C16': "Round 9: sources() with named resources that collide with existing names / with the names it generates.",
}
EXTRA6 = {
    'C03': "Round 10: resources that arrive with a dialect of their own (header-less, escape character, other delimiter).",
    'C07': "FlowReuse.tla: run / delete histories on ONE Flow object (fix b335952). Round 10: Ejson.tla zones without a name (AwareBy: the pinned decoder told zone-aware values by the written NAME - refuted, fix dada92e); resumed rows carry the same fields as the first run's rows.",
    'C09': "Round 10: xlsx dumps (size / hash / rows / totals of files the writer saves by name; fix e02c01f).",
    'C20': "Round 10: a bystander table of the same database whose name begins like the dumped table's is untouched by every dump.",
    'C15': "Round 10: find_replace over several resources / one specification handed to two steps.",
    'C02': "Session 4: Typing.tla has update_resource(0, name=...) (rename_res: later steps - join, duplicate, dump_to_sql - address the resource by its new name; a taken name is the caller's precondition).",
    'C16': "Round 10: duplicate of a resource of typed values (sub-second times, zone-aware datetimes, decimals, nested containers) is an exact copy.",
}
for _k, _v in EXTRA6.items():
    EXTRA5[_k] = (EXTRA5.get(_k, '') + ' ' + _v).strip()
for _k, _v in EXTRA5.items():
    EXTRA4[_k] = (EXTRA4.get(_k, '') + ' ' + _v).strip()
for _k, _v in EXTRA4.items():
    EXTRA3[_k] = (EXTRA3.get(_k, '') + ' ' + _v)
for _k, _v in EXTRA3.items():
    EXTRA[_k] = (EXTRA.get(_k, '') + (_v if _v.startswith(' ') else ' ' + _v)).strip()


def main():
    props = [json.loads(l) for l in open(os.path.join(VERIF, 'properties.jsonl'))]
    commits = subprocess.run(['git', '-C', '/repo', 'log', '--format=%h %s', '5adba0e..HEAD'], stdout=subprocess.PIPE, text=True).stdout.splitlines()
    checks = []
    for pid, c in CHECKS.items():
        checks.append({
            'property_id': pid,
            'quick_cmd': 'bin/check %s --tier quick' % pid,
            'thorough_cmd': 'bin/check %s --tier thorough' % pid,
            'evidence_file': 'evidence/%s.json' % pid,
            'replay_cmd_template': 'bin/check %s --replay {path}' % pid,
            'engine': 'tlc+replay',
            'level_claimed': {'category': c['level'], 'text': c['text'] + (' ' + EXTRA[pid] if pid in EXTRA else ''), 'design_ref': 'DESIGN.md section ' + c['design']},
            'level_note': c['note'],
            'technique': c['technique'],
        })
    m = {
        'version': 1,
        'setup_cmd': '/venv/bin/python /verif/bin/check --setup',
        'hooks': {
            'guard': 'DATAFLOWS_VERIF',
            'enable': 'no hooks are needed: checks import /repo\'s working tree (sys.path) and instrument it from the harness '
                      'process through module globals / wrapper processors; the guard name is reserved and unused',
            'baseline_off_cmd': 'cd /repo && /venv/bin/python -m pytest -ra -q -p no:cacheprovider --timeout=900 --continue-on-collection-errors',
            'source_commits': [],
            'add_only': True,
        },
        'engines': [{'name': 'tlc+replay', 'path': 'bin/check',
                     'serves_properties': sorted(CHECKS),
                     'kind_free_text': 'explicit TLA+ specifications under spec/ model-checked by TLC 1.8; TLC-generated cases/behaviours '
                                       'replayed into the real library and executions recorded from the real library validated by TLC trace specs'}],
        'checks': checks,
        'notes': 'fix: commits made to /repo (genuine defects, see known_findings.json): ' + '; '.join(commits),
        'not_applicable': [{'property_id': p['id'], 'reason': NOT_YET} for p in props if p['id'] not in CHECKS],
    }
    json.dump(m, open(os.path.join(VERIF, 'MANIFEST.json'), 'w'), indent=1)
    import jsonschema
    jsonschema.validate(m, json.load(open('/root/.vp/MANIFEST.schema.json')))
    print('MANIFEST: %d checks, %d not yet claimed' % (len(checks), len(m['not_applicable'])))


if __name__ == '__main__':
    main()
