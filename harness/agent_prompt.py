"""Prints the prompt given to an independent sub-agent that seeds a property-breaking change.
The agent sees only the property text and its own scratch worktree - nothing from /verif."""
import json, sys
pid = sys.argv[1]
root = sys.argv[2] if len(sys.argv) > 2 else '/tmp/wt'
p = [json.loads(l) for l in open('/verif/properties.jsonl') if json.loads(l)['id'] == pid][0]
print(f"""You are helping to evaluate a verification framework by seeding a realistic bug. Work ONLY inside the scratch git worktree {root}/{pid} (a checkout of the Python library datahq/dataflows) and the output directory {root}-out/{pid}. Do not read or touch /verif or /repo. There is no network.

Property of the library that should always hold:

  Title: {p['title']}
  Statement: {p['statement']}
  Scope: {p['quantifier']['text']}

Task: produce TWO different, independent source changes (mutations) to the library code under {root}/{pid}/dataflows, each of which BREAKS this property while
  (a) the package still imports and the existing test-suite still passes exactly as before: run it with
        cd {root}/{pid} && /venv/bin/python -m pytest -q -p no:cacheprovider --timeout=900 -x -q tests/test_lib.py tests/test_edge_cases.py tests/test_examples.py
      (on the unmodified tree 4 tests fail because they need the network: tests/test_cli.py::test_init_remote and tests/test_examples.py::test_example_3, test_example_4, test_example_5 - ignore those (drop -x if needed); every other test must still pass with your change);
  (b) the change looks like a plausible refactoring slip / optimisation / off-by-one a real contributor could make (small: 1-10 lines), not sabotage;
  (c) it needs something SPECIFIC to manifest - a particular interleaving, a crash or fault at a particular point, a multi-step sequence of operations, an unusual input/configuration, or two cooperating sites that each look fine alone - i.e. ordinary simple use would not expose it at once.
The two mutations should touch different mechanisms (ideally different files or functions).

For each mutation k in {{1,2}} write into {root}-out/{pid}/m<k>/ :
  - patch.diff : `git diff` of the change relative to HEAD (apply-able with `git apply` at the repository root),
  - demo.py    : a small stand-alone program, run as `cd <repo root> && PYTHONPATH=<repo root> /venv/bin/python demo.py` (it must take the repository root from the current directory / PYTHONPATH, not hard-code {root}/{pid}), that exits 0 on the unmodified tree and exits non-zero (assertion failure) with the change applied, demonstrating the property violation in terms of observable behaviour (not internal identifiers),
  - meta.json  : {{"property": "{pid}", "summary": "...", "files": [...], "needs": "what specific condition is needed for it to manifest", "tests_pass": true}}.
Verify yourself: demo passes on clean tree, fails with patch; test-suite passes with patch. Make the mutations one at a time; NEVER use `git stash` (it is shared between worktrees) - save each patch with `git diff > file` and restore with `git checkout -- .` and leave the worktree clean (git checkout -- .) at the end. Use /venv/bin/python (it has all dependencies). When a test or demo starts `parallelize` worker processes, run it under `timeout 120` so a hang cannot block you.

Finish with a short report: for each mutation the file/function changed, a one-line description, and what it needs to manifest.""")
