"""Binding of spec/Engine.tla to the real engine: abstract programs -> real Flows with a probe at every
boundary; recorded executions -> EngineTrace.tla (batched TLC run) -> one verdict per trace."""
import csv
import io
import json
import os
import shutil
import tempfile
import zipfile

from . import tlc
from .common import setup_repo, rng

SAMPLE = 2
KINDS = ['src', 'map', 'filter', 'del', 'obs', 'sort', 'fin', 'dup', 'cat', 'cond', 'fault']

# variants: the real processors an abstract kind stands for
VARIANTS = {
    'src': ['list', 'generator'],
    'map': ['row_inplace', 'row_newdict', 'rows_gen', 'package_fn', 'lambda_row', 'row_rekeyed'],
    'filter': ['filter_rows', 'rows_gen', 'package_fn'],
    'del': ['delete_resource_int'],
    'obs': ['dump_to_path', 'dump_to_zip', 'stream', 'checkpoint', 'dump_to_path_json', 'dump_to_path_xlsx'],
    'sort': ['sort_rows'],
    'fin': ['finalizer', 'finalizer_stats'],
    'dup': ['duplicate', 'duplicate_batch1'],
    'cat': ['concatenate'],
    'cond': ['flow', 'callable'],
    'fault': ['processor'],
}


class Injected(Exception):
    pass


def make_exc(cls):
    from tableschema.exceptions import CastError, UniqueKeyError
    if cls == 'gen':
        return Injected('injected fault')
    if cls == 'cast':
        return CastError('injected cast error')
    if cls == 'uniq':
        return UniqueKeyError('injected unique key error')
    raise ValueError(cls)


def probe_class():
    from dataflows import DataStreamProcessor

    class Probe(DataStreamProcessor):
        def __init__(self, b, log, on_row=None):
            super().__init__()
            self.b, self.log, self.on_row = b, log, on_row

        def process_datapackage(self, dp):
            self.log.append(['pkg', self.b])
            return dp

        def process_resources(self, resources):
            it = iter(resources)
            k = 0
            b = self.b
            while True:
                self.log.append(['dRes', b])
                try:
                    res = next(it)
                except StopIteration:
                    self.log.append(['sEndAll', b])
                    return
                except BaseException:
                    self.log.append(['sExc', b])
                    raise
                k += 1
                self.log.append(['sRes', b, k])
                yield self.rows(res, k)

        def rows(self, res, k):
            it = iter(res)
            b = self.b
            while True:
                self.log.append(['dRow', b, k])
                try:
                    row = next(it)
                except StopIteration:
                    self.log.append(['sEndRes', b, k])
                    return
                except BaseException:
                    self.log.append(['sExc', b])
                    raise
                self.log.append(['sRow', b, k, {'s': row['s'], 'k': row['k'], 'v': row['v']}])
                if self.on_row:
                    self.on_row(row)
                yield row
    return Probe


def faulty_class():
    from dataflows import DataStreamProcessor

    class Faulty(DataStreamProcessor):
        def __init__(self, at, exc):
            super().__init__()
            self.at, self.exc = at, exc

        def process_datapackage(self, dp):
            if self.at == 'pkg':
                raise self.exc
            return dp

        def process_resource(self, res):
            for row in res:
                if self.at == 'row':
                    raise self.exc
                yield row

        def process_resources(self, resources):
            yield from super().process_resources(resources)
            if self.at == 'end':
                raise self.exc
    return Faulty


class Run:
    """One real execution of an abstract program."""

    def __init__(self, steps, variants, workdir):
        self.steps = steps
        self.variants = variants
        self.wd = workdir
        self.log = []
        self.pulled = {}
        self.max_look = 0
        self.fin_calls = {}
        self.excs = {}
        self.obs_paths = {}

    # ---- real steps
    def source(self, i, st, variant):
        rows = [dict(s=i, k=k + 1, v=v) for k, v in enumerate(st['rows'])]
        self.pulled[i] = 0

        def gen():
            for r in rows:
                self.pulled[i] += 1
                yield dict(r)
        if variant == 'list':
            class L(list):
                def __iter__(s2):
                    return gen()
            return L(rows)
        return gen()

    def real(self, i, st, variant):
        import dataflows as DF
        k = st['kind']
        if k == 'src':
            return self.source(i, st, variant)
        if k == 'map':
            if variant == 'row_inplace':
                def f(row):
                    row['v'] += 10
                return f
            if variant == 'row_newdict':
                def f(row):
                    return dict(row, v=row['v'] + 10)
                return f
            if variant == 'lambda_row':
                return lambda row: dict(row, v=row['v'] + 10)
            if variant == 'row_rekeyed':
                # a new dict whose keys come in another order than the schema's fields: the order of a row's keys means nothing
                return lambda row: dict(v=row['v'] + 10, k=row['k'], s=row['s'])
            if variant == 'rows_gen':
                def f(rows):
                    for row in rows:
                        row['v'] += 10
                        yield row
                return f
            if variant == 'package_fn':
                def f(package):
                    yield package.pkg
                    for res in package:
                        yield (dict(r, v=r['v'] + 10) for r in res)
                return f
        if k == 'filter':
            if variant == 'filter_rows':
                return DF.filter_rows(condition=lambda r: r['v'] % 2 == 1)
            if variant == 'rows_gen':
                def f(rows):
                    for row in rows:
                        if row['v'] % 2 == 1:
                            yield row
                return f
            if variant == 'package_fn':
                def f(package):
                    yield package.pkg
                    for res in package:
                        yield (r for r in res if r['v'] % 2 == 1)
                return f
        if k == 'del':
            return DF.delete_resource(0)
        if k == 'obs':
            p = os.path.join(self.wd, 'obs%d' % i)
            self.obs_paths[i] = (variant, p)
            if variant == 'dump_to_path':
                return DF.dump_to_path(p)
            if variant == 'dump_to_path_json':
                return DF.dump_to_path(p, format='json')
            if variant == 'dump_to_path_xlsx':
                return DF.dump_to_path(p, format='xlsx')
            if variant == 'dump_to_zip':
                os.makedirs(p, exist_ok=True)
                return DF.dump_to_zip(os.path.join(p, 'out.zip'))
            if variant == 'stream':
                os.makedirs(p, exist_ok=True)
                return DF.stream(os.path.join(p, 'stream.ndjson'))
            if variant == 'checkpoint':
                return ('checkpoint', p)
        if k == 'sort':
            return DF.sort_rows('{v}', reverse=True)
        if k == 'dup':
            # duplicate(): the first resource, the copy right after it (unique names per step)
            return DF.duplicate(target_name='copy%d' % i, target_path='copy%d.csv' % i, batch_size=1 if variant == 'duplicate_batch1' else 1000)
        if k == 'cond':
            inner = self.real(i, {'kind': st['inner']}, VARIANTS[st['inner']][0])
            pred = bool(st['pred'])
            if variant == 'callable':
                return DF.conditional(lambda dp: pred, lambda dp: DF.Flow(inner))
            return DF.conditional(lambda dp: pred, DF.Flow(inner))
        if k == 'cat':
            return DF.concatenate(dict(s=[], k=[], v=[]), target=dict(name='cat%d' % i, path='cat%d.csv' % i))
        if k == 'fin':
            self.fin_calls[i] = 0
            if variant == 'finalizer_stats':
                def cb(stats):
                    self.fin_calls[i] += 1
                    self.log.append(['fin', i])
            else:
                def cb():
                    self.fin_calls[i] += 1
                    self.log.append(['fin', i])
            return DF.finalizer(cb)
        if k == 'fault':
            self.excs[i] = make_exc(st['cls'])
            return faulty_class()(st['at'], self.excs[i])
        raise ValueError((k, variant))

    def on_delivery(self, row):
        la = self.pulled.get(row['s'], 0) - row['k']
        if la > self.max_look:
            self.max_look = la

    def build(self):
        import dataflows as DF
        Probe = probe_class()
        n = len(self.steps)
        links = [Probe(0, self.log)]
        for i, st in enumerate(self.steps, start=1):
            v = self.variants[i - 1]
            r = self.real(i, st, v)
            if isinstance(r, tuple) and r[0] == 'checkpoint':
                # checkpoint absorbs the links before it: build it around them
                cp = DF.checkpoint('cp%d' % i, checkpoint_path=r[1])
                links.append(cp)
            else:
                links.append(r)
            links.append(Probe(i, self.log, on_row=self.on_delivery if i == n else None))
        return links

    def execute(self, mode='results'):
        from dataflows import Flow, exceptions
        import sys as _sys
        il = _sys.modules['dataflows.helpers.iterable_loader']
        links = self.build()
        old = il.iterable_storage.SAMPLE_SIZE
        il.iterable_storage.SAMPLE_SIZE = SAMPLE
        outcome, out, cause = 'done', [], 0
        try:
            f = Flow(*links)
            if mode == 'results':
                res, dp, stats = f.results()
                out = [[{'s': r['s'], 'k': r['k'], 'v': r['v']} for r in rows] for rows in res]
            elif mode == 'process':
                dp, stats = f.process()
                out = self._out_from_log(len(self.steps))
            else:
                ds = f.datastream()
                out = [[{'s': r['s'], 'k': r['k'], 'v': r['v']} for r in res] for res in ds.res_iter]
        except exceptions.ProcessorError as e:
            outcome = 'failed'
            cause = ([i for i, x in self.excs.items() if e.cause is x] or [0])[0]
        except Exception as e:
            outcome = 'failed'
            # datastream() is raw iteration: the original exception itself may surface (process()/results() must wrap it)
            cause = ([i for i, x in self.excs.items() if e is x] or [0])[0] if mode == 'datastream' else -1
        finally:
            il.iterable_storage.SAMPLE_SIZE = old
        return outcome, out, cause

    def _out_from_log(self, n):
        out = []
        for e in self.log:
            if e[0] == 'sRes' and e[1] == n:
                out.append([])
            elif e[0] == 'sRow' and e[1] == n:
                out[-1].append(e[3])
        return out

    # ---- what observers left behind
    def observed(self):
        res = []
        for i, (variant, p) in sorted(self.obs_paths.items()):
            committed, persisted = False, []
            try:
                if variant in ('dump_to_path', 'dump_to_path_json', 'dump_to_path_xlsx'):
                    dpj = os.path.join(p, 'datapackage.json')
                    if os.path.exists(dpj):
                        d = json.load(open(dpj))
                        committed = True
                        for r in d.get('resources', []):
                            persisted.append(read_rows(open(os.path.join(p, r['path']), 'rb').read(), r['format']))
                elif variant == 'dump_to_zip':
                    zp = os.path.join(p, 'out.zip')
                    if os.path.exists(zp) and zipfile.is_zipfile(zp):
                        z = zipfile.ZipFile(zp)
                        if 'datapackage.json' in z.namelist():
                            committed = True
                            d = json.loads(z.read('datapackage.json'))
                            for r in d.get('resources', []):
                                persisted.append(read_rows(z.read(r['path']), r['format']))
                elif variant in ('stream', 'checkpoint'):
                    fp = os.path.join(p, 'stream.ndjson') if variant == 'stream' else os.path.join(p, 'cp%d' % i, 'stream.ndjson')
                    if os.path.exists(fp):
                        committed = True
                        lines = open(fp).read().split('\n')
                        d = json.loads(lines[0])
                        cur = []
                        idx = 1
                        for _ in d.get('resources', []):
                            cur = []
                            while idx < len(lines) and lines[idx].strip():
                                r = json.loads(lines[idx])
                                cur.append({'s': r['s'], 'k': r['k'], 'v': r['v']})
                                idx += 1
                            idx += 1
                            persisted.append(cur)
            except Exception as e:
                # committed (a descriptor / final file exists) but what it points at cannot be read back:
                # a well-typed sentinel row, so that the completeness clause fails instead of the checker
                committed, persisted = True, [[{'s': -1, 'k': -1, 'v': -1}]]
                note = 'unreadable: %s' % e
            res.append({'i': i, 'committed': committed, 'persisted': persisted})
        return res


def read_rows(data, fmt):
    if fmt == 'xlsx':
        import openpyxl
        ws = openpyxl.load_workbook(io.BytesIO(data), read_only=True).worksheets[0]
        table = list(ws.iter_rows(values_only=True))
        head = list(table[0]) if table else []
        return [{h: int(c) for h, c in zip(head, row) if h in ('s', 'k', 'v')} for row in table[1:]]
    if fmt == 'json':
        return [{'s': r['s'], 'k': r['k'], 'v': r['v']} for r in json.loads(data.decode('utf8'))]
    rd = csv.DictReader(io.StringIO(data.decode('utf8')))
    return [{'s': int(r['s']), 'k': int(r['k']), 'v': int(r['v'])} for r in rd]


def record(item):
    """item = dict(steps, variants, mode) -> trace record for EngineTrace.tla."""
    setup_repo()
    steps, variants, mode = item['steps'], item['variants'], item.get('mode', 'results')
    wd = tempfile.mkdtemp(prefix='eng-', dir=tlc.WORK_ROOT)
    try:
        run = Run(steps, variants, wd)
        import contextlib
        with contextlib.redirect_stdout(io.StringIO()), contextlib.redirect_stderr(io.StringIO()):
            outcome, out, cause = run.execute(mode)
        fin = {'outcome': outcome, 'out': out, 'causeStep': cause, 'obs': run.observed(),
               'fins': [{'i': i, 'calls': c} for i, c in sorted(run.fin_calls.items())],
               'maxLook': run.max_look}
        return {'steps': steps, 'variants': variants, 'mode': mode, 'ev': run.log, 'fin': fin}
    finally:
        shutil.rmtree(wd, ignore_errors=True)


def validate(traces, swallow_cast=False, sample=SAMPLE, max_len=8):
    """Run EngineTrace.tla over the recorded traces. Returns (tlc result, verdict per trace index)."""
    wd = tlc.workdir('engtrace')
    tf = tlc.write_ndjson(os.path.join(wd, 'traces.ndjson'),
                          [{'steps': t['steps'], 'ev': t['ev'], 'fin': t['fin']} for t in traces])
    cfg = tlc.write_cfg(os.path.join(wd, 'trace.cfg'), spec='TraceSpec',
                        constants={'MaxLen': max_len, 'Sample': sample, 'Ahead': 100, 'SrcRows': '<- SrcRowsSmall', 'SwallowCast': 'TRUE' if swallow_cast else 'FALSE',
                                   'Kinds': '{' + ', '.join('"%s"' % k for k in KINDS) + '}'},
                        invariants=['NoDeadlock'], constraints=['Verdict'])
    res = tlc.run_tlc('EngineTrace', cfg, workers=1, env={'TRACE_FILE': tf}, allow_violation=False, timeout=3000)
    verdicts = {}
    for v in res.tuples('VERDICT'):
        # ["VERDICT", t, matched, total, events_ok, phase, C01, C04, C05, C06, FinalEq]
        verdicts[v[0]] = dict(matched=v[1], total=v[2], events_ok=v[3], phase=v[4], C01=v[5], C04=v[6], C05=v[7],
                              C06=v[8], final_eq=v[9])
    if len(verdicts) != len(traces):
        raise tlc.MachineryError('EngineTrace produced %d verdicts for %d traces' % (len(verdicts), len(traces)))
    return res, [verdicts[i + 1] for i in range(len(traces))]


def random_program(r, max_len, kinds, need=None):
    """A well-typed random program (del only where a resource exists)."""
    from itertools import count
    for _ in count():
        n = r.randint(1, max_len)
        steps = []
        nres = 0
        ok = True
        for i in range(n):
            k = r.choice(kinds)
            if k == 'src':
                steps.append({'kind': 'src', 'rows': r.choice([[], [1], [1, 2, 3]])})
                nres += 1
            elif k in ('del', 'dup', 'cat'):
                if nres < 1:
                    ok = False
                    break
                nres = nres - 1 if k == 'del' else nres + 1 if k == 'dup' else 1
                steps.append({'kind': k})
            elif k == 'fault':
                steps.append({'kind': 'fault', 'at': r.choice(['pkg', 'row', 'end']), 'cls': r.choice(['gen', 'cast', 'uniq'])})
            elif k == 'cond':
                steps.append({'kind': 'cond', 'pred': r.random() < 0.6, 'inner': r.choice(['map', 'filter', 'sort'])})
            else:
                steps.append({'kind': k})
        if not ok:
            continue
        if need and not need(steps):
            continue
        return steps


def choose_variants(r, steps):
    out = []
    for st in steps:
        vs = VARIANTS[st['kind']]
        v = r.choice(vs)
        out.append(v)
    return out


def check_traces(rep, items, clause, swallow_cast=False):
    """record the items on the real library, validate the batch with TLC, turn verdicts into report entries"""
    from .common import pmap, harness_errors
    traces = pmap(record, items, chunksize=8)
    errs = harness_errors(traces)
    if errs:
        raise tlc.MachineryError('harness error while recording engine traces: ' + errs[0])
    # the binding binds: a recorded execution with one event changed, and one with one delivered row changed, must be rejected
    import copy
    cands = [i for i, t in enumerate(traces) if t['fin']['outcome'] == 'done' and any(e[0] == 'sRow' for e in t['ev']) and t['fin']['out'] and t['fin']['out'][-1]][:4]
    extra = []
    for i in cands:
        c1 = copy.deepcopy(traces[i])
        k = max(j for j, e in enumerate(c1['ev']) if e[0] == 'sRow')
        c1['ev'][k][3]['v'] += 1
        c2 = copy.deepcopy(traces[i])
        c2['fin']['out'][-1][-1]['v'] += 1
        extra += [c1, c2]
    res, verdicts = validate(traces + extra, swallow_cast=swallow_cast)
    if extra:
        ev = verdicts[len(traces):]
        verdicts = verdicts[:len(traces)]
        tested = 0
        for n, i in enumerate(cands):
            v0, v1, v2 = verdicts[i], ev[2 * n], ev[2 * n + 1]
            if not (v0['events_ok'] and v0['C01'] and v0['final_eq']):
                continue            # the probe itself is not a conforming execution (the library under test is broken): it proves nothing either way
            tested += 1
            if v1['events_ok'] or v2['C01'] or v2['final_eq']:
                raise tlc.MachineryError('EngineTrace accepted a corrupted trace (event changed: events_ok=%s; result changed: C01=%s): the trace spec does not bind'
                                         % (v1['events_ok'], v2['C01']))
            rep.notes['trace_binding_selftest'] = 'a trace with one sRow event changed is rejected at event %d/%d; a trace with one delivered row changed fails C01' % (v1['matched'], v1['total'])
        if not tested:
            rep.notes['trace_binding_selftest'] = 'skipped: none of the probe executions conforms'
    rep.add_tlc(res, 'EngineTrace: %d recorded executions' % len(traces))
    for tr, v in zip(traces, verdicts):
        rep.count(1, traces=1)
        rep.mark_distinct(dict(s=tr['steps'], v=tr['variants'], m=tr['mode']))
        case = dict(steps=tr['steps'], variants=tr['variants'], mode=tr['mode'])
        if not v[clause]:
            rep.violation(case, dict(clause=clause, verdict=v, recorded=tr['fin'],
                                     next_events=tr['ev'][max(0, v['matched'] - 2): v['matched'] + 2]),
                          category='trace/%s/%s' % (clause, '+'.join(s['kind'] for s in tr['steps'])[:50]))
        elif not v['events_ok'] or not v['final_eq']:
            rep.model_drift('recorded execution is not a behaviour of Engine.tla (matched %d/%d events, final_eq=%s) although %s holds on it'
                            % (v['matched'], v['total'], v['final_eq'], clause), case)
    if traces:
        rep.sample(dict(engine_trace=dict(steps=traces[0]['steps'], variants=traces[0]['variants'],
                                          mode=traces[0]['mode'], events=traces[0]['ev'][:12], fin=traces[0]['fin'])))
    return traces, verdicts


def well_typed(steps):
    """delete_resource(0) needs a resource to delete (Engine!WellTyped)"""
    n = 0
    for s in steps:
        if s['kind'] == 'src':
            n += 1
        elif s['kind'] in ('del', 'dup', 'cat'):
            if n < 1:
                return False
            n = n - 1 if s['kind'] == 'del' else n + 1 if s['kind'] == 'dup' else 1
    return True
