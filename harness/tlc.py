"""Running TLC and reading what it says.

Everything that talks to the model checker goes through here:

* ``run_tlc``      - run a module + cfg (exhaustive or -simulate), parse state counts,
                     violated invariant, per-action coverage and every tagged PrintT line
* ``TLCResult``    - .cases (``<<"CASE", json>>`` lines), .verdicts (``<<"VERDICT", ...>>``),
                     .generated/.distinct/.depth, .coverage
* ``write_cfg``    - generate a cfg with literal constants (constants as cfg
                     substitution of a module definition are quadratic in TLC)
* ``write_ndjson`` - trace files for *Trace.tla specs (read via IOEnv.TRACE_FILE)

A TLC failure that is not a property verdict (parse error, crash, timeout) raises
``MachineryError`` -> exit code 2, never a VIOLATION.
"""
import json
import os
import re
import shutil
import subprocess
import sys
import tempfile
import time
import atexit

VERIF = os.path.dirname(os.path.dirname(os.path.abspath(__file__)))
SPEC_DIR = os.path.join(VERIF, 'spec')
WORK_ROOT = os.path.join(VERIF, '.work')
os.makedirs(WORK_ROOT, exist_ok=True)      # scratch root of every check (a fresh checkout has none)
JAR = '/opt/veriftools/tla/tla2tools.jar:/opt/veriftools/tla/CommunityModules-deps.jar'


class MachineryError(Exception):
    pass


_workdirs = []


def workdir(tag='w'):
    os.makedirs(WORK_ROOT, exist_ok=True)
    d = tempfile.mkdtemp(prefix='%s-%d-' % (tag, os.getpid()), dir=WORK_ROOT)
    _workdirs.append(d)
    return d


def _cleanup():
    for d in _workdirs:
        shutil.rmtree(d, ignore_errors=True)


atexit.register(_cleanup)


def write_cfg(path, *, spec='Spec', init=None, next_=None, constants=None, invariants=(),
              properties=(), constraints=(), action_constraints=(), postcondition=None,
              view=None, deadlock=False, symmetry=None):
    lines = []
    if init:
        lines += ['INIT %s' % init, 'NEXT %s' % next_]
    else:
        lines.append('SPECIFICATION %s' % spec)
    if constants:
        lines.append('CONSTANTS')
        for k, v in constants.items():
            lines.append('  %s = %s' % (k, v) if not str(v).startswith('<-') else '  %s %s' % (k, v))
    for i in invariants:
        lines.append('INVARIANT %s' % i)
    for p in properties:
        lines.append('PROPERTY %s' % p)
    for c in constraints:
        lines.append('CONSTRAINT %s' % c)
    for c in action_constraints:
        lines.append('ACTION_CONSTRAINT %s' % c)
    if postcondition:
        lines.append('POSTCONDITION %s' % postcondition)
    if view:
        lines.append('VIEW %s' % view)
    if symmetry:
        lines.append('SYMMETRY %s' % symmetry)
    lines.append('CHECK_DEADLOCK %s' % ('TRUE' if deadlock else 'FALSE'))
    with open(path, 'w') as f:
        f.write('\n'.join(lines) + '\n')
    return path


def tla_value(v):
    """Python literal -> TLA+ literal (for cfg constants / generated modules)."""
    if isinstance(v, bool):
        return 'TRUE' if v else 'FALSE'
    if isinstance(v, int):
        return str(v)
    if isinstance(v, str):
        return json.dumps(v)
    if isinstance(v, (list, tuple)):
        return '<<' + ', '.join(tla_value(x) for x in v) + '>>'
    if isinstance(v, (set, frozenset)):
        return '{' + ', '.join(sorted(tla_value(x) for x in v)) + '}'
    if isinstance(v, dict):
        if not v:
            return '<<>>'
        return '[' + ', '.join('%s |-> %s' % (k, tla_value(x)) for k, x in v.items()) + ']'
    raise TypeError(v)


def write_ndjson(path, records):
    with open(path, 'w') as f:
        for r in records:
            f.write(json.dumps(r, separators=(',', ':')) + '\n')
    return path


_TAG_RE = re.compile(r'^<<\s*"([A-Z]+)",\s*(.*)>>\s*$')


class TLCResult:
    def __init__(self, rc, out, wall):
        self.rc = rc
        self.out = out
        self.wall = wall
        self.generated = 0
        self.distinct = 0
        self.depth = 0
        self.violated = None      # name of a violated invariant / property
        self.error = None         # other TLC error text
        self.tagged = {}          # TAG -> list of raw payload strings
        self.coverage = {}        # action name -> (distinct, total)
        self._parse()

    def _parse(self):
        out = self.out
        for line in out.splitlines():
            if line.startswith('<<'):
                m = _TAG_RE.match(line)
                if m:
                    self.tagged.setdefault(m.group(1), []).append(m.group(2))
                    continue
        m = None
        for m in re.finditer(r'(\d+) states generated, (\d+) distinct states found', out):
            pass
        if m:
            self.generated, self.distinct = int(m.group(1)), int(m.group(2))
        m = re.search(r'depth of the complete state graph search is (\d+)', out)
        if m:
            self.depth = int(m.group(1))
        m = re.search(r'Invariant (\S+) is violated', out) or re.search(r'The invariant of (\S+) is equal to FALSE', out)
        if m:
            self.violated = m.group(1)
        m1 = re.search(r'Temporal property (\S+) was violated', out)
        if m1 and not self.violated:
            self.violated = m1.group(1)
        m2 = re.search(r'Temporal properties were violated', out)
        if m2 and not self.violated:
            self.violated = 'TEMPORAL'
        m3 = re.search(r'Action property (\S+) is violated', out) or \
            re.search(r'action property (\S+) .*violated', out)
        if m3 and not self.violated:
            self.violated = m3.group(1)
        if re.search(r'Deadlock reached', out) and not self.violated:
            self.violated = 'DEADLOCK'
        if self.violated is None and ('Error:' in out or 'error' in out.lower() and 'No error has been found' not in out
                                      and 'Model checking completed' not in out and 'Finished' not in out):
            # keep the first error paragraph
            i = out.find('Error:')
            self.error = out[i:i + 2000] if i >= 0 else out[-2000:]
        # coverage lines:  <Action line 12, col 1 to line 14, col 20 of module X>: 12:34
        for m in re.finditer(r'^<(\w+) line \d+, col \d+ to line \d+, col \d+ of module (\w+)>: (\d+):(\d+)', out, re.M):
            name = m.group(1)
            d, t = int(m.group(3)), int(m.group(4))
            od, ot = self.coverage.get(name, (0, 0))
            self.coverage[name] = (max(od, d), max(ot, t))

    @property
    def ok(self):
        return self.violated is None and self.error is None and (
            'Model checking completed. No error has been found' in self.out or
            'Finished in' in self.out and 'Error' not in self.out)

    def json_payloads(self, tag):
        res = []
        for raw in self.tagged.get(tag, []):
            try:
                res.append(json.loads(json.loads(raw)))
            except Exception as e:
                raise MachineryError('cannot parse %s payload %r: %s' % (tag, raw[:200], e))
        return res

    @property
    def cases(self):
        return self.json_payloads('CASE')

    def tuples(self, tag):
        """Payloads printed as plain TLA+ tuples of ints/strings/booleans: returns python lists."""
        res = []
        for raw in self.tagged.get(tag, []):
            res.append(parse_tla('<<' + raw + '>>'))
        return res


def parse_tla(s):
    """Parse a printed TLA+ value made of tuples, sets, ints, strings, booleans, records."""
    pos = 0
    n = len(s)

    def ws():
        nonlocal pos
        while pos < n and s[pos] in ' \n\t\r':
            pos += 1

    def val():
        nonlocal pos
        ws()
        if s.startswith('<<', pos):
            pos += 2
            items = []
            ws()
            if s.startswith('>>', pos):
                pos += 2
                return items
            while True:
                items.append(val())
                ws()
                if s.startswith('>>', pos):
                    pos += 2
                    return items
                assert s[pos] == ',', (s, pos)
                pos += 1
        if s[pos] == '{':
            pos += 1
            items = []
            ws()
            if s[pos] == '}':
                pos += 1
                return items
            while True:
                items.append(val())
                ws()
                if s[pos] == '}':
                    pos += 1
                    return items
                assert s[pos] == ',', (s, pos)
                pos += 1
        if s[pos] == '[':
            pos += 1
            rec = {}
            while True:
                ws()
                m = re.compile(r'(\w+)\s*\|->').match(s, pos)
                assert m, (s, pos)
                pos = m.end()
                rec[m.group(1)] = val()
                ws()
                if s[pos] == ']':
                    pos += 1
                    return rec
                assert s[pos] == ',', (s, pos)
                pos += 1
        if s[pos] == '"':
            j = pos + 1
            buf = []
            while s[j] != '"':
                if s[j] == '\\':
                    j += 1
                    buf.append({'n': '\n', 't': '\t', 'r': '\r', 'f': '\f'}.get(s[j], s[j]))
                else:
                    buf.append(s[j])
                j += 1
            pos = j + 1
            return ''.join(buf)
        m = re.compile(r'-?\d+').match(s, pos)
        if m:
            pos = m.end()
            return int(m.group(0))
        m = re.compile(r'TRUE|FALSE').match(s, pos)
        if m:
            pos = m.end()
            return m.group(0) == 'TRUE'
        m = re.compile(r'\w+').match(s, pos)
        if m:
            pos = m.end()
            return m.group(0)
        raise MachineryError('cannot parse TLA+ value at %d: %r' % (pos, s[pos:pos + 40]))

    v = val()
    return v


def run_tlc(module, cfg, *, workers=None, env=None, simulate=None, depth=None, seed=None,
            coverage=False, timeout=1800, extra=(), deque=False, spec_dir=SPEC_DIR, cwd=None,
            heap='8g', allow_violation=True, dump_dot=None):
    """Run TLC on spec_dir/<module>.tla with config file cfg (absolute path)."""
    wd = workdir('tlc')
    cmd = ['java', '-XX:+UseParallelGC', '-Xmx%s' % heap, '-Xss64m']
    if deque:
        cmd.append('-Dtlc2.tool.queue.IStateQueue=StateDeque')
    cmd += ['-cp', JAR, 'tlc2.TLC', '-config', cfg,
            '-workers', str(workers or os.cpu_count() or 4),
            '-metadir', os.path.join(wd, 'meta'), '-noGenerateSpecTE']
    if simulate is not None:
        cmd += ['-simulate', simulate]
    if depth is not None:
        cmd += ['-depth', str(depth)]
    if seed is not None:
        cmd += ['-seed', str(seed)]
    if coverage:
        cmd += ['-coverage', '1']
    if dump_dot:
        cmd += ['-dump', 'dot,actionlabels', dump_dot]
    cmd += list(extra)
    cmd.append(os.path.join(spec_dir, module + '.tla'))
    e = dict(os.environ)
    e.pop('JAVA_TOOL_OPTIONS', None)
    if env:
        e.update({k: str(v) for k, v in env.items()})
    t0 = time.time()
    try:
        p = subprocess.run(cmd, cwd=cwd or spec_dir, env=e, stdout=subprocess.PIPE, stderr=subprocess.STDOUT,
                           timeout=timeout, text=True, errors='replace')
    except subprocess.TimeoutExpired as ex:
        subprocess.run(['pkill', '-f', os.path.join(wd, 'meta')])
        raise MachineryError('TLC timed out after %ss on %s' % (timeout, module))
    finally:
        shutil.rmtree(os.path.join(wd, 'meta'), ignore_errors=True)
    res = TLCResult(p.returncode, p.stdout, time.time() - t0)
    if res.error or (p.returncode != 0 and res.violated is None):
        raise MachineryError('TLC failed on %s (rc=%s):\n%s' % (module, p.returncode, (res.error or p.stdout[-3000:])))
    if res.violated and not allow_violation:
        raise MachineryError('TLC: model-level violation of %s in %s (model or code is wrong; not replayed)\n%s'
                             % (res.violated, module, p.stdout[-3000:]))
    return res


def sany(module, spec_dir=SPEC_DIR):
    p = subprocess.run(['java', '-cp', JAR, 'tla2sany.SANY', os.path.join(spec_dir, module + '.tla')],
                       cwd=spec_dir, stdout=subprocess.PIPE, stderr=subprocess.STDOUT, text=True)
    ok = p.returncode == 0 and 'Semantic errors' not in p.stdout and 'Parse Error' not in p.stdout \
        and '*** Errors' not in p.stdout
    return ok, p.stdout
