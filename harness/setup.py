"""setup_cmd: parse every specification module with SANY and check the tool chain. Offline, no build of /repo
(pure Python; checks import the working tree)."""
import glob
import os
import sys
from concurrent.futures import ThreadPoolExecutor

from . import tlc


def main():
    mods = sorted(os.path.splitext(os.path.basename(p))[0] for p in glob.glob(os.path.join(tlc.SPEC_DIR, '*.tla')))
    bad = []
    with ThreadPoolExecutor(8) as ex:
        for m, (ok, out) in zip(mods, ex.map(tlc.sany, mods)):
            if not ok:
                bad.append(m)
                print('SANY FAILED: %s\n%s' % (m, out[-1500:]))
    print('setup: %d TLA+ modules parsed, %d failed' % (len(mods), len(bad)))
    from . import common
    common.setup_repo()
    print('setup: dataflows importable from', common.REPO)
    return 1 if bad else 0
