"""Shared plumbing: importing the repository under test, verdict reporting, evidence,
known findings, parallel replay."""
import hashlib
import json
import multiprocessing as mp
import os
import random
import sys
import time
import traceback

VERIF = os.path.dirname(os.path.dirname(os.path.abspath(__file__)))
REPO = os.environ.get('VERIF_REPO', '/repo')
EVIDENCE_DIR = os.environ.get('VERIF_EVIDENCE_DIR') or os.path.join(VERIF, 'evidence')     # mutcheck writes elsewhere
REPLAY_DIR = os.environ.get('VERIF_REPLAY_DIR') or os.path.join(VERIF, 'replays')          # mutation runs write elsewhere
FINDINGS_FILE = os.path.join(VERIF, 'known_findings.json')

sys.dont_write_bytecode = True


_COV = None


def cov_start(fresh=False):
    """Line coverage of the library under the checks (bin/covsweep): VERIF_COV=<dir> makes every harness process record
    which lines of <repo>/dataflows it executed (one data file per process; forked workers start their own recorder)."""
    global _COV
    d = os.environ.get('VERIF_COV')
    if not d or (_COV is not None and not fresh):
        return
    import atexit
    import coverage
    if _COV is not None:
        try:
            _COV.stop()
        except Exception:
            pass
    _COV = coverage.Coverage(data_file=os.path.join(d, '.coverage'), data_suffix=True, source=[os.path.join(REPO, 'dataflows')],
                             config_file=False)
    _COV.start()
    atexit.register(cov_save)


def cov_save():
    if _COV is not None:
        try:
            _COV.save()
        except Exception:
            pass


def setup_repo():
    """Import dataflows from /repo's *current working tree* (no install, no bytecode cache)."""
    if REPO not in sys.path:
        sys.path.insert(0, REPO)
    cov_start()
    os.environ.setdefault('PYTHONHASHSEED', '0')
    import logging
    logging.disable(logging.CRITICAL)
    sys.unraisablehook = lambda *a, **k: None      # abandoned ZipFile objects of failed dump_to_zip runs
    import warnings
    warnings.filterwarnings('ignore')
    import dataflows  # noqa
    assert os.path.realpath(dataflows.__file__).startswith(os.path.realpath(REPO)), dataflows.__file__
    # datapackage re-validates its bundled, static JSON profile on every Package()/Resource():
    # 97% of the cost of a small flow. Third-party self-check, memoised per profile name.
    from datapackage import profile as _p
    if not getattr(_p.Profile, '_verif_memo', False):
        orig = _p.Profile._check_schema
        seen = set()

        def _check(self):
            key = getattr(self, 'name', None)
            if key in seen:
                return
            orig(self)
            seen.add(key)
        _p.Profile._check_schema = _check
        _p.Profile._verif_memo = True
    return dataflows


def tier():
    t = os.environ.get('VERIF_TIER', 'quick')
    return t if t in ('quick', 'thorough') else 'quick'


def seed():
    try:
        return int(os.environ.get('VERIF_SEED', '0'))
    except ValueError:
        return 0


def rng(*salt):
    h = hashlib.sha256(('%d|' % seed() + '|'.join(map(str, salt))).encode()).digest()
    return random.Random(int.from_bytes(h[:8], 'big'))


def _canon_default(o):
    # a set has no order: its canonical text must not depend on the iteration order of this process
    if isinstance(o, (set, frozenset)):
        return {'__set__': sorted(canon(x) for x in o)}
    return str(o)


def canon(obj):
    return json.dumps(obj, sort_keys=True, default=_canon_default, separators=(',', ':'))


def digest(obj):
    return hashlib.sha1(canon(obj).encode()).hexdigest()[:16]


class Findings:
    def __init__(self):
        try:
            data = json.load(open(FINDINGS_FILE))
        except FileNotFoundError:
            data = {'findings': [], 'fixed': []}
        self.known = {f['id']: f for f in data.get('findings', [])}
        self.fixed = data.get('fixed', [])

    def listed(self, fid, prop):
        f = self.known.get(fid)
        return f is not None and f.get('property') == prop


REPORTS = []      # the reports of this process: if the machinery fails AFTER violations were found, they are still reported (bin/check)


class Report:
    """Collects the outcome of one check run and turns it into exit code + evidence."""

    def __init__(self, prop, level='model_checking'):
        self.prop = prop
        self.level = level
        self.tier = tier()
        self.seed = seed()
        self.t0 = time.time()
        self.findings = Findings()
        self.violations = []
        REPORTS.append(self)
        self.known_hits = {}
        self.drift = []
        self.cov = {'states': 0, 'transitions': 0, 'traces_validated_against_impl': 0, 'samples': [],
                    'evaluations': 0}
        self.assumptions = []
        self.notes = {}
        self.distinct = set()
        self.categories = {}
        import shutil
        shutil.rmtree(os.path.join(REPLAY_DIR, prop), ignore_errors=True)

    # --- model-side bookkeeping
    def add_tlc(self, res, name=None):
        self.cov['states'] += res.distinct
        self.cov['transitions'] += res.generated
        runs = self.cov.setdefault('tlc_runs', [])
        entry = {'name': name or '', 'distinct_states': res.distinct, 'states_generated': res.generated,
                 'depth': res.depth, 'wall_s': round(res.wall, 2)}
        if res.coverage:
            entry['action_coverage'] = {k: v[1] for k, v in sorted(res.coverage.items())}
            zero = [k for k, v in res.coverage.items() if v[1] == 0]
            if zero:
                entry['actions_never_taken'] = zero
        runs.append(entry)

    def sample(self, s, limit=6):
        if len(self.cov['samples']) < limit:
            self.cov['samples'].append(s)

    def count(self, n=1, traces=0):
        self.cov['evaluations'] += n
        self.cov['traces_validated_against_impl'] += traces

    def mark_distinct(self, key):
        self.distinct.add(key if isinstance(key, str) else digest(key))

    # --- verdicts
    def violation(self, case, detail, category=None):
        if category is not None:
            self.categories[category] = self.categories.get(category, 0) + 1
        os.makedirs(os.path.join(REPLAY_DIR, self.prop), exist_ok=True)
        rec = {'property': self.prop, 'case': case, 'detail': detail, 'seed': self.seed, 'tier': self.tier}
        path = os.path.join(REPLAY_DIR, self.prop, digest(rec) + '.json')
        with open(path, 'w') as f:
            json.dump(rec, f, indent=1, default=str)
        self.violations.append(path)
        if len(self.violations) <= 10:
            print('VIOLATION property=%s replay=%s' % (self.prop, path))
            print('  detail: %s' % (canon(detail)[:600]))
            sys.stdout.flush()

    def known(self, fid, what, case=None):
        """A failure attributed to a listed known finding. If fid is not listed -> violation."""
        if not self.findings.listed(fid, self.prop):
            self.violation(case, {'unlisted_finding': fid, 'what': what})
            return False
        if fid not in self.known_hits:
            self.known_hits[fid] = {'count': 0, 'what': what, 'example': case}
        self.known_hits[fid]['count'] += 1
        return True

    def model_drift(self, what, case=None):
        self.drift.append({'what': what, 'case': case})
        if len(self.drift) <= 5:
            print('DRIFT property=%s %s' % (self.prop, what))

    def finish(self, extra_cov=None, exhaustive=None):
        for fid, h in sorted(self.known_hits.items()):
            print('KNOWN-FINDING: property=%s %s: %s (%d cases)' % (
                self.prop, fid, self.findings.known[fid].get('what', h['what']), h['count']))
        for c, k in sorted(self.categories.items(), key=lambda x: -x[1])[:40]:
            print('  violations in category %s: %d' % (c, k))
        cov = self.cov
        if extra_cov:
            cov.update(extra_cov)
        cov['distinct_nontrivial'] = len(self.distinct)
        if exhaustive is not None:
            cov['exhaustive'] = exhaustive
        cov['known_finding_hits'] = {k: v['count'] for k, v in self.known_hits.items()}
        cov['model_drift'] = len(self.drift)
        if self.drift:
            cov['model_drift_samples'] = self.drift[:3]
        cov.update(self.notes)
        if not cov['samples']:
            cov['samples'] = ['(no case was run)']
        ev = {'property_id': self.prop, 'tier': self.tier, 'seed': self.seed, 'level': self.level,
              'coverage': cov, 'assumptions': self.assumptions,
              'wall_s': round(time.time() - self.t0, 2), 'violations': len(self.violations)}
        os.makedirs(EVIDENCE_DIR, exist_ok=True)
        with open(os.path.join(EVIDENCE_DIR, self.prop + '.json'), 'w') as f:
            json.dump(ev, f, indent=1, default=str)
        print('%s %s: %d evaluations, %d TLC states, %d impl traces/cases, %d violations, %d known-finding hits, %.1fs' % (
            self.prop, self.tier, cov['evaluations'], cov['states'], cov['traces_validated_against_impl'],
            len(self.violations), sum(v['count'] for v in self.known_hits.values()), time.time() - self.t0))
        return 1 if self.violations else 0


# ---------------------------------------------------------------------------
# parallel replay

_WORKER_FN = None


def _init_worker(fn_init):
    cov_start(fresh=True)
    setup_repo()
    if fn_init:
        fn_init()


# One case of a check normally takes milliseconds to a few seconds.  A case that is still running after ITEM_TIMEOUT seconds
# means the library does not terminate on it (e.g. a loop that no longer advances): the case is abandoned, remembered in
# TIMEOUTS, and bin/check reports it as a VIOLATION (the run neither returned the specified result nor failed).
ITEM_TIMEOUT = int(os.environ.get('VERIF_ITEM_TIMEOUT') or (2400 if os.environ.get('VERIF_TIER') == 'thorough' else 600))
TIMEOUTS = []


class _ItemTimeout(BaseException):        # not an Exception: the library's own `except Exception` must not swallow it
    pass


def _on_alarm(signum, frame):
    raise _ItemTimeout()


def _call(args):
    import signal
    import threading
    fn, item = args
    guarded = threading.current_thread() is threading.main_thread()
    if guarded:
        old = signal.signal(signal.SIGALRM, _on_alarm)
        signal.alarm(ITEM_TIMEOUT)
    try:
        return fn(item)
    except _ItemTimeout:
        return {'__harness_error__': 'TIMEOUT: %s did not finish within %d s on %r' % (fn.__name__, ITEM_TIMEOUT, item),
                '__timeout__': dict(module=fn.__module__, fn=fn.__name__, item=item, seconds=ITEM_TIMEOUT)}
    except Exception as e:  # a harness bug must not look like a verdict
        return {'__harness_error__': '%s: %s\n%s' % (type(e).__name__, e, traceback.format_exc()[-1500:])}
    finally:
        if guarded:
            signal.alarm(0)
            signal.signal(signal.SIGALRM, old)
        cov_save()


def _note_timeouts(results):
    for r in results:
        if isinstance(r, dict) and '__timeout__' in r:
            TIMEOUTS.append(r['__timeout__'])
    return results


def pmap(fn, items, procs=None, init=None, chunksize=8):
    """Fork-based parallel map; fn must be a module-level function."""
    items = list(items)
    explicit = procs is not None
    procs = procs or min(os.cpu_count() or 4, 16)
    if procs == 1 or len(items) <= 1 or (len(items) < 24 and not explicit):
        _init_worker(init)
        return _note_timeouts([_call((fn, it)) for it in items])
    ctx = mp.get_context('fork')
    with ctx.Pool(procs, initializer=_init_worker, initargs=(init,)) as pool:
        return _note_timeouts(pool.map(_call, [(fn, it) for it in items], chunksize=chunksize))


def harness_errors(results):
    errs = [r['__harness_error__'] for r in results if isinstance(r, dict) and '__harness_error__' in r]
    return errs


# ---------------------------------------------------------------------------
# small helpers for driving dataflows

def run_flow(*steps, on_error=None):
    """results() of a Flow; returns (rows per resource, descriptor dict)."""
    from dataflows import Flow
    if on_error is None:
        res, dp, stats = Flow(*steps).results()
    else:
        res, dp, stats = Flow(*steps).results(on_error=on_error)
    return res, dp.descriptor


def preuse(steps, make_source):
    """the step OBJECTS are used once in a throwaway Flow over a fresh copy of the input before the run that is judged: a
    configured step is a description of work, nothing of an earlier use may stick to it (DESIGN.md: step objects - unlike
    whole Flows - are re-usable on the current tree; one-shot steps such as stream/dump_to_zip/join are never passed here)"""
    import contextlib
    import io
    from dataflows import Flow
    try:
        with contextlib.redirect_stdout(io.StringIO()), contextlib.redirect_stderr(io.StringIO()):
            Flow(make_source(), *steps).process()
    except Exception:
        pass
    return steps


def tuple_source(resources):
    """resources: list of (name, fields[(name,type[,extra])], rows[list of dict][, primary key[, schema extras]]) -> a load((descriptor, iterators)) step."""
    from dataflows import load
    desc = {'resources': [
        {'name': n, 'path': n + '.csv', 'profile': 'tabular-data-resource',
         'schema': dict({'fields': [dict(name=f[0], type=f[1], **(f[2] if len(f) > 2 else {})) for f in fields]},
                        **({'primaryKey': pk} if pk else {}), **(rest[1] if len(rest) > 1 and rest[1] else {}))}
        for (n, fields, rows, *rest) in resources for pk in [rest[0] if rest else None]]}
    its = [iter([dict(r) for r in rows]) for (n, fields, rows, *rest) in resources]
    return load((desc, iter(its)), strip=False)       # hand the rows over untouched
