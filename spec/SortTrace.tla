------------------------------ MODULE SortTrace ------------------------------
(***************************************************************************)
(* Recorded real sort_rows runs, rank-abstracted.  One line = one run:     *)
(*   ranks   ranks[i] = dense rank of the key of input row i (computed by   *)
(*           the harness with exact arithmetic: Fraction for numbers, code  *)
(*           points for text) - the only thing sortedness depends on        *)
(*   out     the ids (input positions, 1-based) of the rows in output order *)
(*   reverse                                                                *)
(* The formulas are linear in the number of rows.                           *)
(***************************************************************************)
EXTENDS Naturals, Sequences, FiniteSets, TLC, Json, IOUtils

Runs == ndJsonDeserialize(IOEnv.TRACE_FILE)
VARIABLE t
Init == t \in 1..Len(Runs)
Next == UNCHANGED t
Spec == Init /\ [][Next]_t
R == Runs[t]
N == Len(R.ranks)
\* a permutation of the input rows
Permutation == Len(R.out) = N /\ {R.out[i] : i \in 1..N} = 1..N
\* ascending: key ranks never decrease, equal keys stay in input order
AscAt(i) == LET a == R.out[i] b == R.out[i + 1] IN
            R.ranks[a] < R.ranks[b] \/ (R.ranks[a] = R.ranks[b] /\ a < b)
\* reverse = exactly the reverse of the ascending stable order
DescAt(i) == LET a == R.out[i] b == R.out[i + 1] IN
             R.ranks[a] > R.ranks[b] \/ (R.ranks[a] = R.ranks[b] /\ a > b)
Sorted == \A i \in 1..(N - 1) : IF R.reverse THEN DescAt(i) ELSE AscAt(i)
Verdict == PrintT(<<"VERDICT", t, Permutation, Permutation /\ Sorted>>)
=============================================================================
