--------------------------------- MODULE Typing ---------------------------------
(***************************************************************************)
(* C02: emitted rows always agree with the emitted descriptor.             *)
(*                                                                         *)
(* Abstract package: a sequence of resources [name, fields], a field is    *)
(* [name, type, tags]: its declared Table Schema type and the set of VALUE *)
(* TAGS its cells may carry ("int" "num" "str" "bool" "arr" "obj" "date"   *)
(* "null").  Each step is transcribed as the TYPING RULE the code          *)
(* implements (which type it declares) next to the VALUE RULE (which tags  *)
(* it produces).  The design is well-typed iff in every reachable package  *)
(* every tag is admissible for the declared type, names are unique, ...    *)
(* A resource also carries its PRIMARY KEY (a sequence of field names, <<>> *)
(* when none is declared): Table Schema wants every key name to be a       *)
(* declared field, so the steps that rename or remove fields have to take  *)
(* the key along (PkFollows; FALSE = pinned: they leave it alone).         *)
(* Programs: every sequence of <= Depth steps from the abstract menu whose *)
(* preconditions (Enabled) hold.                                           *)
(***************************************************************************)
EXTENDS Naturals, Sequences, FiniteSets, TLC, SequencesExt, Json

CONSTANTS Depth, AvgDeclares,    \* AvgDeclares: "source" (pinned: join's avg/median copy the source field's type) | "number"
          PkFollows,               \* TRUE: rename_fields renames the primary key with the fields, delete_fields / select_fields / unpivot drop a key that lost a field (fix: commit); FALSE: pinned - the key is left alone
          ChainSees                \* TRUE: a computed field of one add_computed_field call sees the fields the same call computed before it (fix: commit); FALSE: pinned

F(n, t, tags) == [name |-> n, type |-> t, tags |-> tags]
\* castability: which value tags a declared type admits (null always)
Admits(t) == CASE t = "integer" -> {"int", "null"}
               [] t = "number"  -> {"int", "num", "null"}
               [] t = "string"  -> {"str", "null"}
               [] t = "boolean" -> {"bool", "null"}
               [] t = "array"   -> {"arr", "null"}
               [] t = "object"  -> {"obj", "null"}
               [] t = "date"    -> {"date", "null"}
               [] t = "any"     -> {"int", "num", "str", "bool", "arr", "obj", "date", "null"}

\* n: an integer field that VARIES inside a key group of a (the median of an even number of integers is a fraction)
R1 == [name |-> "res_1", pk |-> <<>>, fields |-> <<F("a", "integer", {"int"}), F("b", "string", {"str", "null"}), F("n", "integer", {"int"})>>]
R2 == [name |-> "res_2", pk |-> <<>>, fields |-> <<F("a", "integer", {"int"}), F("c", "number", {"num"})>>]
\* a second resource whose field "a" has ANOTHER type than res_1's: what a step derives for one resource must not be reused for the next
R3 == [name |-> "res_2", pk |-> <<>>, fields |-> <<F("a", "number", {"num"}), F("c", "number", {"num"})>>]
Inputs == { [l |-> "I0", p |-> <<R1>>], [l |-> "I1", p |-> <<R1, R2>>], [l |-> "I2", p |-> <<R1, R3>>] }

Has(res, n) == \E i \in DOMAIN res.fields : res.fields[i].name = n
Get(res, n) == res.fields[CHOOSE i \in DOMAIN res.fields : res.fields[i].name = n]
Numeric(f) == f.type \in {"integer", "number"}
MapRes(pkg, P(_), G(_)) == [i \in DOMAIN pkg |-> IF P(pkg[i]) THEN G(pkg[i]) ELSE pkg[i]]
AddField(res, f) == [res EXCEPT !.fields = Append(@, f)]
\* the primary key after a step that removed fields / renamed them with Ren(_)
InSeq(x, sq) == \E i \in DOMAIN sq : sq[i] = x
KeepPk(res, fields) == IF ~PkFollows THEN res.pk
                       ELSE IF \A i \in DOMAIN res.pk : \E j \in DOMAIN fields : fields[j].name = res.pk[i] THEN res.pk ELSE <<>>
RenPk(res, Ren(_)) == IF PkFollows THEN [i \in DOMAIN res.pk |-> Ren(res.pk[i])] ELSE res.pk
WithFields(res, fields) == [res EXCEPT !.fields = fields, !.pk = KeepPk(res, fields)]

\* ---- typing rules, as implemented ----
\* add_computed_field.get_type: 'any' if a source is any; format/join -> string; number if a source is number or op is avg; else the FIRST source's type
AcfType(res, op, srcs) ==
  LET types == [i \in DOMAIN srcs |-> Get(res, srcs[i]).type] IN
  IF \E i \in DOMAIN types : types[i] = "any" THEN "any"
  ELSE IF op \in {"format", "join"} THEN "string"
  ELSE IF (\E i \in DOMAIN types : types[i] = "number") \/ op = "avg" THEN "number"
  ELSE IF Len(types) > 0 THEN types[1] ELSE "any"
\* the lookup as the code does it: source names that are not in the field list are simply not there
AcfTypeLoose(res, op, srcs) == AcfType(res, op, SelectSeq(srcs, LAMBDA n : Has(res, n)))
AcfTags(res, op, srcs) ==
  LET anyNum == \E i \in DOMAIN srcs : "num" \in Get(res, srcs[i]).tags IN
  CASE op \in {"format", "join"} -> {"str"}
    [] op = "constant" -> {"str"}
    [] op = "avg" -> {"num"}
    [] op \in {"sum", "min", "max", "multiply"} -> IF anyNum THEN {"num", "int"} ELSE {"int"}
\* join aggregates: declared type = the aggregator's dataType, else the source field's type
JoinType(agg, srcType) == CASE agg = "count" -> "integer"
                            [] agg \in {"set", "array", "counters"} -> "array"
                            [] agg \in {"avg", "median"} -> IF AvgDeclares = "number" THEN "number" ELSE srcType
                            [] OTHER -> srcType
JoinTags(agg, srcTags) == CASE agg = "count" -> {"int"}
                            [] agg \in {"set", "array", "counters"} -> {"arr"}
                            [] agg = "avg" -> {"num", "null"}
                            [] agg = "median" -> {"num", "int", "null"}          \* even count of integers: a fraction
                            [] OTHER -> srcTags \cup {"null"}

Steps == [k : {"add_field"}, t : {"integer", "string"}]
         \cup [k : {"acf"}, op : {"sum", "avg", "min", "multiply", "format", "join", "constant"}, src : {<<"a">>, <<"a", "c">>, <<"b">>}]
         \cup [k : {"delete_b", "select_a", "rename_a", "rename_swap", "set_type_a_number", "set_type_a_string", "filter", "sort", "dedup",
                    "duplicate", "delete_first", "concatenate", "concat_head", "concat_tail", "source", "unpivot_b", "find_replace_b", "validate",
                    "set_pk_a", "set_pk_ab", "concat_ren", "to_int_clear", "join_rownum_full", "sql_flag", "rename_res"}]
         \cup [k : {"acf_chain"}, first : {<<"a">>, <<"a", "c">>}, op2 : {"sum", "min", "format"}]       \* one call, two fields: cf = sum(first), then cf2 = op2(cf, a)
         \cup [k : {"join"}, agg : {"sum", "avg", "median", "count", "first", "array", "max"}, f : {"a", "b", "n"}]

First(pkg) == pkg[1]
\* concatenate({a: [], b: []}): target fields in the order the selected resources' schemas first show them, typed like that
\* first occurrence; a target field no resource has is a string; a resource that lacks a field contributes nulls
ConcatFieldsOver(pkg, T) ==
  LET occ == FlattenSeq([i \in DOMAIN pkg |-> SelectSeq(pkg[i].fields, LAMBDA f : InSeq(f.name, T))])
      firsts == SelectSeq([i \in DOMAIN occ |-> i], LAMBDA i : \A j \in 1..(i - 1) : occ[j].name # occ[i].name)
      tagsOf(n) == UNION {IF Has(pkg[i], n) THEN Get(pkg[i], n).tags ELSE {"null"} : i \in DOMAIN pkg}
      found == [k \in DOMAIN firsts |-> F(occ[firsts[k]].name, occ[firsts[k]].type, tagsOf(occ[firsts[k]].name))]
      missing == SelectSeq(T, LAMBDA n : \A k \in DOMAIN found : found[k].name # n)
  IN found \o [k \in DOMAIN missing |-> F(missing[k], "string", {"null"})]
\* ... and the target's primary key: a target field is a key field iff the resource that FIRST shows it has it in its key
ConcatPkOver(pkg, T) ==
  LET occ == FlattenSeq([i \in DOMAIN pkg |-> [j \in DOMAIN SelectSeq(pkg[i].fields, LAMBDA f : InSeq(f.name, T)) |->
                                                  [name |-> SelectSeq(pkg[i].fields, LAMBDA f : InSeq(f.name, T))[j].name,
                                                   key |-> InSeq(SelectSeq(pkg[i].fields, LAMBDA f : InSeq(f.name, T))[j].name, pkg[i].pk)]]])
      firsts == SelectSeq([i \in DOMAIN occ |-> i], LAMBDA i : \A j \in 1..(i - 1) : occ[j].name # occ[i].name)
      keyed == SelectSeq(firsts, LAMBDA i : occ[i].key)
  IN [k \in DOMAIN keyed |-> occ[keyed[k]].name]
ConcatFields(pkg) == ConcatFieldsOver(pkg, <<"a", "b">>)
ConcatPk(pkg) == ConcatPkOver(pkg, <<"a", "b">>)
\* concatenate({A: ['a'], b: []}): the mapping RENAMES a source field; the key of the target is named by the TARGET field names
RenA(pkg) == [i \in DOMAIN pkg |-> [pkg[i] EXCEPT !.fields = [j \in DOMAIN @ |-> IF @[j].name = "a" THEN [@[j] EXCEPT !.name = "A"] ELSE @[j]],
                                                   !.pk = [j \in DOMAIN @ |-> IF @[j] = "a" THEN "A" ELSE @[j]]]]
Enabled(s, pkg) ==
  CASE s.k = "add_field" -> \A i \in DOMAIN pkg : ~Has(pkg[i], "z")
    [] s.k = "acf" -> /\ \A i \in DOMAIN pkg : (\A j \in DOMAIN s.src : Has(pkg[i], s.src[j])) /\ ~Has(pkg[i], "cf")
                      /\ s.op \in {"sum", "avg", "min", "multiply"} => \A i \in DOMAIN pkg : \A j \in DOMAIN s.src : Numeric(Get(pkg[i], s.src[j])) /\ Get(pkg[i], s.src[j]).tags \subseteq {"int", "num"}
    [] s.k = "acf_chain" -> \A i \in DOMAIN pkg : /\ \A j \in DOMAIN s.first : /\ Has(pkg[i], s.first[j]) /\ Numeric(Get(pkg[i], s.first[j]))
                                                                                  /\ Get(pkg[i], s.first[j]).tags \subseteq {"int", "num"}
                                                    /\ ~Has(pkg[i], "cf") /\ ~Has(pkg[i], "cf2")
    [] s.k \in {"delete_b", "unpivot_b", "find_replace_b"} -> Has(First(pkg), "b") /\ Get(First(pkg), "b").type = "string" /\ ~Has(First(pkg), "k")
    [] s.k = "select_a" -> \A i \in DOMAIN pkg : Has(pkg[i], "a")
    [] s.k = "rename_a" -> Has(First(pkg), "a") /\ ~Has(First(pkg), "A")
    [] s.k = "rename_swap" -> Has(First(pkg), "a") /\ Has(First(pkg), "b")
    [] s.k \in {"set_type_a_number", "set_type_a_string"} -> \A i \in DOMAIN pkg : Has(pkg[i], "a") /\ Get(pkg[i], "a").tags \subseteq {"int", "num"}
    [] s.k \in {"filter", "sort", "dedup", "set_pk_a"} -> \A i \in DOMAIN pkg : Has(pkg[i], "a")
    [] s.k = "set_pk_ab" -> Has(First(pkg), "a") /\ Has(First(pkg), "b")
    [] s.k = "to_int_clear" -> Has(First(pkg), "b") /\ Get(First(pkg), "b").type = "string"
    [] s.k = "duplicate" -> Len(pkg) <= 2 /\ \A i \in DOMAIN pkg : pkg[i].name # (pkg[1].name \o "_copy")
    [] s.k = "delete_first" -> Len(pkg) >= 2
    [] s.k = "concatenate" -> /\ \A i \in DOMAIN pkg : \E n \in {"a", "b"} : Has(pkg[i], n) /\ "null" \notin Get(pkg[i], n).tags   \* every row has a mapped non-null value (the code asserts it)
                              /\ \A i, j \in DOMAIN pkg : \A n \in {"a", "b"} : (Has(pkg[i], n) /\ Has(pkg[j], n)) => Get(pkg[i], n).type = Get(pkg[j], n).type
                              /\ \A i \in DOMAIN pkg : pkg[i].name # "cc"
    [] s.k = "concat_ren" -> /\ \A i \in DOMAIN pkg : Has(pkg[i], "a") /\ "null" \notin Get(pkg[i], "a").tags /\ ~Has(pkg[i], "A")
                             /\ \A i, j \in DOMAIN pkg : \A n \in {"a", "b"} : (Has(pkg[i], n) /\ Has(pkg[j], n)) => Get(pkg[i], n).type = Get(pkg[j], n).type
                             /\ \A i \in DOMAIN pkg : pkg[i].name # "cr"
    \* concatenate restricted to the first / the last resource: the others stay where they are, around the target
    [] s.k \in {"concat_head", "concat_tail"} ->
           LET r == IF s.k = "concat_head" THEN pkg[1] ELSE pkg[Len(pkg)] IN
           /\ Len(pkg) >= 2 /\ \E n \in {"a", "b"} : Has(r, n) /\ "null" \notin Get(r, n).tags
           /\ \A i \in DOMAIN pkg : pkg[i].name # "ch"
    [] s.k = "source" -> Len(pkg) <= 2 /\ \A i \in DOMAIN pkg : pkg[i].name # "extra"
    [] s.k = "join" -> /\ Len(pkg) = 2 /\ pkg[1].name = "res_1" /\ pkg[2].name = "res_2" /\ Has(pkg[1], "a") /\ Has(pkg[2], "a")
                       /\ Has(pkg[1], s.f) /\ ~Has(pkg[2], "j")
                       /\ s.agg \in {"sum", "avg", "median", "max"} => Numeric(Get(pkg[1], s.f)) /\ Get(pkg[1], s.f).tags \subseteq {"int", "num"}
    [] s.k = "join_rownum_full" -> /\ Len(pkg) = 2 /\ pkg[1].name = "res_1" /\ pkg[2].name = "res_2" /\ Has(pkg[1], "b") /\ ~Has(pkg[2], "j")
    [] s.k = "sql_flag" -> pkg[1].name = "res_1" /\ ~Has(pkg[1], "_u") /\ pkg[1].pk = <<>>      \* (a declared key becomes a UNIQUE constraint of the table; the inputs repeat values of a)
    \* update_resource(0, name='rn'): the caller picks the name; a name that is taken is the caller's error (the step does not check)
    [] s.k = "rename_res" -> \A i \in DOMAIN pkg : pkg[i].name # "rn"
    [] s.k = "validate" -> TRUE

Apply(s, pkg) ==
  CASE s.k = "add_field" -> MapRes(pkg, LAMBDA r : TRUE, LAMBDA r : AddField(r, F("z", s.t, IF s.t = "integer" THEN {"int"} ELSE {"str"})))
    [] s.k = "acf" -> LET src == IF s.op = "constant" THEN <<>> ELSE s.src IN      \* a constant has no source fields (type any)
                      MapRes(pkg, LAMBDA r : TRUE, LAMBDA r : AddField(r, F("cf", AcfType(r, s.op, src), AcfTags(r, s.op, src))))
    [] s.k = "acf_chain" ->
         MapRes(pkg, LAMBDA r : TRUE,
                LAMBDA r : LET f1 == F("cf", AcfType(r, "sum", s.first), AcfTags(r, "sum", s.first))
                               seen == IF ChainSees THEN AddField(r, f1) ELSE r
                               f2 == F("cf2", AcfTypeLoose(seen, s.op2, <<"cf", "a">>), IF s.op2 = "format" THEN {"str"} ELSE f1.tags \cup {"int"})
                           IN AddField(AddField(r, f1), f2))
    [] s.k = "delete_b" -> [pkg EXCEPT ![1] = WithFields(@, SelectSeq(@.fields, LAMBDA f : f.name # "b"))]
    [] s.k = "select_a" -> MapRes(pkg, LAMBDA r : TRUE, LAMBDA r : WithFields(r, SelectSeq(r.fields, LAMBDA f : f.name = "a")))
    [] s.k = "rename_a" -> [pkg EXCEPT ![1].fields = [i \in DOMAIN @ |-> IF @[i].name = "a" THEN [@[i] EXCEPT !.name = "A"] ELSE @[i]],
                                       ![1].pk = RenPk(pkg[1], LAMBDA n : IF n = "a" THEN "A" ELSE n)]
    [] s.k = "rename_swap" -> [pkg EXCEPT ![1].fields = [i \in DOMAIN @ |-> IF @[i].name = "a" THEN [@[i] EXCEPT !.name = "b"]
                                                                              ELSE IF @[i].name = "b" THEN [@[i] EXCEPT !.name = "a"] ELSE @[i]],
                                          ![1].pk = RenPk(pkg[1], LAMBDA n : IF n = "a" THEN "b" ELSE IF n = "b" THEN "a" ELSE n)]
    [] s.k = "set_type_a_number" -> MapRes(pkg, LAMBDA r : TRUE, LAMBDA r : [r EXCEPT !.fields = [i \in DOMAIN @ |-> IF @[i].name = "a" THEN F("a", "number", {"num"}) ELSE @[i]]])
    [] s.k = "set_type_a_string" -> MapRes(pkg, LAMBDA r : TRUE, LAMBDA r : [r EXCEPT !.fields = [i \in DOMAIN @ |-> IF @[i].name = "a" THEN F("a", "string", {"str"}) ELSE @[i]]])
    [] s.k \in {"filter", "sort", "validate"} -> pkg
    [] s.k \in {"dedup", "set_pk_a"} -> MapRes(pkg, LAMBDA r : TRUE, LAMBDA r : [r EXCEPT !.pk = <<"a">>])      \* dedup = set_primary_key(['a']) + deduplicate()
    [] s.k = "set_pk_ab" -> [pkg EXCEPT ![1].pk = <<"a", "b">>]
    \* dump_to_sql({t: {resource-name: res_1}}, updated_column='_u'): the rows of that resource continue with a flag - a field like any other
    [] s.k = "sql_flag" -> [pkg EXCEPT ![1] = AddField(@, F("_u", "boolean", {"bool"}))]
    \* set_type('[bz]', type='integer', on_error=clear) on the first resource: text that is no integer becomes null - in EVERY matched
    \* field of a row, not only in the first one that fails
    [] s.k = "to_int_clear" -> [pkg EXCEPT ![1].fields = [i \in DOMAIN @ |-> IF @[i].name \in {"b", "z"}
                                                                              THEN F(@[i].name, "integer", IF @[i].type = "string" THEN {"null"} ELSE @[i].tags)
                                                                              ELSE @[i]]]
    [] s.k = "rename_res" -> [pkg EXCEPT ![1].name = "rn"]                \* fields, key and rows stay; later steps address it by the new name
    [] s.k = "find_replace_b" -> pkg                                     \* nulls stay null, text stays text
    [] s.k = "unpivot_b" -> [pkg EXCEPT ![1] = [WithFields(@, SelectSeq(@.fields, LAMBDA f : f.name # "b")) EXCEPT
                                                   !.fields = @ \o <<F("k", "string", {"str"}), F("v", "string", {"str", "null"})>>]]
    [] s.k = "duplicate" -> <<pkg[1], [pkg[1] EXCEPT !.name = pkg[1].name \o "_copy"]>> \o Tail(pkg)       \* duplicate(): the first resource
    [] s.k = "delete_first" -> Tail(pkg)
    [] s.k = "concatenate" -> <<[name |-> "cc", pk |-> ConcatPk(pkg), fields |-> ConcatFields(pkg)]>>
    [] s.k = "concat_ren" -> <<[name |-> "cr", pk |-> ConcatPkOver(RenA(pkg), <<"A", "b">>), fields |-> ConcatFieldsOver(RenA(pkg), <<"A", "b">>)]>>
    [] s.k = "concat_head" -> <<[name |-> "ch", pk |-> ConcatPk(<<pkg[1]>>), fields |-> ConcatFields(<<pkg[1]>>)]>> \o Tail(pkg)
    [] s.k = "concat_tail" -> SubSeq(pkg, 1, Len(pkg) - 1) \o <<[name |-> "ch", pk |-> ConcatPk(<<pkg[Len(pkg)]>>), fields |-> ConcatFields(<<pkg[Len(pkg)]>>)]>>
    [] s.k = "source" -> Append(pkg, [name |-> "extra", pk |-> <<>>, fields |-> <<F("a", "integer", {"int"}), F("b", "string", {"str"})>>])
    \* join('res_1', '{#}', 'res_2', '{#}', {j: first(b)}, mode='full-outer'): rows paired by ROW NUMBER (no field of the row); an
    \* unmatched source row comes out with the target's own fields null
    [] s.k = "join_rownum_full" -> <<AddField([pkg[2] EXCEPT !.fields = [i \in DOMAIN @ |-> [@[i] EXCEPT !.tags = @ \cup {"null"}]]],
                                              F("j", Get(pkg[1], "b").type, Get(pkg[1], "b").tags \cup {"null"}))>>
    [] s.k = "join" -> <<AddField(pkg[2], F("j", JoinType(s.agg, Get(pkg[1], s.f).type), JoinTags(s.agg, Get(pkg[1], s.f).tags)))>>

VARIABLES pkg, prog, input
Init == /\ \E i \in Inputs : pkg = i.p /\ input = i.l
        /\ prog = <<>>
Next == \E s \in Steps : /\ Len(prog) < Depth /\ Enabled(s, pkg)
                         /\ pkg' = Apply(s, pkg) /\ prog' = Append(prog, s) /\ UNCHANGED input
Spec == Init /\ [][Next]_<<pkg, prog, input>>

\* C02
UniqueResourceNames == \A i, j \in DOMAIN pkg : i # j => pkg[i].name # pkg[j].name
UniqueFieldNames == \A r \in DOMAIN pkg : \A i, j \in DOMAIN pkg[r].fields : i # j => pkg[r].fields[i].name # pkg[r].fields[j].name
ValuesAdmissible == \A r \in DOMAIN pkg : \A i \in DOMAIN pkg[r].fields : pkg[r].fields[i].tags \subseteq Admits(pkg[r].fields[i].type)
\* Table Schema: "primaryKey ... MUST be found in the schema field names"
KeysDeclared == \A r \in DOMAIN pkg : \A k \in DOMAIN pkg[r].pk : Has(pkg[r], pkg[r].pk[k])
WellFormed == UniqueResourceNames /\ UniqueFieldNames /\ ValuesAdmissible /\ KeysDeclared
Export == Len(prog) > 0 => PrintT(<<"CASE", ToJson([input |-> input, prog |-> prog,
             names |-> [i \in DOMAIN pkg |-> pkg[i].name], pks |-> [i \in DOMAIN pkg |-> pkg[i].pk],
             fields |-> [i \in DOMAIN pkg |-> [j \in DOMAIN pkg[i].fields |-> <<pkg[i].fields[j].name, pkg[i].fields[j].type>>]]])>>)
=============================================================================
