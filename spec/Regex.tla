------------------------------- MODULE Regex -------------------------------
(***************************************************************************)
(* Meaning of the regular expressions that dataflows accepts wherever a    *)
(* resource or field name pattern is given.  A regex is an AST             *)
(*   [t |-> "lit", c |-> ch]  [t |-> "dot"]  [t |-> "eps"]                 *)
(*   [t |-> "cat", l |-> r1, r |-> r2]  [t |-> "alt", l |-> r1, r |-> r2]  *)
(*   [t |-> "star", l |-> r1]  [t |-> "grp", l |-> r1]   (capturing group) *)
(* and a subject string is a sequence of one-character strings.  Turning   *)
(* an AST into the pattern text a user would write (minimal parentheses)   *)
(* is the harness's job; what the pattern MEANS is defined here.           *)
(***************************************************************************)
EXTENDS Naturals, Sequences, FiniteSets

RECURSIVE M(_, _, _), StarClose(_, _, _)
\* M(re, s, i): the set of positions j such that re matches s[i .. j-1]
M(re, s, i) ==
  CASE re.t = "lit"  -> IF i <= Len(s) /\ s[i] = re.c THEN {i + 1} ELSE {}
    [] re.t = "dot"  -> IF i <= Len(s) THEN {i + 1} ELSE {}
    [] re.t = "eps"  -> {i}
    [] re.t = "cat"  -> UNION {M(re.r, s, j) : j \in M(re.l, s, i)}
    [] re.t = "alt"  -> M(re.l, s, i) \cup M(re.r, s, i)
    [] re.t = "star" -> StarClose(re.l, s, {i})
    [] re.t = "grp"  -> M(re.l, s, i)
StarClose(r, s, S) ==
  LET T == S \cup UNION {M(r, s, j) : j \in S}
  IN IF T = S THEN S ELSE StarClose(r, s, T)

\* the documented meaning of a name pattern: the WHOLE name matches
FullMatch(re, s) == (Len(s) + 1) \in M(re, s, 1)

\* what re.match() with the pattern text '^' + p + '$' means when p has a top-level
\* alternation l|r: '^l' | 'r$'  (prefix match of l, or a suffix match of r that
\* re.match still anchors at position 1 because match() only tries position 1).
\* Used only to recognise the historical deviation KF/C10 "alternation not grouped".
PrefixMatch(re, s) == M(re, s, 1) # {}
RECURSIVE TopAlts(_)
TopAlts(re) == IF re.t = "alt" THEN TopAlts(re.l) \o TopAlts(re.r) ELSE <<re>>
UngroupedAnchorMatch(re, s) ==
  LET alts == TopAlts(re) n == Len(alts) IN
  IF n = 1 THEN FullMatch(re, s)
  ELSE \/ PrefixMatch(alts[1], s)                                  \* '^a' : anchored start only
       \/ \E k \in 2..(n-1) : PrefixMatch(alts[k], s)              \* middle branches: no anchor at all (match() still starts at 1)
       \/ FullMatch(alts[n], s)                                    \* 'b$' tried from position 1
=============================================================================
