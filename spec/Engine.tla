------------------------------- MODULE Engine -------------------------------
(***************************************************************************)
(* The dataflows execution engine as a coroutine stack machine.            *)
(*                                                                         *)
(* Flow(s1..sN) is a chain of DataStreamProcessors.  Running it executes   *)
(* the PACKAGE PHASE source->sink (step i copies the descriptor of step    *)
(* i-1 and edits it; iterable sources pull their inference sample here)    *)
(* and then the ROW PHASE, in which the driver (process()/results()) pulls *)
(* resource iterators and rows through a stack of Python generators.       *)
(*                                                                         *)
(* Control is a single token  ctl = [at, dir, item]:                       *)
(*   dir = "down": a demand (next resource / next row of resource k)       *)
(*                 arriving at step `at` from the step above it;           *)
(*   dir = "up"  : a supply (Res k / Row k r / EndRes k / EndAll / Exc c)  *)
(*                 arriving at step `at` from the step below it.           *)
(* Step 0 is the empty DataStream, step N+1 is the driver.  One action per *)
(* generator resumption in the code.  A probe placed between step b and    *)
(* b+1 ("boundary b") observes exactly the tokens that cross it, which is  *)
(* what EngineTrace.tla validates recorded executions against.             *)
(*                                                                         *)
(* Step kinds (each the abstraction of a family of real processors):       *)
(*   src    iterable source: own resource appended after the upstream ones;*)
(*          pulls min(Sample, n) rows in the package phase                 *)
(*   map    row-wise edit (row functions, field processors, set_type ...)  *)
(*   filter row-wise filter (filter_rows, deduplicate, validate+drop ...)  *)
(*   del    delete_resource(0): drops the first resource, DRAINING it      *)
(*   obs    observer (dump_to_path/zip, stream, checkpoint first run):     *)
(*          persists every row passing, COMMITS when the stream ends       *)
(*   sort   buffer-then-emit (sort_rows, join target ...)                  *)
(*   fin    finalizer: callback when the stream has ended                  *)
(*   dup    duplicate(): tees the FIRST resource into a store while it     *)
(*          streams and emits the copy right after it - the copy holds     *)
(*          whatever had streamed when it is asked for (why del must drain)*)
(*   cond   conditional(predicate, Flow(inner)): decided on the descriptor   *)
(*          when the chain is built - the inner step (map / filter / sort) *)
(*          in place if the predicate holds, nothing otherwise             *)
(*   cat    concatenate(all): one output resource chaining every upstream  *)
(*          resource; asks below for exactly the resources it was promised *)
(*   fault  a step that raises: in its package phase, at the first row, or *)
(*          at end of stream; exception class gen / cast / uniq            *)
(***************************************************************************)
EXTENDS Naturals, Integers, Sequences, FiniteSets, TLC, SequencesExt

CONSTANTS MaxLen,       \* max program length
          Sample,       \* inference sample size of iterable sources (pulled in the package phase)
          Ahead,        \* rows the table reader behind a source pre-reads when its stream is opened (first row demand);
                        \* measured on the real library: 100 (tabulator's own sample), independent of Sample
          SwallowCast,  \* TRUE: the driver's exception funnel logs a CastError and returns normally
                        \*       (behaviour of the pinned tree, defect R2); FALSE: it raises
          Kinds,        \* step kinds a bounded instance draws programs from
          SrcRows       \* the row-value sequences an iterable source may hold, e.g. {<<>>, <<1>>, <<1,2,3>>}

SrcRowsSmall == {<<>>, <<1>>, <<1, 2, 3>>}      \* cfg: SrcRows <- SrcRowsSmall
SrcRowsLong == {<<1>>, <<1, 2, 3, 4, 5, 6>>}    \* longer than Sample and Ahead, for the read-ahead bound
FaultAt == {"pkg", "row", "end"}
FaultCls == {"gen", "cast", "uniq"}
DelDrains == TRUE       \* delete_resource reads the resource it drops to the end; cfg: DelDrains <- DelSkips shows why it must
DelSkips == FALSE

\* a row: [s |-> index of the source step, k |-> position in that source, v |-> value]
MkRows(i, vs) == [k \in 1..Len(vs) |-> [s |-> i, k |-> k, v |-> vs[k]]]

----------------------------------------------------------------------------
\* Step-by-step (materialised) meaning of a program: the reference of C01
MapRow(r) == [r EXCEPT !.v = @ + 10]
Keep(r) == r.v % 2 = 1
SortDesc(s) == Reverse(SortSeq(s, LAMBDA a, b : a.v < b.v))     \* sort_rows(reverse=True): exactly the reverse of the stable ascending order
\* what a step is once the chain is built: a conditional IS its inner step, or nothing
Eff(st) == IF st.kind = "cond" THEN (IF st.pred THEN [kind |-> st.inner] ELSE [kind |-> "id"]) ELSE st
ApplyStep(i, st0, pkg) ==
   LET st == Eff(st0) IN
   CASE st.kind = "src"    -> Append(pkg, MkRows(i, st.rows))
     [] st.kind = "map"    -> [j \in 1..Len(pkg) |-> [n \in 1..Len(pkg[j]) |-> MapRow(pkg[j][n])]]
     [] st.kind = "filter" -> [j \in 1..Len(pkg) |-> SelectSeq(pkg[j], Keep)]
     [] st.kind = "del"    -> Tail(pkg)
     [] st.kind = "sort"   -> [j \in 1..Len(pkg) |-> SortDesc(pkg[j])]
     [] st.kind = "dup"    -> <<pkg[1], pkg[1]>> \o Tail(pkg)
     [] st.kind = "cat"    -> <<FlattenSeq(pkg)>>
     [] OTHER              -> pkg                      \* obs, fin, fault (when it does not fire)
RECURSIVE EvalFrom(_, _, _)
EvalFrom(steps, i, pkg) == IF i > Len(steps) THEN pkg ELSE EvalFrom(steps, i + 1, ApplyStep(i, steps[i], pkg))
Eval(steps) == EvalFrom(steps, 1, <<>>)
EvalPrefix(steps, n) == EvalFrom(SubSeq(steps, 1, n), 1, <<>>)
NumResAfter(steps, n) == Len(EvalPrefix(steps, n))

\* well-typed programs: del needs a resource to delete
WellTyped(steps) == \A i \in 1..Len(steps) : steps[i].kind \in {"del", "dup", "cat"} => NumResAfter(steps, i - 1) >= 1

StepSet == [kind : (Kinds \ {"src", "fault", "cond"})]
           \cup (IF "cond" \in Kinds THEN [kind : {"cond"}, pred : BOOLEAN, inner : {"map", "filter", "sort"}] ELSE {})
           \cup (IF "src" \in Kinds THEN [kind : {"src"}, rows : SrcRows] ELSE {})
           \cup (IF "fault" \in Kinds THEN [kind : {"fault"}, at : FaultAt, cls : FaultCls] ELSE {})
Programs == {p \in UNION {[1..n -> StepSet] : n \in 1..MaxLen} : WellTyped(p)}

----------------------------------------------------------------------------
VARIABLES steps,    \* the program
          phase,    \* "package" | "rows" | "raised" | "done" | "failed"
          pkgDone,  \* package phases executed so far (-1: not even the empty DataStream)
          ctl,      \* the control token
          loc,      \* per-step local state
          out,      \* what the driver has received: sequence of row sequences
          cur,      \* resource the driver is draining
          pulled,   \* pulled[i]: rows taken so far from the iterable of source step i
          maxLook,  \* max over delivered rows r of  pulled[r.s] - r.k   (rows read ahead of the delivered one)
          exc       \* <<>> or [at |-> step, cls |-> class] of the exception raised
vars == <<steps, phase, pkgDone, ctl, loc, out, cur, pulled, maxLook, exc>>
N == Len(steps)

NoCtl == [at |-> 0, dir |-> "none", item |-> <<"none">>]
Loc0 == [j |-> 0,            \* upstream resource currently being read
         k |-> 0,            \* output resources supplied so far
         st |-> "idle",      \* src: "own" once its own resource was supplied; sort: "emit"
         buf |-> <<>>, pos |-> 0,
         persisted |-> <<>>, committed |-> FALSE,      \* observers
         dropping |-> FALSE,                           \* del: draining a dropped resource
         calls |-> 0]                                  \* fin: number of callback invocations

InitWith(p) == /\ steps = p
               /\ phase = "package" /\ pkgDone = -1
               /\ ctl = NoCtl
               /\ loc = [i \in 1..Len(p) |-> Loc0]
               /\ out = <<>> /\ cur = 0
               /\ pulled = [i \in 1..Len(p) |-> 0]
               /\ maxLook = 0
               /\ exc = <<>>
Init == \E p \in Programs : InitWith(p)

Down(i, req) == [at |-> i, dir |-> "down", item |-> req]
Up(i, it)    == [at |-> i, dir |-> "up", item |-> it]
MinNat(a, b) == IF a < b THEN a ELSE b
MaxNat(a, b) == IF a > b THEN a ELSE b

\* ---- package phase: one action per processor, source -> sink ----
PackagePhase ==
   /\ phase = "package" /\ pkgDone < N
   /\ LET i == pkgDone + 1 IN
      IF i = 0 THEN /\ pkgDone' = 0 /\ UNCHANGED <<phase, pulled, exc, ctl>>
      ELSE IF steps[i].kind = "fault" /\ steps[i].at = "pkg"
           THEN /\ exc' = [at |-> i, cls |-> steps[i].cls]
                /\ phase' = "raised"                    \* no generator exists yet: straight to the driver's funnel
                /\ UNCHANGED <<pkgDone, pulled, ctl>>
           ELSE /\ pkgDone' = i
                /\ pulled' = [pulled EXCEPT ![i] = IF steps[i].kind = "src" THEN MinNat(Len(steps[i].rows), Sample) ELSE 0]
                /\ UNCHANGED <<phase, exc, ctl>>
   /\ UNCHANGED <<steps, loc, out, cur, maxLook>>

StartRows == /\ phase = "package" /\ pkgDone = N
             /\ phase' = "rows"
             /\ ctl' = Down(N, <<"NextRes">>)           \* the driver asks the last step for its first resource
             /\ UNCHANGED <<steps, pkgDone, loc, out, cur, pulled, maxLook, exc>>

\* ---- step 0: the empty DataStream ----
Bottom == /\ phase = "rows" /\ ctl.at = 0 /\ ctl.dir = "down"
          /\ ctl' = Up(1, <<"EndAll">>)
          /\ UNCHANGED <<steps, phase, pkgDone, loc, out, cur, pulled, maxLook, exc>>

\* ---- the driver (position N+1): process()/results() drain every resource in order ----
Driver ==
   /\ phase = "rows" /\ ctl.at = N + 1 /\ ctl.dir = "up"
   /\ LET it == ctl.item IN
      CASE it[1] = "Res"    -> /\ out' = Append(out, <<>>) /\ cur' = it[2]
                               /\ ctl' = Down(N, <<"NextRow", it[2]>>) /\ UNCHANGED <<phase, maxLook>>
        [] it[1] = "Row"    -> /\ out' = [out EXCEPT ![Len(out)] = Append(@, it[3])] /\ UNCHANGED cur
                               /\ maxLook' = MaxNat(maxLook, pulled[it[3].s] - it[3].k)
                               /\ ctl' = Down(N, <<"NextRow", cur>>) /\ UNCHANGED phase
        [] it[1] = "EndRes" -> /\ ctl' = Down(N, <<"NextRes">>) /\ UNCHANGED <<out, cur, phase, maxLook>>
        [] it[1] = "EndAll" -> /\ phase' = "done" /\ ctl' = NoCtl /\ UNCHANGED <<out, cur, maxLook>>
        [] it[1] = "Exc"    -> /\ phase' = "raised" /\ ctl' = NoCtl /\ UNCHANGED <<out, cur, maxLook>>
   /\ UNCHANGED <<steps, pkgDone, loc, pulled, exc>>

\* ---- the driver's exception funnel (safe_process): one disjunct per except-clause ----
Funnel == /\ phase = "raised"
          /\ phase' = IF exc.cls = "uniq" THEN "failed"                       \* except UniqueKeyError: raise
                      ELSE IF exc.cls = "cast" THEN (IF SwallowCast THEN "done" ELSE "failed")   \* except CastError
                      ELSE "failed"                                          \* except Exception: raise
          /\ UNCHANGED <<steps, pkgDone, ctl, loc, out, cur, pulled, maxLook, exc>>

\* ---- a step reacting to a demand from above ----
StepDown(i) ==
   /\ phase = "rows" /\ ctl.at = i /\ i \in 1..N /\ ctl.dir = "down"
   /\ LET s == Eff(steps[i])  l == loc[i]  req == ctl.item IN
      IF req[1] = "NextRes" THEN
         IF s.kind = "src" /\ l.st = "own"               \* own resource already supplied: the stream is over
         THEN /\ ctl' = Up(i + 1, <<"EndAll">>) /\ UNCHANGED <<loc, pulled>>
         ELSE IF s.kind = "dup" /\ l.st \in {"saving", "copy"}      \* the copy comes next, out of the store: nothing is asked below
         THEN /\ loc' = [loc EXCEPT ![i].st = "emit", ![i].k = @ + 1, ![i].pos = 0]
              /\ ctl' = Up(i + 1, <<"Res", l.k + 1>>) /\ UNCHANGED pulled
         ELSE /\ ctl' = Down(i - 1, <<"NextRes">>) /\ UNCHANGED <<loc, pulled>>
      ELSE \* NextRow(k) of my k-th output resource
         IF s.kind = "src" /\ l.st = "own" /\ req[2] = l.k THEN
              IF l.pos < Len(s.rows)
              THEN /\ loc' = [loc EXCEPT ![i].pos = @ + 1]
                   /\ pulled' = [pulled EXCEPT ![i] = MaxNat(@, MinNat(Len(s.rows), MaxNat(Ahead, l.pos + 1)))]
                   /\ ctl' = Up(i + 1, <<"Row", req[2], MkRows(i, s.rows)[l.pos + 1]>>)
              ELSE /\ ctl' = Up(i + 1, <<"EndRes", req[2]>>) /\ UNCHANGED <<loc, pulled>>
         ELSE IF s.kind = "dup" /\ l.st = "emit" /\ req[2] = l.k THEN
              IF l.pos < Len(l.buf)
              THEN /\ loc' = [loc EXCEPT ![i].pos = @ + 1]
                   /\ ctl' = Up(i + 1, <<"Row", req[2], l.buf[l.pos + 1]>>) /\ UNCHANGED pulled
              ELSE /\ loc' = [loc EXCEPT ![i].st = "after"]
                   /\ ctl' = Up(i + 1, <<"EndRes", req[2]>>) /\ UNCHANGED pulled
         ELSE IF s.kind = "sort" /\ l.st = "emit" THEN
              IF l.pos < Len(l.buf)
              THEN /\ loc' = [loc EXCEPT ![i].pos = @ + 1]
                   /\ ctl' = Up(i + 1, <<"Row", req[2], SortDesc(l.buf)[l.pos + 1]>>) /\ UNCHANGED pulled
              ELSE /\ loc' = [loc EXCEPT ![i].st = "idle", ![i].buf = <<>>, ![i].pos = 0]
                   /\ ctl' = Up(i + 1, <<"EndRes", req[2]>>) /\ UNCHANGED pulled
         ELSE /\ ctl' = Down(i - 1, <<"NextRow", l.j>>) /\ UNCHANGED <<loc, pulled>>   \* row-wise kinds pull from their current input
   /\ UNCHANGED <<steps, phase, pkgDone, out, cur, maxLook, exc>>

Raise(i) == /\ exc' = [at |-> i, cls |-> steps[i].cls]
            /\ ctl' = Up(i + 1, <<"Exc">>)
            /\ UNCHANGED loc

\* ---- a step reacting to a supply from below ----
StepUp(i) ==
   /\ phase = "rows" /\ ctl.at = i /\ i \in 1..N /\ ctl.dir = "up"
   /\ LET s == Eff(steps[i])  l == loc[i]  it == ctl.item IN
      CASE it[1] = "Exc" -> /\ ctl' = Up(i + 1, <<"Exc">>) /\ UNCHANGED <<loc, exc>>     \* unwinds through every generator; nobody commits
        [] it[1] = "Res" ->
             IF s.kind = "del" /\ it[2] = 1              \* the dropped resource: drain it now, inside this demand
             THEN IF DelDrains
                  THEN /\ loc' = [loc EXCEPT ![i].j = it[2], ![i].dropping = TRUE]
                       /\ ctl' = Down(i - 1, <<"NextRow", it[2]>>) /\ UNCHANGED exc
                  ELSE /\ ctl' = Down(i - 1, <<"NextRes">>) /\ UNCHANGED <<loc, exc>>      \* (deviation) skip it unread
             ELSE IF s.kind = "cat" /\ l.k = 1           \* a further resource to chain: keep pulling rows, nothing is supplied
             THEN /\ loc' = [loc EXCEPT ![i].j = it[2]]
                  /\ ctl' = Down(i - 1, <<"NextRow", it[2]>>) /\ UNCHANGED exc
             ELSE /\ loc' = [loc EXCEPT ![i].j = it[2], ![i].k = @ + 1,
                                        ![i].persisted = IF s.kind = "obs" THEN Append(@, <<>>) ELSE @,
                                        ![i].st = IF s.kind = "dup" /\ it[2] = 1 THEN "saving" ELSE @]
                  /\ ctl' = Up(i + 1, <<"Res", l.k + 1>>) /\ UNCHANGED exc
        [] it[1] = "Row" ->
             IF l.dropping THEN /\ ctl' = Down(i - 1, <<"NextRow", l.j>>) /\ UNCHANGED <<loc, exc>>
             ELSE CASE s.kind = "map"    -> /\ ctl' = Up(i + 1, <<"Row", l.k, MapRow(it[3])>>) /\ UNCHANGED <<loc, exc>>
                    [] s.kind = "filter" -> IF Keep(it[3]) THEN /\ ctl' = Up(i + 1, <<"Row", l.k, it[3]>>) /\ UNCHANGED <<loc, exc>>
                                                         ELSE /\ ctl' = Down(i - 1, <<"NextRow", l.j>>) /\ UNCHANGED <<loc, exc>>
                    [] s.kind = "obs"    -> /\ loc' = [loc EXCEPT ![i].persisted[Len(l.persisted)] = Append(@, it[3])]
                                            /\ ctl' = Up(i + 1, <<"Row", l.k, it[3]>>) /\ UNCHANGED exc
                    [] s.kind = "sort"   -> /\ loc' = [loc EXCEPT ![i].buf = Append(@, it[3])]
                                            /\ ctl' = Down(i - 1, <<"NextRow", l.j>>) /\ UNCHANGED exc
                    [] s.kind = "dup" /\ l.st = "saving" -> /\ loc' = [loc EXCEPT ![i].buf = Append(@, it[3])]
                                                             /\ ctl' = Up(i + 1, <<"Row", l.k, it[3]>>) /\ UNCHANGED exc
                    [] s.kind = "fault" /\ s.at = "row" -> Raise(i)
                    [] OTHER             -> /\ ctl' = Up(i + 1, <<"Row", l.k, it[3]>>) /\ UNCHANGED <<loc, exc>>
        [] it[1] = "EndRes" ->
             IF l.dropping THEN /\ loc' = [loc EXCEPT ![i].dropping = FALSE]
                                /\ ctl' = Down(i - 1, <<"NextRes">>) /\ UNCHANGED exc
             ELSE IF s.kind = "sort" THEN /\ loc' = [loc EXCEPT ![i].st = "emit", ![i].pos = 0]
                                          /\ ctl' = Down(i, <<"NextRow", l.k>>) /\ UNCHANGED exc      \* re-enter: now emit
             ELSE IF s.kind = "dup" /\ l.st = "saving" THEN /\ loc' = [loc EXCEPT ![i].st = "copy"]
                                                             /\ ctl' = Up(i + 1, <<"EndRes", l.k>>) /\ UNCHANGED exc
             ELSE IF s.kind = "cat" /\ it[2] < NumResAfter(steps, i - 1)        \* chain the next promised resource
             THEN /\ ctl' = Down(i - 1, <<"NextRes">>) /\ UNCHANGED <<loc, exc>>
             ELSE /\ ctl' = Up(i + 1, <<"EndRes", l.k>>) /\ UNCHANGED <<loc, exc>>
        [] it[1] = "EndAll" ->
             IF s.kind = "src" THEN /\ loc' = [loc EXCEPT ![i].st = "own", ![i].k = @ + 1, ![i].pos = 0]
                                    /\ ctl' = Up(i + 1, <<"Res", l.k + 1>>) /\ UNCHANGED exc
             ELSE IF s.kind = "fault" /\ s.at = "end" THEN Raise(i)
             ELSE IF s.kind = "fin" /\ l.calls = 0            \* the wrapped iterator is exhausted: the callback runs now,
             THEN /\ loc' = [loc EXCEPT ![i].calls = 1]       \* before the end of the stream is passed on
                  /\ UNCHANGED <<ctl, exc>>
             ELSE /\ loc' = [loc EXCEPT ![i].committed = (s.kind = "obs")]
                  /\ ctl' = Up(i + 1, <<"EndAll">>) /\ UNCHANGED exc
   /\ UNCHANGED <<steps, phase, pkgDone, out, cur, pulled, maxLook>>

Next == PackagePhase \/ StartRows \/ Bottom \/ Driver \/ Funnel \/ \E i \in 1..MaxLen : StepDown(i) \/ StepUp(i)
Spec == Init /\ [][Next]_vars

----------------------------------------------------------------------------
\* Properties
Terminal == phase \in {"done", "failed"}
NoDeadlock == ~Terminal => ENABLED Next

\* every run ends (no livelock between generators): under weak fairness of the single control token
FairSpec == Spec /\ WF_vars(Next)
Terminates == <>Terminal

\* C01: lazy chained execution = step-by-step evaluation on materialised data
LazyEqualsEager == (phase = "done" /\ exc = <<>>) => out = Eval(steps)

\* C04: a failing step never yields a successful run; nothing after the failure commits
FailNeverSucceeds == exc # <<>> => phase # "done"
NoCommitAfterFailure == exc # <<>> => \A j \in 1..N : (j > exc.at /\ steps[j].kind = "obs") => ~loc[j].committed
NoFinalizerAfterFailure == exc # <<>> => \A j \in 1..N : (j > exc.at /\ steps[j].kind = "fin") => loc[j].calls = 0
FailureIsReported == (phase = "failed") => exc # <<>>

\* C05: observers capture the complete stream at their position, finalizers fire exactly once at the end
ObserverComplete == \A i \in 1..N : (steps[i].kind = "obs" /\ loc[i].committed) => loc[i].persisted = EvalPrefix(steps, i)
AllObserversCommit == (phase = "done" /\ exc = <<>>) => \A i \in 1..N : steps[i].kind = "obs" => loc[i].committed
FinalizerOnce == /\ \A i \in 1..N : loc[i].calls <= 1
                 /\ (phase = "done" /\ exc = <<>>) => \A i \in 1..N : steps[i].kind = "fin" => loc[i].calls = 1
\* a finalizer has fired only if every row of every upstream resource has already passed it (seen by the observers above... below it)
FinalizerAtEnd == \A i \in 1..N : (steps[i].kind = "fin" /\ loc[i].calls = 1) =>
                     \A j \in 1..(i-1) : steps[j].kind = "obs" => loc[j].committed

\* C06: without a buffering step the read-ahead never exceeds the inference sample
Buffering == \E i \in 1..N : Eff(steps[i]).kind \in {"sort", "dup"}
LookBound == MaxNat(MaxNat(Sample, Ahead), 1) - 1
BoundedLookahead == ~Buffering => maxLook <= LookBound
LookBoundEvenWhenBuffering == maxLook <= LookBound      \* NOT a property: violated as soon as a sort is present (non-vacuity check)
=============================================================================
