----------------------------- MODULE JoinBigTrace -----------------------------
(***************************************************************************)
(* join with more distinct keys than the 10 240-entry in-memory cache of   *)
(* its key/value store, so that the on-disk index is used (C11).  The      *)
(* input is structured so that the declarative result has a closed form:   *)
(*   source: rows (k = i, v = i % 7) for i in 1..n, plus a second row      *)
(*           (k = i, v = 1) for i <= dup                                   *)
(*   target: keys listed in the record (some beyond n: unmatched)          *)
(*   aggregates sum / count / max / first / last, mode half-outer          *)
(* One line = one real run: [n, dup, agg, out: <<key, value or -1 (null)>>]*)
(***************************************************************************)
EXTENDS Integers, Sequences, TLC, Json, IOUtils
Recs == ndJsonDeserialize(IOEnv.TRACE_FILE)
VARIABLE t
Init == t \in 1..Len(Recs)
Next == UNCHANGED t
Spec == Init /\ [][Next]_t
R == Recs[t]
Expected(k) ==
  IF k > R.n THEN -1
  ELSE LET v == k % 7  twice == k <= R.dup IN
       CASE R.agg = "sum"   -> IF twice THEN v + 1 ELSE v
         [] R.agg = "count" -> IF twice THEN 2 ELSE 1
         [] R.agg = "max"   -> IF twice /\ v < 1 THEN 1 ELSE v
         [] R.agg = "first" -> v
         [] R.agg = "last"  -> IF twice THEN 1 ELSE v
OK == \A i \in DOMAIN R.out : R.out[i][2] = Expected(R.out[i][1])
InOrder == \A i \in DOMAIN R.out : R.out[i][1] = R.tgt[i]
Verdict == PrintT(<<"VERDICT", t, OK /\ InOrder /\ Len(R.out) = Len(R.tgt)>>)
=============================================================================
