---------------------------------- MODULE Sql ----------------------------------
(***************************************************************************)
(* dump_to_sql into one SQLite table over a history of dumps (C20).        *)
(* A row is [k, v] (k the key column, v a value or "n" for null); the      *)
(* table is a sequence of rows (insertion order) or Absent.  A dump is     *)
(* [mode, rows]; bloom (use_bloom_filter) and batch (batch_size) are fixed *)
(* per history.                                                            *)
(*                                                                         *)
(* The writer as implemented (tableschema-sql): per row                    *)
(*   existing?  update keys given: with the bloom filter "seen before"     *)
(*              (keys of the table at the start of the dump + keys written *)
(*              so far), without it always "maybe"                         *)
(*   if maybe existing: flush the insert buffer, UPDATE ... WHERE key;     *)
(*              a row was hit -> delivered downstream with updated = TRUE  *)
(*   otherwise (or no row hit): appended to the insert buffer, which is    *)
(*              flushed when it holds MORE than batch rows and at the end; *)
(*              flushed rows go downstream with updated = FALSE            *)
(* rewrite drops the table first; append and rewrite never use keys.       *)
(*                                                                         *)
(* What continues downstream.  Before a row reaches the writer dump_to_sql *)
(* converts its array/object cells to what the database can hold (JSON     *)
(* text on SQLite), and the writer converts fallback types (duration,      *)
(* geopoint, yearmonth) to text.  WriterGetsCopy = FALSE is the pinned     *)
(* code: the conversion is done in place and the converted row continues   *)
(* (TLC refutes Downstream as soon as Converts holds).  WriterGetsCopy =   *)
(* TRUE is the repair (fix: commit): the writer gets a copy, the originals *)
(* wait in a FIFO and each report of the writer releases the head of that  *)
(* FIFO.  That pairing is sound because of PairingOK - the writer reports  *)
(* every row exactly once and in input order - which TLC checks here and   *)
(* which the replayed histories check on the real writer (the flags would  *)
(* be attached to the wrong rows otherwise: FlagsTruthful).                *)
(***************************************************************************)
EXTENDS Naturals, Sequences, FiniteSets, TLC, SequencesExt, Json

CONSTANTS MaxDumps, MaxRows, Batches,
          WriterGetsCopy,   \* TRUE: the repaired dumper; FALSE: conversion in place (pinned)
          Converts          \* TRUE: the resource has cells the database cannot hold as they are (array, object, fallback types)

Absent == <<[k |-> 0, v |-> "absent"]>>
Keys == {1, 2}
Vals == {"a", "b", "n"}
Row == [k : Keys, v : Vals]
RowSeqs == UNION {[1..n -> Row] : n \in 0..MaxRows}
Modes == {"rewrite", "append", "update"}
Dumps == [mode : Modes, rows : RowSeqs]

VARIABLES table, bloom, batch, hist, cur, pos, buf, seen, flags, out, log
vars == <<table, bloom, batch, hist, cur, pos, buf, seen, flags, out, log>>
NoDump == [mode |-> "none", rows |-> <<>>]

Init == /\ table = Absent /\ bloom \in BOOLEAN /\ batch \in Batches
        /\ hist = <<>> /\ cur = NoDump /\ pos = 1 /\ buf = <<>> /\ seen = {} /\ flags = <<>> /\ out = <<>> /\ log = <<>>

KeysOf(t) == IF t = Absent THEN {} ELSE {t[i].k : i \in DOMAIN t}
BeginDump(d) == /\ cur = NoDump /\ Len(hist) < MaxDumps
                /\ cur' = d /\ pos' = 1 /\ buf' = <<>> /\ flags' = <<>> /\ out' = <<>>
                /\ table' = IF d.mode = "rewrite" \/ table = Absent THEN <<>> ELSE table      \* drop / create
                /\ seen' = IF d.mode = "update" /\ bloom THEN KeysOf(IF d.mode = "rewrite" THEN <<>> ELSE table) ELSE {}
                /\ UNCHANGED <<bloom, batch, hist, log>>
Flushed(t, b) == t \o b
Hit(t, key) == \E i \in DOMAIN t : t[i].k = key
Upd(t, r) == [i \in DOMAIN t |-> IF t[i].k = r.k THEN r ELSE t[i]]
WriteRow == /\ cur # NoDump /\ pos <= Len(cur.rows)
            /\ LET r == cur.rows[pos]
                   maybe == cur.mode = "update" /\ (IF bloom THEN r.k \in seen ELSE TRUE)
                   t1 == IF maybe THEN Flushed(table, buf) ELSE table          \* the buffer is flushed before an UPDATE
                   b1 == IF maybe THEN <<>> ELSE buf
                   o1 == IF maybe THEN out \o buf ELSE out
                   f1 == IF maybe THEN flags \o [i \in DOMAIN buf |-> FALSE] ELSE flags
               IN IF maybe /\ Hit(t1, r.k)
                  THEN /\ table' = Upd(t1, r) /\ buf' = b1 /\ out' = Append(o1, r) /\ flags' = Append(f1, TRUE)
                  ELSE LET b2 == Append(b1, r) IN
                       IF Len(b2) > batch
                       THEN /\ table' = Flushed(t1, b2) /\ buf' = <<>> /\ out' = o1 \o b2 /\ flags' = f1 \o [i \in DOMAIN b2 |-> FALSE]
                       ELSE /\ table' = t1 /\ buf' = b2 /\ out' = o1 /\ flags' = f1
            /\ seen' = IF cur.mode = "update" /\ bloom THEN seen \cup {cur.rows[pos].k} ELSE seen
            /\ pos' = pos + 1 /\ UNCHANGED <<bloom, batch, hist, cur, log>>
EndDump == /\ cur # NoDump /\ pos > Len(cur.rows)
           /\ table' = Flushed(table, buf) /\ buf' = <<>>
           /\ out' = out \o buf /\ flags' = flags \o [i \in DOMAIN buf |-> FALSE]
           /\ hist' = Append(hist, cur)
           /\ log' = Append(log, [table |-> Flushed(table, buf), out |-> out \o buf, flags |-> flags \o [i \in DOMAIN buf |-> FALSE]])
           /\ cur' = NoDump /\ UNCHANGED <<bloom, batch, pos, seen>>
Next == (\E d \in Dumps : BeginDump(d)) \/ WriteRow \/ EndDump
Spec == Init /\ [][Next]_vars

----------------------------------------------------------------------------
\* C20: what each mode prescribes, evaluated after every completed dump (d = the last one, prev = table before it)
PrevTable(n) == IF n = 1 THEN <<>> ELSE log[n - 1].table
Bag(s) == [x \in {s[i] : i \in DOMAIN s} |-> Cardinality({i \in DOMAIN s : s[i] = x})]
LastFor(rows, key) == rows[CHOOSE i \in DOMAIN rows : rows[i].k = key /\ \A j \in (i+1)..Len(rows) : rows[j].k # key]
OnePerKey(t) == \A i, j \in DOMAIN t : i # j => t[i].k # t[j].k
ModeOK(n) ==
  LET d == hist[n]  prev == PrevTable(n)  t == log[n].table IN
  CASE d.mode = "rewrite" -> Bag(t) = Bag(d.rows)                                              \* exactly the dumped rows
    [] d.mode = "append"  -> t = prev \o d.rows                                                 \* the previous rows plus the dumped rows
    [] d.mode = "update"  -> OnePerKey(prev) =>                                                  \* one row per key holding the latest values
           /\ OnePerKey(t)
           /\ KeysOf(t) = KeysOf(prev) \cup KeysOf(d.rows)
           /\ \A i \in DOMAIN t : IF t[i].k \in KeysOf(d.rows) THEN t[i] = LastFor(d.rows, t[i].k)
                                  ELSE \E j \in DOMAIN prev : prev[j] = t[i]
\* the writer reports every row of the dump exactly once, in input order (log[n].out are the writer's reports)
PairingOK(n) == log[n].out = hist[n].rows
\* rows continue downstream unchanged and in order; the flags say truthfully whether a row replaced an existing one
Untouched(r) == [k |-> r.k, v |-> r.v, converted |-> FALSE]
Delivered(n) == IF WriterGetsCopy
                THEN [i \in DOMAIN log[n].out |-> Untouched(hist[n].rows[i])]                       \* the head of the FIFO of originals
                ELSE [i \in DOMAIN log[n].out |-> [k |-> log[n].out[i].k, v |-> log[n].out[i].v, converted |-> Converts]]   \* the writer's own row
Downstream(n) == Delivered(n) = [i \in DOMAIN hist[n].rows |-> Untouched(hist[n].rows[i])]
FlagsTruthful(n) == LET d == hist[n] prev == PrevTable(n) IN
  (d.mode = "update" /\ OnePerKey(prev)) =>
     \A i \in DOMAIN d.rows : log[n].flags[i] = (d.rows[i].k \in KeysOf(prev) \/ \E j \in 1..(i - 1) : d.rows[j].k = d.rows[i].k)
NeverFlagsOutsideUpdate(n) == hist[n].mode # "update" => \A i \in DOMAIN log[n].flags : ~log[n].flags[i]
AllDumpsOK == \A n \in DOMAIN hist : ModeOK(n) /\ PairingOK(n) /\ Downstream(n) /\ FlagsTruthful(n) /\ NeverFlagsOutsideUpdate(n)

Export == (cur = NoDump /\ Len(hist) > 0) =>
   PrintT(<<"CASE", ToJson([bloom |-> bloom, batch |-> batch, hist |-> hist,
                            log |-> [n \in DOMAIN log |-> [table |-> log[n].table, flags |-> log[n].flags]]])>>)
=============================================================================
