-------------------------------- MODULE Stats --------------------------------
(***************************************************************************)
(* The statistics a run returns (process() / results(): DataStream.stats,  *)
(* merge_stats; the `stats` handed to a finalizer callback).               *)
(*                                                                         *)
(* Every step of a chain owns one stats dict; a step REPORTS by writing    *)
(* into its own dict (update_stats: the dict it was given; a file dumper:  *)
(* count_of_rows / bytes / hash of what passed IT).  The run returns the   *)
(* dicts merged in pipeline order - a later step's report of a key         *)
(* replaces an earlier one's, so what comes back for a key is what the     *)
(* LAST step reporting it saw at ITS position (C05: an observer reports    *)
(* the stream at its position; C09: the stats process() returns agree with *)
(* the descriptor the last dumper wrote).                                  *)
(*                                                                         *)
(* Steps:  <<"u", k, v>>  update_stats({k: v})                             *)
(*         <<"d">>        a dumper: reports rows = the number of rows that *)
(*                        pass it                                          *)
(*         <<"f">>        a filter that drops every second row             *)
(* Merge = "update" (as implemented: dict.update in order) | "first" (a    *)
(* lookup chain in which the FIRST reporter wins - the pinned alternative  *)
(* TLC has to refute).                                                     *)
(***************************************************************************)
EXTENDS Naturals, Sequences, FiniteSets, TLC, Json

CONSTANTS MaxLen, Rows0, Merge

Keys == {"k1", "k2"}
StepSet == {<<"u", k, v>> : k \in Keys, v \in 1..2} \cup {<<"d">>, <<"f">>}
Absent == 0                                        \* values are >= 1; rows are reported + 1 so that 0 rows is not "absent"

VARIABLES prog, n, own, merged
vars == <<prog, n, own, merged>>
AllKeys == Keys \cup {"rows"}
Empty == [k \in AllKeys |-> Absent]
Init == prog = <<>> /\ n = Rows0 /\ own = <<>> /\ merged = Empty

Report(s, rows) == IF s[1] = "u" THEN [Empty EXCEPT ![s[2]] = s[3]]
                   ELSE IF s[1] = "d" THEN [Empty EXCEPT !["rows"] = rows + 1]
                   ELSE Empty
MergeInto(acc, rep) == [k \in AllKeys |-> IF Merge = "update" THEN (IF rep[k] # Absent THEN rep[k] ELSE acc[k])
                                                              ELSE (IF acc[k] # Absent THEN acc[k] ELSE rep[k])]
Step(s) == /\ Len(prog) < MaxLen
           /\ prog' = Append(prog, s)
           /\ n' = IF s[1] = "f" THEN (n + 1) \div 2 ELSE n
           /\ own' = Append(own, Report(s, n))
           /\ merged' = MergeInto(merged, Report(s, n))
Next == \E s \in StepSet : Step(s)
Spec == Init /\ [][Next]_vars

\* for every key: the value of the LAST step that reports it; a key nobody reports is not there
LastReporter(k) == IF \E i \in DOMAIN own : own[i][k] # Absent
                   THEN own[CHOOSE i \in DOMAIN own : own[i][k] # Absent /\ \A j \in (i + 1)..Len(own) : own[j][k] = Absent][k]
                   ELSE Absent
LastReportWins == \A k \in AllKeys : merged[k] = LastReporter(k)
Export == Len(prog) > 0 => PrintT(<<"CASE", ToJson([prog |-> prog, rows0 |-> Rows0, merged |-> merged])>>)
=============================================================================
