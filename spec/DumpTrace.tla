------------------------------ MODULE DumpTrace ------------------------------
(***************************************************************************)
(* Crash-point traces of the real dump_to_path against Dump.tla.           *)
(*   nres   number of resources                                            *)
(*   ev     file operations seen by the recorder before the kill:          *)
(*          ["tmp_open"] ["tmp_write"] ["tmp_close"] ["copy_create", i]    *)
(*          ["copy_chunk", i] ["copy_close", i] ["unlink"]                 *)
(*          (i = index of the resource the destination belongs to,         *)
(*           nres + 1 for datapackage.json)                                *)
(*   post   the output directory afterwards: desc in absent / unparseable /*)
(*          parseable; data[i] in absent / partial / complete (byte        *)
(*          identical to the uninterrupted dump); listed_ok = every file   *)
(*          the parseable descriptor lists exists with the recorded size   *)
(*          and md5                                                        *)
(***************************************************************************)
EXTENDS Dump, Json, IOUtils

Traces == ndJsonDeserialize(IOEnv.TRACE_FILE)
VARIABLES t, l, stage
tvars == <<vars, t, l, stage>>
T == Traces[t]
Ev == T.ev

TraceInit == /\ t \in 1..Len(Traces) /\ l = 1 /\ stage = "replay"
             /\ nres = Traces[t].nres /\ cur = 1 /\ step = "idle"
             /\ data = [r \in 1..Traces[t].nres |-> "absent"] /\ desc = "absent"
Replay == /\ stage = "replay" /\ l <= Len(Ev) /\ l' = l + 1 /\ UNCHANGED <<t, stage>>
          /\ LET e == Ev[l] IN
             \/ e[1] = "tmp_open" /\ TmpOpen
             \/ e[1] = "tmp_write" /\ TmpWrite
             \/ e[1] = "tmp_close" /\ TmpClose
             \/ e[1] = "copy_create" /\ CopyCreate /\ cur = e[2]
             \/ e[1] = "copy_chunk" /\ CopyChunk /\ cur = e[2]
             \/ e[1] = "copy_close" /\ CopyClose /\ cur = e[2]
             \/ e[1] = "unlink" /\ Unlink
Stuck == /\ stage = "replay" /\ l <= Len(Ev) /\ ~ENABLED Replay
         /\ stage' = "stuck" /\ UNCHANGED <<vars, t, l>>
End == /\ stage = "replay" /\ l > Len(Ev) /\ stage' = "end" /\ UNCHANGED <<vars, t, l>>
TraceNext == Replay \/ Stuck \/ End
TraceSpec == TraceInit /\ [][TraceNext]_tvars

Abs(s) == IF s = "unparseable" THEN "partial" ELSE IF s = "parseable" THEN "complete" ELSE s
\* a destination that is still open for copying may already hold all its bytes (last chunk flushed, not yet closed)
Matches(real, model, copyingIt) == real = model \/ (copyingIt /\ model = "partial" /\ real = "complete")
FsEq == /\ Matches(Abs(T.post.desc), desc, step = "copying" /\ cur = nres + 1)
        /\ \A r \in 1..nres : Matches(T.post.data[r], data[r], step = "copying" /\ cur = r)
\* C19 on the recorded directory
C19 == T.post.desc = "parseable" => (T.post.listed_ok /\ \A r \in 1..nres : T.post.data[r] = "complete")
Verdict == stage \in {"end", "stuck"} =>
             PrintT(<<"VERDICT", t, l - 1, Len(Ev), stage = "end" /\ FsEq, C19, DescriptorLast>>)
=============================================================================
