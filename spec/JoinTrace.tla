------------------------------ MODULE JoinTrace ------------------------------
(***************************************************************************)
(* Recorded real joins against the declarative definition of ProcJoin.tla. *)
(* One line = one real run of join() on tables larger than the exhaustive  *)
(* universe (0..12 rows, keys/values 1..5 and null):                       *)
(*   src, tgt, mode, agg, shape    the input                               *)
(*   ordered   the rows the real join emitted for target rows, in order    *)
(*   extra     the rows it emitted for unmatched source keys (full-outer), *)
(*             as a list (compared as a set)                               *)
(***************************************************************************)
EXTENDS ProcJoin, IOUtils

Recs == ndJsonDeserialize(IOEnv.TRACE_FILE)
VARIABLE t
TInit == t \in 1..Len(Recs)
         /\ src = <<>> /\ tgt = <<>> /\ mode = "inner" /\ agg = "sum" /\ shape = "field"
         /\ phase = "trace" /\ db = <<>> /\ used = {} /\ pos = 1 /\ outp = <<>>
TNext == UNCHANGED <<vars, t>>
TSpec == TInit /\ [][TNext]_<<vars, t>>
R == Recs[t]
D == JoinDef(R.shape, R.src, R.tgt, R.mode, R.agg)
\* JSON has no sets: the harness records set / counters values as lists
Norm(v) == IF v[1] = "s" THEN <<"s", {v[2][i] : i \in DOMAIN v[2]}>>
           ELSE IF v[1] = "c" THEN <<"c", {<<v[2][i][1], v[2][i][2]>> : i \in DOMAIN v[2]}>>
           ELSE v
RecOrdered == [i \in DOMAIN R.ordered |-> [R.ordered[i] EXCEPT !.x = Norm(@)]]
RecExtra == {[R.extra[i] EXCEPT !.x = Norm(@)] : i \in DOMAIN R.extra}
OrderedOK == D.ordered = RecOrdered
ExtraOK == IF R.shape = "rownum"      \* the key of an unmatched row is its row number, which the emitted row does not carry
           THEN {<<e.t, e.x>> : e \in D.extra} = {<<e.t, e.x>> : e \in RecExtra} /\ Cardinality(D.extra) = Len(R.extra)
           ELSE D.extra = RecExtra /\ Cardinality(D.extra) = Len(R.extra)
Verdict == PrintT(<<"VERDICT", t, OrderedOK, ExtraOK>>)
=============================================================================
