------------------------------ MODULE Selector ------------------------------
(***************************************************************************)
(* The one meaning of a `resources` argument (C10).                        *)
(*   [k |-> "none"]              selects every resource                    *)
(*   [k |-> "re",   re |-> ast]  selects the names the regex fully matches *)
(*   [k |-> "list", ns |-> seq]  selects exactly the listed names          *)
(*   [k |-> "int",  i |-> n]     selects by position, negative from the end*)
(* names is the sequence of resource names of the package the step sees.   *)
(***************************************************************************)
EXTENDS Regex, Integers

InRange(sel, names) ==            \* an integer selector must index an existing resource
  sel.k = "int" => (sel.i >= -Len(names) /\ sel.i < Len(names))

PyIndex(i, n) == IF i >= 0 THEN i + 1 ELSE n + i + 1     \* Python position -> 1-based

\* set of selected POSITIONS (1-based) in names
Selected(sel, names) ==
  CASE sel.k = "none" -> DOMAIN names
    [] sel.k = "re"   -> {p \in DOMAIN names : FullMatch(sel.re, names[p])}
    [] sel.k = "list" -> {p \in DOMAIN names : \E q \in DOMAIN sel.ns : sel.ns[q] = names[p]}
    [] sel.k = "int"  -> {p \in DOMAIN names : names[p] = names[PyIndex(sel.i, Len(names))]}

\* historical behaviour of the matcher for regex selectors ('^' + p + '$' un-grouped)
SelectedUngrouped(sel, names) ==
  IF sel.k = "re" THEN {p \in DOMAIN names : UngroupedAnchorMatch(sel.re, names[p])}
  ELSE Selected(sel, names)
=============================================================================
