------------------------------ MODULE FlowChain ------------------------------
(***************************************************************************)
(* How Flow builds its chain: nested Flows, checkpoints and link           *)
(* absorption (dataflows/base/flow.py _preprocess_chain/_chain and         *)
(* processors/checkpoint.py), over histories of runs and deletions (C07,   *)
(* C01 "the outcome does not depend on how the steps are grouped").        *)
(*                                                                         *)
(* A pipeline is a well-bracketed token sequence                           *)
(*      "s" a step     "c" a checkpoint     "(" ... ")" a nested Flow      *)
(* e.g.  s ( s c ) s   =   Flow(s1, Flow(s3, checkpoint), s6).             *)
(* Leaves are identified by their position in the sequence; pipeline order *)
(* is left to right.                                                       *)
(*                                                                         *)
(* IDEAL (what C07 states): a run resumes from the LAST checkpoint whose   *)
(* file exists; no step before it is executed in any way; every step after *)
(* it runs, every checkpoint after it is (re)written.                      *)
(*                                                                         *)
(* IMPL (what the code does): while ONE Flow folds its links, a checkpoint *)
(* absorbs the links that precede it IN THAT Flow (a nested Flow that      *)
(* precedes it is absorbed as a whole).  When the checkpoint's file exists *)
(* the absorbed links are never built.  Links of an ENCLOSING Flow that    *)
(* precede the nested Flow are not absorbed: they are built, their package *)
(* phase runs (a source is opened and sampled), and only their rows are    *)
(* never pulled because the reader of the checkpoint file ignores its      *)
(* upstream.  A checkpoint that is built in saving mode but cut off by a   *)
(* later reader opens its temporary file and never publishes it.           *)
(***************************************************************************)
EXTENDS Integers, Sequences, FiniteSets, TLC, Json

CONSTANTS MaxTok,      \* tokens per pipeline
          MaxDepth,    \* nesting depth of Flows below the outermost one
          MaxHist      \* runs + deletions per history

Tok == {"s", "c", "(", ")"}

\* ---------- structure of a token sequence ----------
RECURSIVE DepthAfter(_, _)
DepthAfter(t, i) == IF i = 0 THEN 0
                    ELSE DepthAfter(t, i - 1) + (IF t[i] = "(" THEN 1 ELSE IF t[i] = ")" THEN 0 - 1 ELSE 0)
\* DepthAfter may dip below 0 only on ill-formed sequences; naturals suffice for the well-formed ones we keep
Balanced(t) == /\ \A i \in 1..Len(t) : t[i] = ")" => DepthAfter(t, i - 1) >= 1
               /\ DepthAfter(t, Len(t)) = 0
               /\ \A i \in 1..Len(t) : DepthAfter(t, i) <= MaxDepth
Leaves(t) == {i \in 1..Len(t) : t[i] \in {"s", "c"}}
Steps(t) == {i \in 1..Len(t) : t[i] = "s"}
Cps(t) == {i \in 1..Len(t) : t[i] = "c"}
\* the "(" that opens the innermost Flow around position k (0: the outermost Flow)
Open(t, k) == LET d == DepthAfter(t, k - 1) IN
              IF d = 0 THEN 0
              ELSE CHOOSE j \in 1..(k - 1) : /\ t[j] = "(" /\ DepthAfter(t, j) = d
                                             /\ \A i \in j..(k - 1) : DepthAfter(t, i) >= d
Pipelines == {t \in UNION {[1..n -> Tok] : n \in 1..MaxTok} : Balanced(t) /\ Cps(t) # {} /\ Steps(t) # {}}

\* ---------- absorption ----------
AbsorbsImpl(t, k, p) == Open(t, k) < p /\ p < k        \* p precedes k inside the Flow that holds k
AbsorbsIdeal(t, k, p) == p < k
MaxOf(S) == IF S = {} THEN 0 ELSE CHOOSE x \in S : \A y \in S : y <= x

\* ---------- one run, given the set E of checkpoints whose file exists ----------
\* exec[p] for leaves: "none" not built, "pkg" built and its package phase ran but no row was pulled through it, "full"
IdealRun(t, E) ==
  LET r == MaxOf(E) IN
  [from    |-> r,
   exec    |-> [p \in Leaves(t) |-> IF p < r THEN "none" ELSE "full"],
   written |-> {k \in Cps(t) : k > r}]

ImplRun(t, E) ==
  LET skipped(p) == \E k \in E : AbsorbsImpl(t, k, p)
      built(p) == ~skipped(p)
      readers == {k \in E : built(k)}                  \* existing checkpoints that are reached: they read their file
      r == MaxOf(readers)
      cut(p) == \E k \in readers : k > p               \* a reader downstream ignores everything upstream of it
  IN
  [from    |-> r,
   exec    |-> [p \in Leaves(t) |-> IF skipped(p) THEN "none" ELSE IF cut(p) THEN "pkg" ELSE "full"],
   written |-> {k \in Cps(t) \ E : built(k) /\ ~cut(k)}]

\* ---------- histories ----------
VARIABLES tree, exists, content, hist, runs
vars == <<tree, exists, content, hist, runs>>
\* content[k]: the steps whose effect is in checkpoint k's file (a sequence of step positions), <<>> when absent
StepsBetween(t, a, b) == LET S == {p \in Steps(t) : a < p /\ p < b}
                             RECURSIVE Asc(_)
                             Asc(X) == IF X = {} THEN <<>> ELSE LET m == CHOOSE x \in X : \A y \in X : x <= y IN <<m>> \o Asc(X \ {m})
                         IN Asc(S)
Init == /\ tree \in Pipelines /\ exists = {} /\ content = [k \in Cps(tree) |-> <<>>] /\ hist = <<>> /\ runs = <<>>
Run == /\ Len(hist) < MaxHist
       /\ LET run == ImplRun(tree, exists)
              base == IF run.from = 0 THEN <<>> ELSE content[run.from]
              at(k) == base \o StepsBetween(tree, run.from, k)           \* what streams past position k in this run
          IN /\ runs' = Append(runs, [impl |-> run, ideal |-> IdealRun(tree, exists),
                                      result |-> at(Len(tree) + 1), exists |-> exists])
             /\ exists' = exists \cup run.written
             /\ content' = [k \in Cps(tree) |-> IF k \in run.written THEN at(k) ELSE content[k]]
       /\ hist' = Append(hist, <<"run">>) /\ UNCHANGED tree
Delete(k) == /\ Len(hist) < MaxHist /\ k \in exists
             /\ exists' = exists \ {k} /\ content' = [content EXCEPT ![k] = <<>>]
             /\ hist' = Append(hist, <<"del", k>>) /\ UNCHANGED <<tree, runs>>
Next == Run \/ \E k \in Cps(tree) : Delete(k)
Spec == Init /\ [][Next]_vars

\* ---------- properties ----------
AllSteps == StepsBetween(tree, 0, Len(tree) + 1)
\* C07/C01: every run returns what the first run returned (all steps applied once, in pipeline order), however the steps are grouped
ResultSame == \A n \in DOMAIN runs : runs[n].result = AllSteps
\* every checkpoint file holds exactly the stream at its position
ContentOK == \A k \in exists : content[k] = StepsBetween(tree, 0, k)
\* the implementation resumes from the same checkpoint, pulls rows through the same steps and writes the same checkpoints as the ideal
RowsAsIdeal == \A n \in DOMAIN runs :
   /\ runs[n].impl.from = runs[n].ideal.from
   /\ runs[n].impl.written = runs[n].ideal.written
   /\ \A p \in Leaves(tree) : (runs[n].impl.exec[p] = "full") = (runs[n].ideal.exec[p] = "full")
\* C07: "without executing any step placed before the checkpoint" - REFUTED for the implementation on nested pipelines
ResumeSkipsUpstream == \A n \in DOMAIN runs : \A p \in Steps(tree) : p < runs[n].impl.from => runs[n].impl.exec[p] = "none"
\* ... and it is the ONLY way it fails: a step (or an earlier checkpoint) before the resume point that no existing checkpoint absorbs
\* (a checkpoint inside a nested Flow, with steps in an enclosing Flow before that nested Flow)
OuterPredecessor(t, E) == \E p \in Leaves(t) : p < MaxOf(E) /\ ~\E k \in E : AbsorbsImpl(t, k, p)
ResumeSkipsUpstreamUnlessOuter ==
   \A n \in DOMAIN runs : ~OuterPredecessor(tree, runs[n].exists) =>
        \A p \in Leaves(tree) : runs[n].impl.exec[p] = runs[n].ideal.exec[p]
\* the deviation is exactly: package phase only
DeviationIsPkgOnly == \A n \in DOMAIN runs : \A p \in Leaves(tree) :
   runs[n].impl.exec[p] # runs[n].ideal.exec[p] => (runs[n].impl.exec[p] = "pkg" /\ runs[n].ideal.exec[p] = "none")
\* after a run the last checkpoint of the pipeline exists, so the next run resumes from it
LastWritten == (Len(hist) > 0 /\ hist[Len(hist)][1] = "run") => MaxOf(Cps(tree)) \in exists
\* removing every checkpoint makes the next run compute from the sources
DeleteRecomputes == \A n \in DOMAIN runs : runs[n].exists = {} => \A p \in Leaves(tree) : runs[n].impl.exec[p] = "full"
Flat(t) == \A i \in 1..Len(t) : t[i] \notin {"(", ")"}
FlatMeetsIdeal == Flat(tree) => \A n \in DOMAIN runs : runs[n].impl = runs[n].ideal

ExecSeq(t, e) == [i \in 1..Len(t) |-> IF i \in Leaves(t) THEN e[i] ELSE "-"]
Export == (Len(hist) = MaxHist) =>
   PrintT(<<"CASE", ToJson([tree |-> tree, hist |-> hist,
        runs |-> [n \in DOMAIN runs |-> [from |-> runs[n].impl.from, impl |-> ExecSeq(tree, runs[n].impl.exec), ideal |-> ExecSeq(tree, runs[n].ideal.exec),
                                         written |-> runs[n].impl.written, outer |-> OuterPredecessor(tree, runs[n].exists), result |-> runs[n].result]],
        exists |-> exists])>>)
=============================================================================
