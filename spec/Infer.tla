-------------------------------- MODULE Infer --------------------------------
(***************************************************************************)
(* Type inference of iterable sources (helpers/iterable_loader.py,         *)
(* iterable_storage.field_type) - part of C02: the declared type of a      *)
(* column must admit every value of the column.                            *)
(*                                                                         *)
(* A sample column is abstracted to the SET of Python classes its values   *)
(* have.  The code classifies each value by isinstance tests in a fixed    *)
(* order (bool before int, datetime before date) into a Table Schema type; *)
(* nulls do not count; if exactly one type was seen the column gets that   *)
(* type, otherwise "any".                                                  *)
(*                                                                         *)
(* UnknownCounts = FALSE is the pinned code: a value of a class the        *)
(* classifier does not know (time, timedelta, set, bytes, ...) falls into  *)
(* a branch that does nothing (an assert on a non-empty string), i.e. is   *)
(* treated like a null - so {time, str} is declared "string" and the time  *)
(* value does not cast.  UnknownCounts = TRUE is the repair (fix: commit): *)
(* an unknown class counts as a type of its own ("any").                   *)
(***************************************************************************)
EXTENDS Naturals, FiniteSets, TLC, Json

CONSTANT UnknownCounts

Known == {"str", "bool", "int", "float", "dec", "list", "dict", "datetime", "date"}
Unknown == {"time", "timedelta", "set", "bytes"}
Classes == Known \cup Unknown \cup {"none"}

TypeOfClass(c) == CASE c = "str" -> "string" [] c = "bool" -> "boolean" [] c = "int" -> "integer"
                    [] c \in {"float", "dec"} -> "number" [] c = "list" -> "array" [] c = "dict" -> "object"
                    [] c = "datetime" -> "datetime" [] c = "date" -> "date"
                    [] OTHER -> "any"
Seen(S) == {TypeOfClass(c) : c \in (S \cap Known)} \cup (IF UnknownCounts /\ S \cap Unknown # {} THEN {"any"} ELSE {})
Infer(S) == IF Cardinality(Seen(S)) = 1 THEN CHOOSE t \in Seen(S) : TRUE ELSE "any"

\* which native Python values Table Schema's cast accepts for a declared type (null always)
Admits(t) == CASE t = "string" -> {"str"} [] t = "boolean" -> {"bool"} [] t = "integer" -> {"int"}
               [] t = "number" -> {"float", "dec", "int"} [] t = "array" -> {"list"} [] t = "object" -> {"dict"}
               [] t = "datetime" -> {"datetime"} [] t = "date" -> {"date"}
               [] t = "any" -> Classes
VARIABLE col
Init == col \in (SUBSET Classes) \ {{}}
Next == UNCHANGED col
Spec == Init /\ [][Next]_col
\* C02 for a freshly inferred column: every value is null or valid for the declared type
InferredTypeAdmitsValues == col \subseteq (Admits(Infer(col)) \cup {"none"})
\* the only columns the pinned classifier gets wrong: a known class next to an unknown one
PinnedWrongOnlyWhenMixedWithUnknown ==
   (~(col \subseteq (Admits(Infer(col)) \cup {"none"}))) => (col \cap Unknown # {} /\ Cardinality({TypeOfClass(c) : c \in (col \cap Known)}) = 1)
Export == Cardinality(col) <= 3 => PrintT(<<"CASE", ToJson([col |-> col, type |-> Infer(col)])>>)
=============================================================================
