------------------------------- MODULE SubFlow -------------------------------
(***************************************************************************)
(* A Flow consumed by ANOTHER Flow through load((descriptor, res_iter)):   *)
(* the consumer pulls the producer's iterator of resource iterators.       *)
(* (C05: an observer inside the producer persists the complete stream at   *)
(* its position even when the consumer keeps only some resources; C04: a   *)
(* failure of the producer after its last stream is not swallowed.)        *)
(*                                                                         *)
(* Producer: a pull-driven generator of N resources of R rows each with an *)
(* observer (dumper / checkpoint / finalizer) in it.  The observer writes  *)
(* a resource's data as its rows are pulled, closes the resource's file    *)
(* when the row iterator is exhausted, and commits (descriptor / rename /  *)
(* callback) when the iterator of iterators is asked for one more resource *)
(* AFTER the last one - "EndAll", the final pull.  A producer step may     *)
(* also raise at EndAll (FailsAtEnd).                                      *)
(*                                                                         *)
(* Consumer (load of the pair), one action per pull:                       *)
(*   NextRes    ask for the next resource iterator                         *)
(*   Row        pull one row of the current resource (selected resources)  *)
(*   Skip       an unselected resource: DrainSkipped = TRUE  -> its rows   *)
(*              are pulled and thrown away (the repair, like               *)
(*              delete_resource); FALSE -> it is left unread (pinned)      *)
(*   FinalPull  FinalPullDone = TRUE -> after the last descriptor the      *)
(*              consumer asks once more (the repair); FALSE -> it stops    *)
(*              with the last resource (pinned: the zip over descriptors   *)
(*              and iterators ended on the descriptor side)                *)
(*   limit_rows Limit > 0: the consumer delivers only the first Limit rows *)
(*              of a selected resource; DrainLimited = TRUE -> the rest is *)
(*              pulled and thrown away afterwards (the repair), FALSE ->   *)
(*              the resource is left half read (pinned)                    *)
(*                                                                         *)
(* The same picture holds INSIDE one chain: the consumer is then a later   *)
(* step that stops reading a resource early (a user rows function doing    *)
(* islice / break / return) - no consumer-side repair is possible there,   *)
(* the library does not own that code.  ObserverDrains = TRUE is the       *)
(* repair on the OBSERVER's side: when it is asked for the next resource   *)
(* (or for the end) it first finishes the resource it was writing - it     *)
(* pulls the remaining rows itself.  With it the observer's invariants     *)
(* hold for EVERY consumer (DrainSkipped, DrainLimited = FALSE included).  *)
(***************************************************************************)
EXTENDS Naturals, Sequences, FiniteSets, TLC

CONSTANTS N, R,            \* resources, rows per resource
          Selected,        \* the set of resource indices the consumer keeps
          FinalPullDone, DrainSkipped, FailsAtEnd,
          Limit, DrainLimited,
          ObserverDrains   \* the observer finishes the resource it is writing before it hands out the next one

VARIABLES cur,        \* index of the resource the consumer is at (0 before the first, N + 1 after the final pull)
          pulled,     \* pulled[i]: rows of resource i pulled through the producer so far
          closed,     \* closed[i]: the observer has seen the end of resource i and closed its file
          committed,  \* the observer has committed (descriptor written / checkpoint renamed / finalizer called)
          failed,     \* the producer's failure at EndAll has reached the consumer
          done        \* the consumer has finished
vars == <<cur, pulled, closed, committed, failed, done>>

Init == cur = 0 /\ pulled = [i \in 1..N |-> 0] /\ closed = [i \in 1..N |-> FALSE] /\ committed = FALSE /\ failed = FALSE /\ done = FALSE

\* asking the producer for the next resource: it first finishes the previous one ONLY IF that one was read to its end -
\* a generator that was left suspended in the middle is simply abandoned
\* (ObserverDrains) leaving a resource makes the observer finish it
Finished(p) == IF ObserverDrains /\ cur \in 1..N THEN [p EXCEPT ![cur] = R] ELSE p
Closed(c) == IF ObserverDrains /\ cur \in 1..N THEN [c EXCEPT ![cur] = TRUE] ELSE c
NextRes == /\ ~done /\ cur < N
           /\ cur' = cur + 1 /\ pulled' = Finished(pulled) /\ closed' = Closed(closed)
           /\ UNCHANGED <<committed, failed, done>>
Wanted == IF Limit > 0 /\ Limit < R THEN Limit ELSE R
Row == /\ ~done /\ cur \in 1..N /\ cur \in Selected /\ pulled[cur] < Wanted
       /\ pulled' = [pulled EXCEPT ![cur] = @ + 1]
       /\ UNCHANGED <<cur, closed, committed, failed, done>>
\* the row iterator of the current resource is exhausted: the observer closes that resource's file
EndRes == /\ ~done /\ cur \in 1..N /\ pulled[cur] = R /\ ~closed[cur]
          /\ closed' = [closed EXCEPT ![cur] = TRUE] /\ UNCHANGED <<cur, pulled, committed, failed, done>>
DrainRest == /\ ~done /\ cur \in 1..N /\ cur \in Selected /\ DrainLimited /\ pulled[cur] = Wanted /\ Wanted < R
             /\ pulled' = [pulled EXCEPT ![cur] = R]
             /\ UNCHANGED <<cur, closed, committed, failed, done>>
Skip == /\ ~done /\ cur \in 1..N /\ cur \notin Selected /\ DrainSkipped /\ pulled[cur] < R
        /\ pulled' = [pulled EXCEPT ![cur] = R]                 \* drained in one go
        /\ UNCHANGED <<cur, closed, committed, failed, done>>
ReadyToLeave == cur = 0 \/ (cur \in 1..N /\ (IF cur \in Selected THEN (IF Wanted < R /\ ~DrainLimited THEN pulled[cur] = Wanted ELSE closed[cur])
                                               ELSE (IF DrainSkipped THEN closed[cur] ELSE TRUE)))
FinalPull == /\ ~done /\ cur = N /\ ReadyToLeave /\ FinalPullDone
             /\ cur' = N + 1
             /\ IF FailsAtEnd THEN failed' = TRUE /\ UNCHANGED committed ELSE committed' = TRUE /\ UNCHANGED failed
             /\ done' = TRUE /\ pulled' = Finished(pulled) /\ closed' = Closed(closed)
StopShort == /\ ~done /\ cur = N /\ ReadyToLeave /\ ~FinalPullDone
             /\ done' = TRUE /\ UNCHANGED <<cur, pulled, closed, committed, failed>>
Advance == NextRes /\ ReadyToLeave
Next == Advance \/ Row \/ EndRes \/ Skip \/ DrainRest \/ FinalPull \/ StopShort
Spec == Init /\ [][Next]_vars /\ WF_vars(Next)

\* C05: once the consumer is done and nothing failed, the observer in the producer has committed ...
UpstreamCompletes == (done /\ ~FailsAtEnd) => committed
\* ... and what it committed is the full stream: every resource was seen to its end
ObserverSawAll == committed => \A i \in 1..N : pulled[i] = R /\ closed[i]
\* C04: a producer failing after its last stream fails the consuming run
FailureSurfaces == (done /\ FailsAtEnd) => failed
\* never the worst of both: a commit that describes resources nobody read
NoCommitOfUnread == committed => \A i \in 1..N : closed[i]
Termination == <>done
=============================================================================
