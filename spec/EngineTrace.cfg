SPECIFICATION TraceSpec
CONSTANTS MaxLen = 8
 Sample = 2
 Ahead = 100
 SwallowCast = FALSE
 SrcRows <- SrcRowsSmall
 Kinds = {"src", "map", "filter", "del", "obs", "sort", "fin", "fault"}
CONSTRAINT Verdict
INVARIANT NoDeadlock
CHECK_DEADLOCK FALSE
