------------------------------- MODULE Missing -------------------------------
(***************************************************************************)
(* Nulls and the schema's missingValues in the file dumpers (C03: "each    *)
(* written data file decodes to those values using nothing but the         *)
(* dialect, format and missing-value properties recorded in the written    *)
(* descriptor").                                                           *)
(*                                                                         *)
(* A cell is Null or a text.  M is the sequence of missing values the      *)
(* written descriptor records (the resource's own missingValues; Table     *)
(* Schema's default is <<"">>).  A reader that knows only the descriptor   *)
(* maps a lexical cell to Null iff it is one of M.                         *)
(*                                                                         *)
(* Writer: NullAs = "empty" is the pinned code - a null is always written  *)
(* as the empty cell; NullAs = "declared" is the repair (fix: commit) - the *)
(* empty cell when M contains it, else the first declared missing value.   *)
(* Texts that are themselves missing values never reach the writer as      *)
(* non-null cells (the dumper's own validator has already nulled them).    *)
(***************************************************************************)
EXTENDS Naturals, Sequences, FiniteSets, TLC, Json

CONSTANT NullAs

Null == "<null>"          \* (a string outside Texts: TLC compares only like with like)
Texts == {"", "NA", "-", "x"}
MVs == {<<"">>, <<"NA">>, <<"", "NA">>, <<"NA", "-">>, <<"-", "">>}      \* non-empty: with no missing value at all a null has no lexical form
InM(t, M) == \E i \in DOMAIN M : M[i] = t
NullText(M) == IF NullAs = "empty" \/ InM("", M) THEN "" ELSE M[1]
Write(c, M) == IF c = Null THEN NullText(M) ELSE c
Read(t, M) == IF InM(t, M) THEN Null ELSE t

VARIABLES M, cell
Init == /\ M \in MVs
        /\ cell \in ({Null} \cup {t \in Texts : ~InM(t, M)})       \* what can enter the writer
Next == UNCHANGED <<M, cell>>
Spec == Init /\ [][Next]_<<M, cell>>
\* C03 for one cell: what a descriptor-only reader gets back is what entered the writer
CellRoundTrip == Read(Write(cell, M), M) = cell
Export == PrintT(<<"CASE", ToJson([mv |-> M, null_as |-> NullText(M)])>>)
=============================================================================
