SPECIFICATION Spec
CONSTANTS MaxRes = 3
INVARIANT DescriptorLast
INVARIANT NoEarlyDescriptor
CHECK_DEADLOCK FALSE
