------------------------------ MODULE DumpStats ------------------------------
(***************************************************************************)
(* The statistics a file dumper records (C09).  A dump of n resources:     *)
(* resource i gets a data file of size[i] bytes holding rows[i] data rows; *)
(* the dumper keeps per-resource counters (bytes, rows, hash) and package  *)
(* totals in the descriptor it writes, and returns stats.                  *)
(* The incoming descriptor may ALREADY carry counters (a second dumper in  *)
(* the same flow, a re-dump of a loaded package): in[i], inTotal.          *)
(*                                                                         *)
(* Accumulate = TRUE is how the pinned tree kept them (inc_attr on whatever*)
(* the incoming descriptor holds); FALSE = computed from scratch.          *)
(* DescInStats = TRUE: the size of datapackage.json is added to the bytes  *)
(* total AFTER the descriptor was written, so only stats (and the returned *)
(* package) see it - kept as the code does it, see known finding           *)
(* C09-stats-bytes-include-descriptor.                                     *)
(***************************************************************************)
EXTENDS Naturals, Sequences, FiniteSets, TLC

CONSTANTS MaxRes, Sizes, RowCounts, InVals, Accumulate, DescInStats, DescSize

VARIABLES n, size, rows, inB, inR, inTB, inTR,   \* the case
          i,                                      \* next resource to dump
          dB, dR,                                 \* per-resource counters in the descriptor being built
          tB, tR,                                 \* package totals in the descriptor being built
          wB, wR, wTB, wTR,                       \* the WRITTEN descriptor (frozen when datapackage.json is written)
          sB, sR,                                 \* stats returned
          phase
vars == <<n, size, rows, inB, inR, inTB, inTR, i, dB, dR, tB, tR, wB, wR, wTB, wTR, sB, sR, phase>>

Init == /\ n \in 1..MaxRes
        /\ size \in [1..n -> Sizes] /\ rows \in [1..n -> RowCounts]
        /\ inB \in [1..n -> InVals] /\ inR \in [1..n -> InVals] /\ inTB \in InVals /\ inTR \in InVals
        /\ i = 1 /\ dB = inB /\ dR = inR /\ tB = inTB /\ tR = inTR
        /\ wB = <<>> /\ wR = <<>> /\ wTB = 0 /\ wTR = 0 /\ sB = 0 /\ sR = 0 /\ phase = "dumping"

Start(v, add) == IF Accumulate THEN v + add ELSE add
\* a data file is finalised: size and row count are recorded
DumpResource == /\ phase = "dumping" /\ i <= n
                /\ dB' = [dB EXCEPT ![i] = Start(@, size[i])]
                /\ dR' = [dR EXCEPT ![i] = Start(@, rows[i])]
                /\ tB' = (IF i = 1 /\ ~Accumulate THEN 0 ELSE tB) + size[i]
                /\ tR' = (IF i = 1 /\ ~Accumulate THEN 0 ELSE tR) + rows[i]
                /\ i' = i + 1
                /\ UNCHANGED <<n, size, rows, inB, inR, inTB, inTR, wB, wR, wTB, wTR, sB, sR, phase>>
WriteDescriptor == /\ phase = "dumping" /\ i = n + 1
                   /\ wB' = dB /\ wR' = dR /\ wTB' = tB /\ wTR' = tR
                   /\ tB' = IF DescInStats THEN tB + DescSize ELSE tB
                   /\ phase' = "written"
                   /\ UNCHANGED <<n, size, rows, inB, inR, inTB, inTR, i, dB, dR, tR, sB, sR>>
PublishStats == /\ phase = "written" /\ sB' = tB /\ sR' = tR /\ phase' = "done"
                /\ UNCHANGED <<n, size, rows, inB, inR, inTB, inTR, i, dB, dR, tB, tR, wB, wR, wTB, wTR>>
Next == DumpResource \/ WriteDescriptor \/ PublishStats
Spec == Init /\ [][Next]_vars

RECURSIVE Sum(_, _)
Sum(f, k) == IF k = 0 THEN 0 ELSE f[k] + Sum(f, k - 1)
\* C09
StatsDescribeBytes == phase = "done" => \A r \in 1..n : wB[r] = size[r] /\ wR[r] = rows[r]
TotalsAreSums == phase = "done" => wTB = Sum(size, n) /\ wTR = Sum(rows, n)
StatsAgreeWithDescriptor == phase = "done" => sB = wTB /\ sR = wTR
=============================================================================
