---------------------------- MODULE ProcValidate ----------------------------
(***************************************************************************)
(* The cast-and-error-policy loop behind set_type, validate, the dumpers'  *)
(* validator, load(cast_strategy='schema') and results() (C14).            *)
(*                                                                         *)
(* A table is a sequence of rows, a row a sequence of CELL CLASSES over    *)
(* the checked fields (in schema order):                                   *)
(*   "nat"  a native valid value (cast returns it unchanged)               *)
(*   "lex"  a valid lexical value that the cast turns into the native one  *)
(*   "bad"  a value the declared type / format / constraint rejects        *)
(*   "nul"  null                                                           *)
(* What a cell looks like afterwards: "nat" (native), "nul", "bad" (left   *)
(* as it was).  Policies: raise, drop, ignore, clear, and custom handlers  *)
(* (4 arguments: one decision per call; 5 arguments: sees the field).      *)
(*                                                                         *)
(* (i) the declarative meaning per policy; (ii) the loop as implemented:   *)
(* one action per cell (cast, handler call on failure) and per row end.    *)
(***************************************************************************)
EXTENDS Integers, Sequences, FiniteSets, TLC, Json

CONSTANTS MaxRows, NFields, Policies

Classes == {"nat", "lex", "bad", "nul"}
Rows == [1..NFields -> Classes]
Tables == UNION {[1..n -> Rows] : n \in 0..MaxRows}

After(c) == IF c \in {"nat", "lex"} THEN "nat" ELSE c          \* a successful cast
HasBad(r) == \E f \in 1..NFields : r[f] = "bad"
Cast(r) == [f \in 1..NFields |-> After(r[f])]
\* custom handlers used by the bounded instance:
\*   custom4: keeps a failing row iff its index is even (decides per call from the row index only)
\*   custom5: keeps the row iff the failing field is the first field, and nulls that field (like clear, for field 1 only)
\*   custom5r: the mirror image - keeps the row iff the failing field is the LAST field and nulls it; a row failing in an
\*            earlier AND in the last field gets "drop" first and "keep" second: one "drop" verdict drops the row
Keep4(i) == i % 2 = 0

\* ------------------ (i) declarative meaning ------------------
\* result = [rows |-> emitted rows, idx |-> their input indices (0-based), raised |-> -1 or index of the offending row,
\*           rfield |-> offending field]
FirstBadRow(t) == IF \E i \in 1..Len(t) : HasBad(t[i]) THEN CHOOSE i \in 1..Len(t) : HasBad(t[i]) /\ \A j \in 1..(i-1) : ~HasBad(t[j]) ELSE 0
FirstBadField(r) == CHOOSE f \in 1..NFields : r[f] = "bad" /\ \A g \in 1..(f-1) : r[g] # "bad"
SelectIdx(t, P(_)) == SelectSeq([i \in 1..Len(t) |-> i], P)
Def(policy, t) ==
  LET emit(idx, fn(_)) == [rows |-> [n \in 1..Len(idx) |-> fn(idx[n])], idx |-> [n \in 1..Len(idx) |-> idx[n] - 1], raised |-> -1, rfield |-> 0]
      all == [i \in 1..Len(t) |-> i]
  IN CASE policy = "raise" ->
            LET b == FirstBadRow(t) IN
            IF b = 0 THEN emit(all, LAMBDA i : Cast(t[i]))
            ELSE [rows |-> [n \in 1..(b-1) |-> Cast(t[n])], idx |-> [n \in 1..(b-1) |-> n - 1], raised |-> b - 1, rfield |-> FirstBadField(t[b])]
       [] policy = "drop"   -> emit(SelectIdx(t, LAMBDA i : ~HasBad(t[i])), LAMBDA i : Cast(t[i]))
       [] policy = "ignore" -> emit(all, LAMBDA i : Cast(t[i]))                              \* "bad" cells stay as they are
       [] policy = "clear"  -> emit(all, LAMBDA i : [f \in 1..NFields |-> IF t[i][f] = "bad" THEN "nul" ELSE After(t[i][f])])
       [] policy = "custom4" -> emit(SelectIdx(t, LAMBDA i : ~HasBad(t[i]) \/ Keep4(i - 1)), LAMBDA i : Cast(t[i]))
       [] policy = "custom5" -> emit(SelectIdx(t, LAMBDA i : \A f \in 2..NFields : t[i][f] # "bad"),
                                     LAMBDA i : [f \in 1..NFields |-> IF f = 1 /\ t[i][f] = "bad" THEN "nul" ELSE After(t[i][f])])
       [] policy = "custom5r" -> emit(SelectIdx(t, LAMBDA i : \A f \in 1..(NFields - 1) : t[i][f] # "bad"),
                                      LAMBDA i : [f \in 1..NFields |-> IF f = NFields /\ t[i][f] = "bad" THEN "nul" ELSE After(t[i][f])])
\* the handler is consulted once per failing cell, in row order then schema order (raise: only the first)
CallsDef(policy, t) ==
  LET RECURSIVE C(_, _)
      C(i, f) == IF i > Len(t) THEN <<>>
                 ELSE IF f > NFields THEN C(i + 1, 1)
                 ELSE IF t[i][f] = "bad" THEN <<<<i - 1, f>>>> \o (IF policy = "raise" THEN <<>> ELSE C(i, f + 1))
                 ELSE C(i, f + 1)
  IN C(1, 1)

\* ------------------ (ii) the loop as implemented ------------------
VARIABLES tbl, policy, i, f, row, okay, out, oidx, calls, raised, rfield, st
vars == <<tbl, policy, i, f, row, okay, out, oidx, calls, raised, rfield, st>>
Init == /\ tbl \in Tables /\ policy \in Policies
        /\ i = 1 /\ f = 1 /\ row = <<>> /\ okay = TRUE /\ out = <<>> /\ oidx = <<>> /\ calls = <<>>
        /\ raised = -1 /\ rfield = 0 /\ st = "run"
CurRow == IF f = 1 THEN tbl[i] ELSE row
Decide(pol, idx, fld) == CASE pol = "drop" -> FALSE [] pol \in {"ignore", "clear"} -> TRUE
                           [] pol = "custom4" -> Keep4(idx) [] pol = "custom5" -> fld = 1 [] pol = "custom5r" -> fld = NFields [] OTHER -> FALSE
Cell == /\ st = "run" /\ i <= Len(tbl) /\ f <= NFields
        /\ LET r == CurRow c == r[f] IN
           IF c # "bad"
           THEN /\ row' = [r EXCEPT ![f] = After(c)] /\ UNCHANGED <<okay, calls, raised, rfield, st>>
           ELSE /\ calls' = Append(calls, <<i - 1, f>>)
                /\ IF policy = "raise"
                   THEN /\ st' = "raised" /\ raised' = i - 1 /\ rfield' = f /\ row' = r /\ UNCHANGED okay
                   ELSE /\ row' = IF policy = "clear" \/ (policy = "custom5" /\ f = 1) \/ (policy = "custom5r" /\ f = NFields) THEN [r EXCEPT ![f] = "nul"] ELSE r
                        /\ okay' = (okay /\ Decide(policy, i - 1, f))
                        /\ UNCHANGED <<raised, rfield, st>>
        /\ f' = f + 1 /\ UNCHANGED <<tbl, policy, i, out, oidx>>
EndRow == /\ st = "run" /\ i <= Len(tbl) /\ f = NFields + 1
          /\ IF okay THEN out' = Append(out, row) /\ oidx' = Append(oidx, i - 1) ELSE UNCHANGED <<out, oidx>>
          /\ i' = i + 1 /\ f' = 1 /\ okay' = TRUE /\ row' = <<>>
          /\ UNCHANGED <<tbl, policy, calls, raised, rfield, st>>
Finish == st = "run" /\ i > Len(tbl) /\ st' = "done" /\ UNCHANGED <<tbl, policy, i, f, row, okay, out, oidx, calls, raised, rfield>>
Next == Cell \/ EndRow \/ Finish
Spec == Init /\ [][Next]_vars

\* C14 at design level: the loop computes the declarative meaning
LoopMeetsDefinition == st \in {"done", "raised"} =>
    LET d == Def(policy, tbl) IN out = d.rows /\ oidx = d.idx /\ raised = d.raised /\ rfield = d.rfield /\ calls = CallsDef(policy, tbl)
\* rows whose values are all valid are never dropped or altered (every policy)
ValidRowsUntouched == st = "done" => \A n \in 1..Len(tbl) : ~HasBad(tbl[n]) =>
                          \E m \in 1..Len(out) : oidx[m] = n - 1 /\ out[m] = Cast(tbl[n])
Export == st \in {"done", "raised"} =>
    PrintT(<<"CASE", ToJson([tbl |-> tbl, policy |-> policy, rows |-> out, idx |-> oidx, raised |-> raised, rfield |-> rfield, calls |-> calls])>>)
=============================================================================
