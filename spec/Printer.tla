------------------------------- MODULE Printer -------------------------------
(***************************************************************************)
(* Which rows printer() shows (processors/printer.py, C05: an observer     *)
(* reports the stream at its position - every resource, and for each the   *)
(* head, samples "from different places in the stream" and the tail, up to *)
(* the very last row).                                                     *)
(*                                                                         *)
(* The code, per row index i = 1..n (x starts at 1):                       *)
(*    if i - x = num + 1 then x := x * num                                 *)
(*    if 0 <= i - x <= num then  the row is printed at once (a "..." line  *)
(*                               first when the previous printed row is    *)
(*                               not i - 1) and the tail buffer is emptied *)
(*    else                       the row enters the tail buffer, which     *)
(*                               keeps the last `last` rows                *)
(* At the end the tail buffer is printed (after a "..." line when it does  *)
(* not continue the printed rows).  `last` defaults to num.                *)
(* A printed line is the row index, or 0 for "...".                        *)
(***************************************************************************)
EXTENDS Integers, Sequences, FiniteSets, TLC, Json

CONSTANTS MaxN, Nums, Lasts        \* Lasts: tail sizes; 0 stands for "not given" (= num)

Eff(num, lst) == IF lst = 0 THEN num ELSE lst
\* one step of the loop
Step(st, i, num, lst) ==
  LET x1 == IF i - st.x = num + 1 THEN st.x * num ELSE st.x IN
  IF 0 <= i - x1 /\ i - x1 <= num
  THEN [x |-> x1, tail |-> <<>>,
        out |-> (IF st.out # <<>> /\ st.out[Len(st.out)] # i - 1 THEN Append(st.out, 0) ELSE st.out) \o <<i>>]
  ELSE [x |-> x1, out |-> st.out,
        tail |-> LET t == Append(st.tail, i) IN IF Len(t) > Eff(num, lst) THEN Tail(t) ELSE t]
RECURSIVE Loop(_, _, _, _, _)
Loop(st, i, n, num, lst) == IF i > n THEN st ELSE Loop(Step(st, i, num, lst), i + 1, n, num, lst)
Printed(n, num, lst) ==
  LET fin == Loop([x |-> 1, out |-> <<>>, tail |-> <<>>], 1, n, num, lst) IN
  (IF fin.out # <<>> /\ fin.tail # <<>> /\ fin.out[Len(fin.out)] # fin.tail[1] - 1 THEN Append(fin.out, 0) ELSE fin.out) \o fin.tail

VARIABLES n, num, lst, P          \* P: what is printed (computed once per case)
Init == n \in 0..MaxN /\ num \in Nums /\ lst \in Lasts /\ P = Printed(n, num, lst)
Next == UNCHANGED <<n, num, lst, P>>
Spec == Init /\ [][Next]_<<n, num, lst, P>>

Rows == SelectSeq(P, LAMBDA v : v # 0)
\* the report reaches the end of the stream: the last printed row is the last row
EndsAtLastRow == n > 0 => (P # <<>> /\ P[Len(P)] = n)
\* ... and starts at its beginning: the head 1 .. min(n, num + 1)
StartsAtFirstRow == \A i \in 1..n : i <= num + 1 => \E k \in DOMAIN P : P[k] = i
\* printed rows are rows of the stream, each at most once, in stream order
InOrder == \A k \in DOMAIN Rows : /\ Rows[k] \in 1..n
                                  /\ (k > 1 => Rows[k - 1] < Rows[k])
\* a "..." line stands exactly where rows were left out
EllipsisExactlyAtGaps ==
  /\ \A k \in DOMAIN P : P[k] = 0 => (k > 1 /\ k < Len(P) /\ P[k - 1] # 0 /\ P[k + 1] # 0 /\ P[k + 1] > P[k - 1] + 1)
  /\ \A k \in 1..(Len(P) - 1) : (P[k] # 0 /\ P[k + 1] # 0) => P[k + 1] = P[k] + 1
\* the tail: the last min(last, ...) rows are there whenever they do not fall into a sample window
ShowsTail == \A i \in 1..n : i > n - 1 => \E k \in DOMAIN P : P[k] = i
\* nothing is printed for an empty resource (but its header is)
EmptyPrintsNothing == n = 0 => P = <<>>
Export == PrintT(<<"CASE", ToJson([n |-> n, num |-> num, last |-> lst, printed |-> P])>>)
=============================================================================
