--------------------------------- MODULE Dump ---------------------------------
(***************************************************************************)
(* dump_to_path into a fresh directory, as a sequence of file operations,  *)
(* with a kill possible between any two of them (C19).                     *)
(*                                                                         *)
(* Per resource r, when the consumer reaches it:                           *)
(*   TmpOpen(r)    NamedTemporaryFile (outside the output directory)       *)
(*   TmpWrite(r)*  header / rows / closing bracket into the temp file      *)
(*   TmpClose(r)   size and md5 taken from the temp file, then closed      *)
(*   CopyCreate(r) shutil.copy is NOT atomic: the destination is created   *)
(*   CopyChunk(r)* ... filled ...                                          *)
(*   CopyClose(r)  ... and closed: only now the data file is complete      *)
(*   Unlink(r)     temp file removed                                       *)
(* After the LAST resource the descriptor goes the same way (temp file,    *)
(* non-atomic copy to datapackage.json).                                   *)
(* Output directory: data[r], desc in {"absent", "partial", "complete"}.   *)
(***************************************************************************)
EXTENDS Naturals, Sequences, FiniteSets, TLC

CONSTANTS MaxRes

VARIABLES nres,    \* number of resources of this dump
          cur,     \* resource being written (nres + 1 = the descriptor)
          step,    \* "idle" | "tmp" | "closed" | "copying" | "copied" | "done" | "killed"
          data,    \* data[r]: state of the r-th data file in the output directory
          desc     \* state of datapackage.json
vars == <<nres, cur, step, data, desc>>

Init == /\ nres \in 0..MaxRes /\ cur = 1 /\ step = "idle"
        /\ data = [r \in 1..nres |-> "absent"] /\ desc = "absent"

IsDesc == cur = nres + 1
TmpOpen == step = "idle" /\ cur <= nres + 1 /\ step' = "tmp" /\ UNCHANGED <<nres, cur, data, desc>>
TmpWrite == step = "tmp" /\ UNCHANGED vars
TmpClose == step = "tmp" /\ step' = "closed" /\ UNCHANGED <<nres, cur, data, desc>>
CopyCreate == /\ step = "closed" /\ step' = "copying"
              /\ IF IsDesc THEN desc' = "partial" /\ UNCHANGED data
                           ELSE data' = [data EXCEPT ![cur] = "partial"] /\ UNCHANGED desc
              /\ UNCHANGED <<nres, cur>>
CopyChunk == step = "copying" /\ UNCHANGED vars
CopyClose == /\ step = "copying" /\ step' = "copied"
             /\ IF IsDesc THEN desc' = "complete" /\ UNCHANGED data
                          ELSE data' = [data EXCEPT ![cur] = "complete"] /\ UNCHANGED desc
             /\ UNCHANGED <<nres, cur>>
Unlink == /\ step = "copied"
          /\ IF IsDesc THEN step' = "done" /\ UNCHANGED cur ELSE step' = "idle" /\ cur' = cur + 1
          /\ UNCHANGED <<nres, data, desc>>
Kill == step \notin {"done", "killed"} /\ step' = "killed" /\ UNCHANGED <<nres, cur, data, desc>>

Next == TmpOpen \/ TmpWrite \/ TmpClose \/ CopyCreate \/ CopyChunk \/ CopyClose \/ Unlink \/ Kill
Spec == Init /\ [][Next]_vars

\* C19: a parseable datapackage.json implies every data file is completely there
DescriptorLast == desc = "complete" => \A r \in 1..nres : data[r] = "complete"
\* while any data file is incomplete there is not even a partial descriptor
NoEarlyDescriptor == desc # "absent" => \A r \in 1..nres : data[r] = "complete"
=============================================================================
