----------------------------- MODULE MC_Selector -----------------------------
(***************************************************************************)
(* Bounded instance for C10: every selector form against every package of  *)
(* 0..MaxRes distinct names from a catalogue whose names are prefixes of    *)
(* one another and contain the metacharacter '.', applied by three abstract *)
(* step kinds (touch = any processor that edits the selected resources in   *)
(* place, delete, concat).  The state is the package as (name, mark) pairs; *)
(* mark counts how often a resource was edited.                             *)
(***************************************************************************)
EXTENDS Selector, TLC, Json, SequencesExt

CONSTANTS MaxRes, MaxDepth

A == "a"  B == "b"  Dt == "."
Names == { <<A>>, <<A, B>>, <<A, B, B>>, <<B>>, <<A, Dt, B>>, <<A, A, B>> }
ConcatName == <<B, A>>           \* name of the concatenation target (not in Names)

Lit(c) == [t |-> "lit", c |-> c]
Dot == [t |-> "dot"]
Cat(x, y) == [t |-> "cat", l |-> x, r |-> y]
Alt(x, y) == [t |-> "alt", l |-> x, r |-> y]
Star(x) == [t |-> "star", l |-> x]
Leaves == {Lit(A), Lit(B), Dot}
Size2 == {Star(x) : x \in Leaves}
Size3 == {Cat(x, y) : x \in Leaves, y \in Leaves} \cup {Alt(x, y) : x \in Leaves, y \in Leaves}
         \cup {Star(x) : x \in Size2}
Extra == { Cat(Lit(A), Cat(Dot, Lit(B))),        \* a.b   (also matches aab)
           Alt(Lit(A), Cat(Lit(A), Lit(B))),     \* a|ab
           Alt(Cat(Lit(A), Lit(B)), Lit(A)),     \* ab|a
           Cat(Lit(A), Star(Dot)),               \* a.*
           Cat(Star(Dot), Lit(B)),               \* .*b
           Cat(Alt(Lit(A), Lit(B)), Lit(B)),     \* (a|b)b
           Alt(Lit(B), Alt(Lit(A), Cat(Lit(A), Cat(Lit(B), Lit(B))))),  \* b|a|abb
           Cat(Lit(A), Cat(Lit(B), Star(Lit(B)))) }  \* abb*
Regexes == Leaves \cup Size2 \cup Size3 \cup Extra

SeqsOfDistinct(S, n) == {s \in UNION {[1..m -> S] : m \in 0..n} : \A i, j \in DOMAIN s : i # j => s[i] # s[j]}
ListNames == Names \cup {ConcatName}
Selectors == {[k |-> "none"]}
             \cup {[k |-> "re", re |-> r] : r \in Regexes}
             \cup {[k |-> "list", ns |-> l] : l \in SeqsOfDistinct(ListNames, 2)}
             \cup {[k |-> "int", i |-> n] : n \in -4..3}
Kinds == {"touch", "delete", "concat", "load"}   \* load = load((descriptor, iterators), resources=sel): only the selected survive

VARIABLES pkg,    \* the package: sequence of [name, mark]
          n,      \* number of steps taken
          last    \* the step that produced pkg: [pre, kind, sel]  (pre = package before it)
vars == <<pkg, n, last>>

NamesOf(p) == [i \in DOMAIN p |-> p[i].name]
NoStep == [pre |-> <<>>, kind |-> "init", sel |-> [k |-> "none"]]

Init == /\ pkg \in {[i \in DOMAIN s |-> [name |-> s[i], mark |-> 0]] : s \in SeqsOfDistinct(Names, MaxRes)}
        /\ n = 0
        /\ last = NoStep

Consecutive(S) == S # {} /\ \A x, y \in S : \A z \in x..y : z \in S
MinOf(S) == CHOOSE x \in S : \A y \in S : x <= y

Enabled(kind, sel, p) ==
  /\ InRange(sel, NamesOf(p))
  /\ kind = "concat" => /\ Consecutive(Selected(sel, NamesOf(p)))
                        /\ \A i \in DOMAIN p : p[i].name # ConcatName

Keep(p, S) == LET idx == SetToSortSeq({i \in DOMAIN p : i \in S}, <) IN [j \in DOMAIN idx |-> p[idx[j]]]

Apply(kind, sel, p) ==
  LET S == Selected(sel, NamesOf(p)) IN
  CASE kind = "touch"  -> [i \in DOMAIN p |-> IF i \in S THEN [p[i] EXCEPT !.mark = @ + 1] ELSE p[i]]
    [] kind = "delete" -> Keep(p, DOMAIN p \ S)
    [] kind = "load"   -> Keep(p, S)
    [] kind = "concat" -> LET f == MinOf(S)
                              before == Keep(p, {i \in DOMAIN p : i < f})
                              after  == Keep(p, {i \in DOMAIN p : i > f /\ i \notin S})
                          IN before \o <<[name |-> ConcatName, mark |-> 100]>> \o after

Step(kind, sel) == /\ n < MaxDepth
                   /\ Enabled(kind, sel, pkg)
                   /\ pkg' = Apply(kind, sel, pkg)
                   /\ n' = n + 1
                   /\ last' = [pre |-> pkg, kind |-> kind, sel |-> sel]
Next == \E kind \in Kinds, sel \in Selectors : Step(kind, sel)
Spec == Init /\ [][Next]_vars

----------------------------------------------------------------------------
\* properties of the design, evaluated on every step (a state records the step that led to it)
UniqueNames == \A i, j \in DOMAIN pkg : i # j => pkg[i].name # pkg[j].name

\* the selector forms mean what the statement says
FormsOK == n > 0 =>
   LET sel == last.sel  ns == NamesOf(last.pre)  S == Selected(sel, ns) IN
   /\ S \subseteq DOMAIN ns
   /\ sel.k = "none" => S = DOMAIN ns
   /\ sel.k = "int"  => Cardinality(S) = 1 /\ (sel.i >= 0 => S = {sel.i + 1}) /\ (sel.i < 0 => S = {Len(ns) + sel.i + 1})
   /\ sel.k = "list" => \A p \in DOMAIN ns : (p \in S) <=> (\E q \in DOMAIN sel.ns : sel.ns[q] = ns[p])
   /\ sel.k = "re"   => \A p \in DOMAIN ns : (p \in S) <=> FullMatch(sel.re, ns[p])

\* the frame condition: a step changes only selected resources; the others keep content and relative order
Untouched(p, q, S) ==
   LET rest == Keep(p, DOMAIN p \ S)
       restq == Keep(q, {i \in DOMAIN q : \E j \in DOMAIN rest : rest[j] = q[i]}) IN rest = restq
Frame == n > 0 => IF last.kind = "load"
                   THEN pkg = Keep(last.pre, Selected(last.sel, NamesOf(last.pre)))      \* selected resources arrive unchanged, nothing else
                   ELSE Untouched(last.pre, pkg, Selected(last.sel, NamesOf(last.pre)))
\* and it does change every selected one
Effect == (n > 0 /\ last.kind # "load") => \A i \in Selected(last.sel, NamesOf(last.pre)) : \A j \in DOMAIN pkg : pkg[j] # last.pre[i]

----------------------------------------------------------------------------
\* case export for replay: one line per first step
Export == n = 1 =>
        PrintT(<<"CASE", ToJson([names |-> NamesOf(last.pre), sel |-> last.sel, kind |-> last.kind,
                                 selected |-> SetToSortSeq(Selected(last.sel, NamesOf(last.pre)), <),
                                 ungrouped |-> SetToSortSeq(SelectedUngrouped(last.sel, NamesOf(last.pre)), <),
                                 post |-> pkg])>>)
=============================================================================
