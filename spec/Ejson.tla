-------------------------------- MODULE Ejson --------------------------------
(***************************************************************************)
(* The extended-JSON cell codec of checkpoints (stream / unstream).        *)
(* A typed cell is a record                                                *)
(*   [kind, y, m, d, h, mi, s, us, aware, off, txt]                        *)
(* kind: "null" "int" "float" "str" "bool" "dec" "date" "time" "dt" "dur"  *)
(* ("float": a plain JSON number inside an array / object / any cell);     *)
(* off = UTC offset in seconds (may be negative), txt = code points of the *)
(* text form for int/str/dec/dur (unused fields are 0 / <<>>).             *)
(* What is written for it:                                                 *)
(*   [tag, txt, has_ofs, ofs, has_tz]   tag = "plain" or the type{...} key *)
(* OffsetAs = "seconds": the encoder stores timedelta.seconds (0..86399),  *)
(*   the pinned behaviour; "total": the signed total number of seconds.    *)
(* KeepMicro = FALSE: the text forms have second precision (the pinned     *)
(*   behaviour); TRUE: a 6-digit fraction is written when it is not zero.  *)
(* Tag objects.  The typed values are written as one-key JSON objects      *)
(* {"type{date}": "2020-01-02"}; ordinary dicts are written as they are,   *)
(* with no escaping.  A USER dict that happens to have that shape (kind    *)
(* "tagobj-date" / "tagobj-time" / "tagobj-dec": a dict inside an object,  *)
(* array or any cell) is therefore written exactly like the typed value    *)
(* and read back AS the typed value: the encoding is not injective.  TLC   *)
(* refutes RoundTripAll on Catalogue \cup TagObjects and proves that tag    *)
(* objects are the only cells of the catalogue that do not round-trip.     *)
(***************************************************************************)
EXTENDS Integers, Sequences, FiniteSets, TLC

CONSTANTS OffsetAs, KeepMicro,
          AwareBy        \* how the decoder tells a zone-aware datetime: "name" (pinned: by the zone NAME that was written - a zone
                         \* without a name, e.g. dateutil's tzoffset(None, 3600), comes back naive: another instant) | "offset" (repaired)

Pad(n, w) == \* decimal digits of n as code points, zero padded to width w (n < 10^w)
  LET RECURSIVE P(_, _)
      P(x, k) == IF k = 0 THEN <<>> ELSE Append(P(x \div 10, k - 1), 48 + (x % 10))
  IN P(n, w)
Num(s, a, b) == LET RECURSIVE F(_, _) F(i, acc) == IF i > b THEN acc ELSE F(i + 1, acc * 10 + (s[i] - 48)) IN F(a, 0)
Dash == 45  Colon == 58  TeeCh == 84

DateTxt(v) == Pad(v.y, 4) \o <<Dash>> \o Pad(v.m, 2) \o <<Dash>> \o Pad(v.d, 2)
Dot == 46
\* the fraction is written only when there is one (6 digits)
TimeTxt(v) == Pad(v.h, 2) \o <<Colon>> \o Pad(v.mi, 2) \o <<Colon>> \o Pad(v.s, 2)
              \o (IF KeepMicro /\ v.us # 0 THEN <<Dot>> \o Pad(v.us, 6) ELSE <<>>)
Frac(s, from) == IF Len(s) >= from + 6 /\ s[from] = Dot THEN Num(s, from + 1, from + 6) ELSE 0

OffsetField(off) == IF OffsetAs = "seconds" THEN (off + 86400) % 86400 ELSE off

IsTagObj(v) == v.kind \in {"tagobj-date", "tagobj-time", "tagobj-dec"}
\* the typed value a tag object is mistaken for
Base(v) == CASE v.kind = "tagobj-date" -> [v EXCEPT !.kind = "date"]
             [] v.kind = "tagobj-time" -> [v EXCEPT !.kind = "time"]
             [] v.kind = "tagobj-dec" -> [v EXCEPT !.kind = "dec"]
             [] OTHER -> v

EncodeTyped(v) ==
  CASE v.kind = "date" -> [tag |-> "type{date}", txt |-> DateTxt(v), has_ofs |-> FALSE, ofs |-> 0, has_tz |-> FALSE]
    [] v.kind = "time" -> [tag |-> "type{time}", txt |-> TimeTxt(v), has_ofs |-> FALSE, ofs |-> 0, has_tz |-> FALSE]
    [] v.kind = "dt"   -> [tag |-> "type{datetime}", txt |-> DateTxt(v) \o <<TeeCh>> \o TimeTxt(v),
                           has_ofs |-> v.aware, ofs |-> IF v.aware THEN OffsetField(v.off) ELSE 0, has_tz |-> v.aware /\ v.named]
    [] v.kind = "dec"  -> [tag |-> "type{decimal}", txt |-> v.txt, has_ofs |-> FALSE, ofs |-> 0, has_tz |-> FALSE]
    [] v.kind = "dur"  -> [tag |-> "type{duration}", txt |-> v.txt, has_ofs |-> FALSE, ofs |-> 0, has_tz |-> FALSE]
    [] OTHER           -> [tag |-> "plain", txt |-> v.txt, has_ofs |-> FALSE, ofs |-> 0, has_tz |-> FALSE]
\* a user dict is written as it is: one that looks like a typed value gives the very same bytes
Encode(v) == EncodeTyped(Base(v))

Zero == [kind |-> "null", y |-> 0, m |-> 0, d |-> 0, h |-> 0, mi |-> 0, s |-> 0, us |-> 0, aware |-> FALSE, off |-> 0, txt |-> <<>>, named |-> FALSE]
\* a zone's NAME is not part of the value (two zones of one offset give the same instants): values are compared without it
Unname(x) == [x EXCEPT !.named = FALSE]
IsAware(w) == IF AwareBy = "name" THEN w.has_tz ELSE w.has_ofs
Decode(w, kind) ==
  CASE w.tag = "type{date}" -> [Zero EXCEPT !.kind = "date", !.y = Num(w.txt, 1, 4), !.m = Num(w.txt, 6, 7), !.d = Num(w.txt, 9, 10)]
    [] w.tag = "type{time}" -> [Zero EXCEPT !.kind = "time", !.h = Num(w.txt, 1, 2), !.mi = Num(w.txt, 4, 5), !.s = Num(w.txt, 7, 8), !.us = Frac(w.txt, 9)]
    [] w.tag = "type{datetime}" ->
         [Zero EXCEPT !.kind = "dt", !.y = Num(w.txt, 1, 4), !.m = Num(w.txt, 6, 7), !.d = Num(w.txt, 9, 10),
                      !.h = Num(w.txt, 12, 13), !.mi = Num(w.txt, 15, 16), !.s = Num(w.txt, 18, 19), !.us = Frac(w.txt, 20),
                      !.aware = IsAware(w), !.off = IF IsAware(w) THEN w.ofs ELSE 0, !.named = w.has_tz]
    [] w.tag = "type{decimal}" -> [Zero EXCEPT !.kind = "dec", !.txt = w.txt]
    [] w.tag = "type{duration}" -> [Zero EXCEPT !.kind = "dur", !.txt = w.txt]
    [] OTHER -> [Zero EXCEPT !.kind = kind, !.txt = w.txt]

RoundTrip(v) == Unname(Decode(Encode(v), v.kind)) = Unname(v)
\* what the pinned codec returns for a value: sub-second part dropped, offset through the unsigned seconds field
Deviation(v) == LET a == IF KeepMicro THEN Base(v) ELSE [Base(v) EXCEPT !.us = 0]
                IN IF v.kind = "dt" /\ v.aware THEN [a EXCEPT !.off = OffsetField(v.off)] ELSE a

\* the boundary catalogue the model checks (MC instance)
Offsets == {-43200, -18000, -3600, -60, 0, 60, 19800, 50400}
DT(y, m, d, h, mi, s, us, aw, off) == [Zero EXCEPT !.kind = "dt", !.y = y, !.m = m, !.d = d, !.h = h, !.mi = mi, !.s = s, !.us = us, !.aware = aw, !.off = off, !.named = aw]
Catalogue ==
  {DT(y, 1, 2, h, 4, 5, us, TRUE, off) : y \in {1, 1999, 9999}, h \in {0, 23}, us \in {0, 1}, off \in Offsets}
  \cup {DT(y, 12, 31, 23, 59, 59, us, FALSE, 0) : y \in {1, 2024}, us \in {0, 999999}}
  \cup {[DT(2020, 1, 2, 3, 4, 5, 0, TRUE, off) EXCEPT !.named = FALSE] : off \in Offsets}            \* zones that have no name
  \cup {[Zero EXCEPT !.kind = "date", !.y = y, !.m = 2, !.d = 29] : y \in {4, 2000, 9996}}
  \cup {[Zero EXCEPT !.kind = "time", !.h = h, !.mi = 0, !.s = 59, !.us = us] : h \in {0, 12, 23}, us \in {0, 500000}}
TagObjects == {[Zero EXCEPT !.kind = "tagobj-date", !.y = 2020, !.m = 1, !.d = 2],
               [Zero EXCEPT !.kind = "tagobj-time", !.h = 1, !.mi = 2, !.s = 3],
               [Zero EXCEPT !.kind = "tagobj-dec", !.txt = <<49, 46, 53>>]}
SecondPrecision(v) == v.us = 0
CONSTANT WithTagObjects
VARIABLE v
Init == v \in (IF WithTagObjects THEN Catalogue \cup TagObjects ELSE Catalogue)
Next == UNCHANGED v
Spec == Init /\ [][Next]_v
\* C07 (value part): what comes back from a checkpoint is what went in
RoundTripAll == RoundTrip(v)
RoundTripSeconds == SecondPrecision(v) => RoundTrip(v)
RoundTripUnlessTagObject == ~IsTagObj(v) => RoundTrip(v)
TagObjectComesBackTyped == IsTagObj(v) => Unname(Decode(Encode(v), v.kind)) = Unname(Base(v))
=============================================================================
