--------------------------- MODULE DumpStatsTrace ---------------------------
(***************************************************************************)
(* Recorded dumps against DumpStats.tla.  One line = one real dump:        *)
(*   res[i]  per resource: path_exists, and -1 / "" when nothing recorded: *)
(*           rec_bytes, rec_rows, rec_hash; measured from the written file *)
(*           (in the directory or inside the zip) by the harness: size,    *)
(*           md5, datarows; which counters are enabled                     *)
(*   inB/inR incoming per-resource counters (0 when none), inTB/inTR totals*)
(*   tot     written package totals (rec_bytes, rec_rows), enabled flags   *)
(*   stats   what process() returned (bytes, rows, hash), whash = hash in  *)
(*           the written descriptor, desc_size = size of datapackage.json  *)
(*   twice_same  a second dump of the same data recorded identical hashes  *)
(* The model is run on the measured sizes/rows and the incoming counters;  *)
(* its written counters must be the recorded ones, and the C09 clauses are *)
(* evaluated on the recorded facts themselves.                             *)
(***************************************************************************)
EXTENDS DumpStats, Json, IOUtils, Integers

Runs == ndJsonDeserialize(IOEnv.TRACE_FILE)
VARIABLE t
tvars == <<vars, t>>
T == Runs[t]

TraceInit == /\ t \in 1..Len(Runs)
             /\ n = Len(Runs[t].res)
             /\ size = [r \in 1..Len(Runs[t].res) |-> Runs[t].res[r].size]
             /\ rows = [r \in 1..Len(Runs[t].res) |-> Runs[t].res[r].datarows]
             /\ inB = Runs[t].inB /\ inR = Runs[t].inR /\ inTB = Runs[t].inTB /\ inTR = Runs[t].inTR
             /\ i = 1 /\ dB = inB /\ dR = inR /\ tB = inTB /\ tR = inTR
             /\ wB = <<>> /\ wR = <<>> /\ wTB = 0 /\ wTR = 0 /\ sB = 0 /\ sR = 0 /\ phase = "dumping"
TraceNext == Next /\ UNCHANGED t
TraceSpec == TraceInit /\ [][TraceNext]_tvars

\* C09 clauses on the recorded facts
PathOK == \A r \in 1..n : T.res[r].path_exists
BytesOK == \A r \in 1..n : T.res[r].bytes_enabled => T.res[r].rec_bytes = T.res[r].size
HashOK == \A r \in 1..n : T.res[r].hash_enabled => T.res[r].rec_hash = T.res[r].md5
RowsOK == \A r \in 1..n : T.res[r].rows_enabled => T.res[r].rec_rows = T.res[r].datarows
TotalsOK == /\ T.tot.bytes_enabled => T.tot.rec_bytes = Sum(size, n)
            /\ T.tot.rows_enabled => T.tot.rec_rows = Sum(rows, n)
StatsAgree == /\ T.tot.rows_enabled => T.stats.rows = T.tot.rec_rows
              /\ T.tot.bytes_enabled => T.stats.bytes = T.tot.rec_bytes
              /\ T.tot.hash_enabled => (T.stats.hash = T.whash /\ T.whash # "")
\* the only listed deviation: the size of datapackage.json is added to the bytes total after the file is written
StatsAgreeModuloDescriptor ==
              /\ T.tot.rows_enabled => T.stats.rows = T.tot.rec_rows
              /\ T.tot.bytes_enabled => T.stats.bytes = T.tot.rec_bytes + T.desc_size
              /\ T.tot.hash_enabled => (T.stats.hash = T.whash /\ T.whash # "")
SameHash == T.twice_same
\* model conformance: the counters the model writes are the recorded ones
ModelEq == /\ \A r \in 1..n : (T.res[r].bytes_enabled => wB[r] = T.res[r].rec_bytes) /\ (T.res[r].rows_enabled => wR[r] = T.res[r].rec_rows)
           /\ T.tot.bytes_enabled => wTB = T.tot.rec_bytes
           /\ T.tot.rows_enabled => wTR = T.tot.rec_rows
Verdict == phase = "done" => PrintT(<<"VERDICT", t, PathOK, BytesOK, HashOK, RowsOK, TotalsOK, StatsAgree, StatsAgreeModuloDescriptor, SameHash, ModelEq>>)
=============================================================================
