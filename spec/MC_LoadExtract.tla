--------------------------- MODULE MC_LoadExtract ---------------------------
(***************************************************************************)
(* The universe of load(..., extract_missing_values=...) cases: tables of  *)
(* 2 string columns a, b and <= 2 rows over the cell texts "", x, NA, -;   *)
(* the missing values given by the option or taken from the schema         *)
(* (override_schema); the source restriction.  Load!ExtractDef is the      *)
(* definition; the properties say that no cell is lost or invented.        *)
(***************************************************************************)
EXTENDS Naturals, Sequences, FiniteSets, TLC, Json
ExtractDef(names, rows, values, source, mv) ==
  [i \in DOMAIN rows |->
     [cells |-> [j \in DOMAIN names |-> IF rows[i][j] \in mv THEN <<"null">> ELSE <<"text", rows[i][j]>>],
      missing |-> {<<names[j], rows[i][j]>> : j \in {k \in DOMAIN names : rows[i][k] \in values /\ (source = {} \/ names[k] \in source)}}]]
Names == <<"a", "b">>
Texts == {"", "x", "NA", "-"}
Rows == UNION {[1..n -> [1..2 -> Texts]] : n \in 0..2}
ValueSets == {{"NA"}, {"", "NA"}, {"-", "NA"}}
Sources == {{}, {"a"}, {"b"}}
VARIABLES rows, values, source, given      \* given: the values come from the option (TRUE) or from the schema's missingValues (FALSE)
Init == rows \in Rows /\ values \in ValueSets /\ source \in Sources /\ given \in BOOLEAN
Next == UNCHANGED <<rows, values, source, given>>
Spec == Init /\ [][Next]_<<rows, values, source, given>>
MV == IF given THEN {""} ELSE values          \* given: the schema keeps its default missing values, the option brings its own
Out == ExtractDef(Names, rows, values, source, MV)
\* one output row per input row; a cell is nulled iff its text is a missing value; the mapping holds exactly those cells (of the source fields)
RowsKept == Len(Out) = Len(rows)
NothingInvented == \A i \in DOMAIN Out : \A m \in Out[i].missing : \E j \in 1..2 : m = <<Names[j], rows[i][j]>> /\ rows[i][j] \in values
NothingLost == \A i \in DOMAIN rows : \A j \in 1..2 : (rows[i][j] \in values /\ (source = {} \/ Names[j] \in source)) => <<Names[j], rows[i][j]>> \in Out[i].missing
TextKept == \A i \in DOMAIN rows : \A j \in 1..2 : rows[i][j] \notin MV => Out[i].cells[j] = <<"text", rows[i][j]>>
Export == PrintT(<<"CASE", ToJson([rows |-> rows, values |-> values, source |-> source, given |-> given,
                                   out |-> [i \in DOMAIN Out |-> [cells |-> Out[i].cells, missing |-> Out[i].missing]]])>>)
=============================================================================
