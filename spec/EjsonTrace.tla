----------------------------- MODULE EjsonTrace -----------------------------
(***************************************************************************)
(* Recorded checkpoint cells against Ejson.tla.  One line of TRACE_FILE =  *)
(* one typed cell that went through a real checkpoint:                     *)
(*   inv   the value that entered the checkpoint (projected by the harness)*)
(*   wr    what stream() wrote for it (tag, text as code points, offset    *)
(*         field, tz name present) - taken from the bytes of stream.ndjson *)
(*   outv  the value the resumed run delivered                             *)
(***************************************************************************)
EXTENDS Ejson, Json, IOUtils

Cells == ndJsonDeserialize(IOEnv.TRACE_FILE)
VARIABLE t
TraceInit == t \in 1..Len(Cells) /\ v = Cells[t].inv
TraceNext == UNCHANGED <<t, v>>
TraceSpec == TraceInit /\ [][TraceNext]_<<t, v>>
C == Cells[t]
\* C07: the resumed value is the first-run value
Same == Unname(C.outv) = Unname(C.inv)
\* the listed deviation of the pinned codec (sub-second precision is not kept)
SameModuloDeviation == Unname(C.outv) = Unname(Deviation(C.inv))
\* conformance: the bytes are the specification's encoding, the resumed value is its decoding
EncodeEq == C.wr = Encode(C.inv)
DecodeEq == Unname(C.outv) = Unname(Decode(C.wr, C.inv.kind))
Verdict == PrintT(<<"VERDICT", t, Same, SameModuloDeviation, EncodeEq, DecodeEq>>)
=============================================================================
