--------------------------- MODULE EnginePrograms ---------------------------
(***************************************************************************)
(* The program universe of a bounded Engine instance, exported one JSON    *)
(* line per well-typed program (the initial states of Engine!Spec), so     *)
(* that EVERY program the model checker explores is also executed on the   *)
(* real library and its recorded execution validated by EngineTrace.tla.   *)
(***************************************************************************)
EXTENDS Engine, Json

\* CONSTRAINT: prints each initial state once and keeps TLC from expanding it
Export == /\ (pkgDone = -1 => PrintT(<<"CASE", ToJson([steps |-> steps])>>))
          /\ pkgDone = -1
=============================================================================
