------------------------------ MODULE LoadTrace ------------------------------
(* Real load() runs on random CSV files written by an independent writer: the specification's reader applied to the file
   bytes must give the header and rows load() returned (text level, strip=False, string strategies). *)
EXTENDS Load, IOUtils
Recs == ndJsonDeserialize(IOEnv.TRACE_FILE)
VARIABLE t
TInit == t \in 1..Len(Recs) /\ tbl = <<>> /\ opts = [dedup |-> FALSE, cs |-> TRUE, strip |-> FALSE, limit |-> 0]
TNext == UNCHANGED <<t, tbl, opts>>
TSpec == TInit /\ [][TNext]_<<t, tbl, opts>>
R == Recs[t]
Dec == DecodeCSV(R.bytes, Recorded)
OK == LET d == LoadDef(Dec, [dedup |-> FALSE, cs |-> TRUE, strip |-> R.strip, limit |-> R.limit]) IN
      ~d.rejected /\ d.names = R.names /\ d.rows = R.rows
Verdict == PrintT(<<"VERDICT", t, OK>>)
=============================================================================
