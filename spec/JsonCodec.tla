------------------------------ MODULE JsonCodec ------------------------------
(***************************************************************************)
(* The JSON data files of the file dumpers (format='json', C03): the       *)
(* WRITER as dumpers/formats/format_json.py drives json.dumps (one array   *)
(* of objects, keys sorted, separators ", " and ": ", ensure_ascii: every  *)
(* code point above 126 and every control character as \uXXXX, characters  *)
(* beyond the BMP as a surrogate pair) and a READER that knows nothing but  *)
(* the JSON grammar - a pushdown automaton folded over the code points     *)
(* (deep recursion overflows TLC's stack on long inputs).                  *)
(*                                                                         *)
(* Values are tagged tuples (tag first, so TLC never compares values of    *)
(* different shapes):  <<"z">> null   <<"t">> true   <<"f">> false         *)
(*   <<"n", lexical code points>> a number, kept as its text               *)
(*   <<"s", code points>> a string                                         *)
(*   <<"a", <<v1, ...>>>> an array     <<"o", <<<<key, v>>, ...>>>> an      *)
(*   object (pairs in file order; the writer sorts the keys)               *)
(***************************************************************************)
EXTENDS Integers, Sequences, FiniteSets, TLC, SequencesExt, Functions, Folds

Null == <<"z">>  True == <<"t">>  False == <<"f">>
Num(txt) == <<"n", txt>>   Str(cps) == <<"s", cps>>   Arr(items) == <<"a", items>>   Obj(pairs) == <<"o", pairs>>

\* ---------------- writer ----------------
HexDigit(d) == IF d < 10 THEN 48 + d ELSE 87 + d                      \* lower case, as json.dumps writes them
U4(c) == <<92, 117, HexDigit(c \div 4096), HexDigit((c \div 256) % 16), HexDigit((c \div 16) % 16), HexDigit(c % 16)>>
EscChar(c) == CASE c = 34 -> <<92, 34>> [] c = 92 -> <<92, 92>> [] c = 10 -> <<92, 110>> [] c = 13 -> <<92, 114>>
                [] c = 9 -> <<92, 116>> [] c = 8 -> <<92, 98>> [] c = 12 -> <<92, 102>>
                [] c < 32 \/ (c > 126 /\ c < 65536) -> U4(c)
                [] c >= 65536 -> U4(55296 + ((c - 65536) \div 1024)) \o U4(56320 + ((c - 65536) % 1024))
                [] OTHER -> <<c>>
RenderStr(cps) == <<34>> \o FoldLeft(LAMBDA acc, c : acc \o EscChar(c), <<>>, cps) \o <<34>>
RECURSIVE Render(_)
Render(v) ==
  CASE v[1] = "z" -> <<110, 117, 108, 108>> [] v[1] = "t" -> <<116, 114, 117, 101>> [] v[1] = "f" -> <<102, 97, 108, 115, 101>>
    [] v[1] = "n" -> v[2]
    [] v[1] = "s" -> RenderStr(v[2])
    [] v[1] = "a" -> <<91>> \o FoldLeft(LAMBDA acc, i : acc \o (IF i > 1 THEN <<44, 32>> ELSE <<>>) \o Render(v[2][i]), <<>>,
                                         [i \in 1..Len(v[2]) |-> i]) \o <<93>>
    [] v[1] = "o" -> <<123>> \o FoldLeft(LAMBDA acc, i : acc \o (IF i > 1 THEN <<44, 32>> ELSE <<>>) \o RenderStr(v[2][i][1]) \o <<58, 32>> \o Render(v[2][i][2]),
                                          <<>>, [i \in 1..Len(v[2]) |-> i]) \o <<125>>
\* the data file: '[' row ',' row ... ']' (no space after the commas between rows: the dumper writes them itself)
RenderFile(rows) == <<91>> \o FoldLeft(LAMBDA acc, i : acc \o (IF i > 1 THEN <<44>> ELSE <<>>) \o Render(rows[i]), <<>>, [i \in 1..Len(rows) |-> i]) \o <<93>>

\* ---------------- reader: a pushdown automaton folded over the code points ----------------
WS == {32, 9, 10, 13}
Digits == 48..57
NumChars == Digits \cup {43, 45, 46, 69, 101}
S0 == [mode |-> "val", stack |-> <<>>, buf |-> <<>>, iskey |-> FALSE, hex |-> 0, hexn |-> 0, hi |-> 0, res |-> Null]
Err(st, why) == [st EXCEPT !.mode = "err", !.res = <<"error", why>>]
Top(st) == st.stack[Len(st.stack)]
Deliver(st, v) ==
  IF st.stack = <<>> THEN [st EXCEPT !.mode = "done", !.res = v]
  ELSE IF Top(st).t = "a" THEN [st EXCEPT !.stack[Len(st.stack)].items = Append(@, v), !.mode = "after"]
  ELSE [st EXCEPT !.stack[Len(st.stack)].pairs = Append(@, <<Top(st).key, v>>), !.mode = "after"]
Pop(st) == LET f == Top(st)  below == [st EXCEPT !.stack = SubSeq(st.stack, 1, Len(st.stack) - 1)]
           IN Deliver(below, IF f.t = "a" THEN Arr(f.items) ELSE Obj(f.pairs))
Push(st, f, mode) == [st EXCEPT !.stack = Append(@, f), !.mode = mode]
ArrFrame == [t |-> "a", items |-> <<>>, pairs |-> <<>>, key |-> <<>>]
ObjFrame == [t |-> "o", items |-> <<>>, pairs |-> <<>>, key |-> <<>>]
StartStr(st, iskey) == [st EXCEPT !.mode = "str", !.buf = <<>>, !.iskey = iskey, !.hi = 0]
StepVal(st, c) ==
  CASE c \in WS -> st
    [] c = 34 -> StartStr(st, FALSE)
    [] c = 91 -> Push(st, ArrFrame, "valOrEnd")
    [] c = 123 -> Push(st, ObjFrame, "keyOrEnd")
    [] c \in Digits \cup {45} -> [st EXCEPT !.mode = "num", !.buf = <<c>>]
    [] c \in {116, 102, 110} -> [st EXCEPT !.mode = "lit", !.buf = <<c>>]
    [] OTHER -> Err(st, "value expected")
StepAfter(st, c) ==
  CASE st.mode = "done" -> IF c \in WS THEN st ELSE Err(st, "trailing characters")
    [] c \in WS -> st
    [] c = 44 -> [st EXCEPT !.mode = IF Top(st).t = "a" THEN "val" ELSE "key"]
    [] c = 93 /\ Top(st).t = "a" -> Pop(st)
    [] c = 125 /\ Top(st).t = "o" -> Pop(st)
    [] OTHER -> Err(st, "separator expected")
EndStr(st) == IF st.hi # 0 THEN Err(st, "lone surrogate")
              ELSE IF st.iskey THEN [st EXCEPT !.stack[Len(st.stack)].key = st.buf, !.mode = "colon"]
              ELSE Deliver(st, Str(st.buf))
HexVal(c) == IF c \in Digits THEN c - 48 ELSE IF c \in 97..102 THEN c - 87 ELSE IF c \in 65..70 THEN c - 55 ELSE 0 - 1
AddCode(st, code) ==
  IF st.hi # 0 THEN (IF code \in 56320..57343 THEN [st EXCEPT !.buf = Append(@, 65536 + (st.hi - 55296) * 1024 + (code - 56320)), !.hi = 0, !.mode = "str"]
                     ELSE Err(st, "lone surrogate"))
  ELSE IF code \in 55296..56319 THEN [st EXCEPT !.hi = code, !.mode = "str"]
  ELSE [st EXCEPT !.buf = Append(@, code), !.mode = "str"]
Lits == {<<116, 114, 117, 101>>, <<102, 97, 108, 115, 101>>, <<110, 117, 108, 108>>}
Step(st, c) ==
  CASE st.mode = "err" -> st
    [] st.mode = "val" -> StepVal(st, c)
    [] st.mode = "valOrEnd" -> IF c \in WS THEN st ELSE IF c = 93 THEN Pop(st) ELSE StepVal([st EXCEPT !.mode = "val"], c)
    [] st.mode = "keyOrEnd" -> IF c \in WS THEN st ELSE IF c = 125 THEN Pop(st) ELSE IF c = 34 THEN StartStr(st, TRUE) ELSE Err(st, "key expected")
    [] st.mode = "key" -> IF c \in WS THEN st ELSE IF c = 34 THEN StartStr(st, TRUE) ELSE Err(st, "key expected")
    [] st.mode = "colon" -> IF c \in WS THEN st ELSE IF c = 58 THEN [st EXCEPT !.mode = "val"] ELSE Err(st, "colon expected")
    [] st.mode \in {"after", "done"} -> StepAfter(st, c)
    [] st.mode = "str" -> IF c = 34 THEN EndStr(st)
                          ELSE IF c = 92 THEN [st EXCEPT !.mode = "esc"]
                          ELSE IF st.hi # 0 THEN Err(st, "lone surrogate")
                          ELSE IF c < 32 THEN Err(st, "control character in a string")
                          ELSE [st EXCEPT !.buf = Append(@, c)]
    [] st.mode = "esc" -> CASE c \in {34, 92, 47} -> AddCode(st, c)
                            [] c = 98 -> AddCode(st, 8) [] c = 102 -> AddCode(st, 12) [] c = 110 -> AddCode(st, 10)
                            [] c = 114 -> AddCode(st, 13) [] c = 116 -> AddCode(st, 9)
                            [] c = 117 -> [st EXCEPT !.mode = "u", !.hex = 0, !.hexn = 0]
                            [] OTHER -> Err(st, "bad escape")
    [] st.mode = "u" -> IF HexVal(c) < 0 THEN Err(st, "bad \\u escape")
                        ELSE IF st.hexn = 3 THEN AddCode(st, st.hex * 16 + HexVal(c))
                        ELSE [st EXCEPT !.hex = @ * 16 + HexVal(c), !.hexn = @ + 1]
    [] st.mode = "num" -> IF c \in NumChars THEN [st EXCEPT !.buf = Append(@, c)]
                          ELSE StepAfter(Deliver(st, Num(st.buf)), c)
    [] st.mode = "lit" -> LET b == Append(st.buf, c) IN
                          IF b \in Lits THEN Deliver(st, IF b[1] = 116 THEN True ELSE IF b[1] = 102 THEN False ELSE Null)
                          ELSE IF Len(b) >= 5 THEN Err(st, "bad literal") ELSE [st EXCEPT !.buf = b]
Parse(bytes) ==
  LET fin == FoldLeft(Step, S0, bytes) IN
  IF fin.mode = "done" THEN fin.res
  ELSE IF fin.mode = "num" /\ fin.stack = <<>> THEN Num(fin.buf)
  ELSE IF fin.mode = "err" THEN fin.res ELSE <<"error", "unexpected end of input">>

\* ---------------- the round-trip equation on a bounded universe ----------------
CONSTANTS Alphabet,      \* code points for strings, e.g. {97, 34, 92, 10, 233, 128512}
          MaxStr
StrsUpTo(n) == UNION {[1..k -> Alphabet] : k \in 0..n}
Atoms == {Null, True, False, Num(<<49>>), Num(<<45, 49, 46, 53, 101, 43, 51, 48, 48>>)} \cup {Str(s) : s \in StrsUpTo(MaxStr)}
Keys == {<<97>>, <<233>>}
Containers == {Arr(<<>>), Obj(<<>>)} \cup {Arr(<<a>>) : a \in Atoms} \cup {Arr(<<a, b>>) : a \in Atoms, b \in {Null, Arr(<<>>), Obj(<<>>)}}
              \cup {Obj(<<<<k, a>>>>) : k \in Keys, a \in Atoms} \cup {Obj(<<<<(<<97>>), a>>, <<(<<233>>), Arr(<<a>>)>>>>) : a \in Atoms}
Universe == Atoms \cup Containers
VARIABLE v
Init == v \in Universe
Next == UNCHANGED v
Spec == Init /\ [][Next]_v
RoundTrip == Parse(Render(v)) = v
FileRoundTrip == Parse(RenderFile(<<Obj(<<<<(<<97>>), v>>>>), Obj(<<>>)>>)) = Arr(<<Obj(<<<<(<<97>>), v>>>>), Obj(<<>>)>>)
=============================================================================
