--------------------------- MODULE CheckpointChain ---------------------------
(***************************************************************************)
(* Histories of runs of ONE pipeline with K checkpoints in a chain (C07):  *)
(*     seg 0, checkpoint 1, seg 1, checkpoint 2, ... checkpoint K, seg K   *)
(* Link absorption in Flow: checkpoint j wraps everything before it; when  *)
(* its file exists it replaces all of that by reading the file.  A run     *)
(* therefore resumes from the LAST checkpoint whose file exists, executes  *)
(* only the segments after it and rewrites the checkpoints after it.       *)
(* History actions: Run, DeleteDir(j), FailRun(s): a run in which segment  *)
(* s raises while rows are flowing - every checkpoint publishes its file   *)
(* only after the LAST row of the last resource has passed it, so a failed *)
(* run publishes nothing and the next run resumes exactly where this one   *)
(* would have (C08 at the level of histories).                             *)
(***************************************************************************)
EXTENDS Naturals, Sequences, FiniteSets, TLC, Json

CONSTANTS K, MaxLen

VARIABLES exists,   \* exists[j]: checkpoint j's file is there
          hist,     \* the history so far: sequence of ["run"] / ["del", j]
          execd,    \* per past run: the set of segments it executed
          from      \* per past run: the checkpoint it resumed from (0 = computed from the sources)
vars == <<exists, hist, execd, from>>

Init == exists = [j \in 1..K |-> FALSE] /\ hist = <<>> /\ execd = <<>> /\ from = <<>>

Last(e) == IF \E j \in 1..K : e[j] THEN CHOOSE j \in 1..K : e[j] /\ \A i \in (j+1)..K : ~e[i] ELSE 0
Run == /\ Len(hist) < MaxLen
       /\ LET f == Last(exists) IN
          /\ execd' = Append(execd, f..K)                 \* segments f .. K run; 0 .. f-1 do not
          /\ from' = Append(from, f)
          /\ exists' = [j \in 1..K |-> exists[j] \/ j > f]   \* every checkpoint after f is (re)written
       /\ hist' = Append(hist, <<"run">>)
DeleteDir(j) == /\ Len(hist) < MaxLen /\ exists[j]
                /\ exists' = [exists EXCEPT ![j] = FALSE]
                /\ hist' = Append(hist, <<"del", j>>)
                /\ UNCHANGED <<execd, from>>
FailRun(s) == /\ Len(hist) < MaxLen
              /\ s >= Last(exists)                              \* a segment that runs at all
              /\ hist' = Append(hist, <<"fail", s>>)
              /\ UNCHANGED <<exists, execd, from>>              \* nothing is published; it is not a completed run
Next == Run \/ (\E j \in 1..K : DeleteDir(j)) \/ (\E s \in 0..K : FailRun(s))
Spec == Init /\ [][Next]_vars

\* C07
\* a run never executes a step placed before a checkpoint it can pick up
ResumeSkipsUpstream == \A r \in 1..Len(execd) : \A s \in execd[r] : s >= from[r]
\* after a run the last checkpoint exists (so the next run resumes from it); the first run computes from the sources
LastWritten == (Len(hist) > 0 /\ hist[Len(hist)][1] = "run") => exists[K]
FirstRunComputes == Len(execd) > 0 => from[1] = 0
\* removing every checkpoint directory makes the next run compute from the sources again
DeleteRecomputes == [][(\A j \in 1..K : ~exists[j]) /\ Run => from'[Len(from')] = 0]_vars

Export == PrintT(<<"CASE", ToJson([k |-> K, hist |-> hist, execd |-> [r \in 1..Len(execd) |-> [s \in 1..(K+1) |-> (s - 1) \in execd[r]]], from |-> from, exists |-> exists])>>)
=============================================================================
