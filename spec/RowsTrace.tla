------------------------------ MODULE RowsTrace ------------------------------
(* Recorded real runs of filter_rows / deduplicate / unpivot on larger random tables, judged by the definitions of ProcRows.tla *)
EXTENDS ProcRows, IOUtils
Recs == ndJsonDeserialize(IOEnv.TRACE_FILE)
VARIABLE t
TInit == t \in 1..Len(Recs) /\ tbl = <<>> /\ op = "filter" /\ arg = <<>>
TNext == UNCHANGED <<t, tbl, op, arg>>
TSpec == TInit /\ [][TNext]_<<t, tbl, op, arg>>
R == Recs[t]
OK == CASE R.op = "filter" -> FilterDef(R.arg, R.tbl) = R.out
        [] R.op = "dedup" -> DedupDef(R.arg, R.tbl) = R.out /\ DedupDef(R.arg, R.out) = R.out
        [] R.op = "unpivot" -> UnpivotDef(R.arg, R.tbl).rows = R.out.rows /\ UnpivotDef(R.arg, R.tbl).kept = R.out.kept
Verdict == PrintT(<<"VERDICT", t, OK>>)
=============================================================================
