------------------------------ MODULE ProcSort ------------------------------
(***************************************************************************)
(* sort_rows (C12): the ideal meaning and the design the code implements.  *)
(*                                                                         *)
(* IdealSort: a stable sort of the rows by key, ascending; reverse = the   *)
(* exact reverse of that sequence.                                         *)
(*                                                                         *)
(* ImplSort: every row gets a STRING built from render(key) and the 8 hex  *)
(* digits of its row number, and the rows come out in lexicographic order  *)
(* of that string (a KVFile).  Three designs of that string are modelled:  *)
(*   "concat"  render(key) \o hex8(n)            - the pinned code; refuted *)
(*             by TLC when one key is a proper prefix of another           *)
(*   "nulsep"  render(key) \o NUL \o hex8(n)     - the obvious repair;      *)
(*             refuted by TLC when a key itself contains NUL               *)
(*   "escsep"  esc(render(key)) \o NUL NUL \o hex8(n), esc = NUL -> NUL SOH *)
(*             - the repaired code (fix: commit); TextDesignOK holds       *)
(* Text keys are rendered as they are; numeric keys through an order-      *)
(* preserving fixed-width encoding of their IEEE-754 bits (sign bit        *)
(* flipped, all bits flipped for negative values; ZeroFix: a zero of       *)
(* either sign is encoded as +0.0 - the pinned code took -0.0 as positive  *)
(* because -0.0 < 0 is false).                                             *)
(*                                                                         *)
(* Text: a key is a sequence over the abstract alphabet 1..8 standing for  *)
(* a character below "0", "0", "9", "a", "f", a character above "f", NUL   *)
(* and SOH (U+0001) - the row-number suffix is made of "0".."9","a".."f"   *)
(* and the separator of NUL/SOH, so these classes are the ones that        *)
(* matter.  Row numbers are 0-based, 8 hex digits.                         *)
(* Numbers: a miniature IEEE format <<sign, e1, e0, m1, m0>> with          *)
(* denormals and two zeros.                                                *)
(***************************************************************************)
EXTENDS Naturals, Integers, Sequences, FiniteSets, TLC, SequencesExt, Json

CONSTANTS MaxRows, MaxKeyLen, Alphabet,
          Design,      \* "concat" | "nulsep" | "escsep"
          ZeroFix      \* TRUE: zeros of either sign are encoded alike

\* ---------- lexicographic order on sequences of naturals ----------
RECURSIVE LexLess(_, _)
LexLess(a, b) == IF a = <<>> THEN b # <<>>
                 ELSE IF b = <<>> THEN FALSE
                 ELSE IF Head(a) # Head(b) THEN Head(a) < Head(b)
                 ELSE LexLess(Tail(a), Tail(b))
IsProperPrefix(a, b) == Len(a) < Len(b) /\ SubSeq(b, 1, Len(a)) = a

\* ---------- text keys ----------
\* hex digit d (0..15) as an abstract character: "0" = 2, "1".."9" between "0" and "9" ... we only need ORDER:
\* map digits to a scale that interleaves with the alphabet: below0=10, "0"=20, "1".."8"=21..28, "9"=29, "a"=40, "b".."e"=41..44, "f"=45, above=60
CharCode(c) == CASE c = 1 -> 10 [] c = 2 -> 20 [] c = 3 -> 29 [] c = 4 -> 40 [] c = 5 -> 45 [] c = 6 -> 60 [] c = 7 -> 0 [] c = 8 -> 1
HexCode(d) == IF d < 10 THEN 20 + d ELSE 30 + d            \* 10 -> 40 ("a") ... 15 -> 45 ("f")
Hex8(n) == <<HexCode(0), HexCode(0), HexCode(0), HexCode(0), HexCode(0), HexCode(0), HexCode(n \div 16), HexCode(n % 16)>>
Codes(key) == [i \in 1..Len(key) |-> CharCode(key[i])]
RECURSIVE Esc(_)
Esc(cs) == IF cs = <<>> THEN <<>> ELSE (IF Head(cs) = 0 THEN <<0, 1>> ELSE <<Head(cs)>>) \o Esc(Tail(cs))
KeyString(key, rownum) == CASE Design = "concat" -> Codes(key) \o Hex8(rownum)
                            [] Design = "nulsep" -> Codes(key) \o <<0>> \o Hex8(rownum)
                            [] Design = "escsep" -> Esc(Codes(key)) \o <<0, 0>> \o Hex8(rownum)
TextLess(a, b) == LexLess([i \in 1..Len(a) |-> CharCode(a[i])], [i \in 1..Len(b) |-> CharCode(b[i])])

Keys == UNION {[1..n -> Alphabet] : n \in 0..MaxKeyLen}
Tables == UNION {[1..n -> Keys] : n \in 0..MaxRows}

\* a table is a sequence of keys; rows are identified by their position (id = index)
IdealSort(tbl) == SortSeq([i \in 1..Len(tbl) |-> i],
                          LAMBDA i, j : TextLess(tbl[i], tbl[j]) \/ (tbl[i] = tbl[j] /\ i < j))
ImplSort(tbl) == SortSeq([i \in 1..Len(tbl) |-> i],
                         LAMBDA i, j : LexLess(KeyString(tbl[i], i - 1), KeyString(tbl[j], j - 1)))

\* the trigger of the known deviation: two different keys, one a proper prefix of the other
HasPrefixPair(tbl) == \E i, j \in 1..Len(tbl) : IsProperPrefix(tbl[i], tbl[j])

VARIABLE tbl
Init == tbl \in Tables
Next == UNCHANGED tbl
Spec == Init /\ [][Next]_tbl

\* C12 at design level for text keys; TLC reports the prefix counterexample, and shows it is the ONLY one:
TextDesignOK == ImplSort(tbl) = IdealSort(tbl)
TextDesignOKUnlessPrefix == ~HasPrefixPair(tbl) => ImplSort(tbl) = IdealSort(tbl)
Export == PrintT(<<"CASE", ToJson([tbl |-> tbl, ideal |-> IdealSort(tbl), impl |-> ImplSort(tbl), prefix |-> HasPrefixPair(tbl)])>>)

----------------------------------------------------------------------------
\* ---------- numeric keys: a miniature IEEE format ----------
Bits == [1..5 -> {0, 1}]                       \* <<sign, e1, e0, m1, m0>>
\* value * 8 as an integer (exact): denormals (e = 0): m * 2 ; normals: (4 + m) * 2^e   (bias chosen so that all are integers)
Pow2(n) == IF n = 0 THEN 1 ELSE IF n = 1 THEN 2 ELSE IF n = 2 THEN 4 ELSE 8
Mag(b) == LET e == 2 * b[2] + b[3]  m == 2 * b[4] + b[5] IN IF e = 0 THEN m * 2 ELSE (4 + m) * Pow2(e)
Val(b) == IF b[1] = 1 THEN 0 - Mag(b) ELSE Mag(b)
Flip(x) == 1 - x
\* the code: invert the sign bit; if value < 0 invert all the other bits too  (-0.0 < 0 is FALSE!)
EncodeBits(b) == IF Val(b) < 0 THEN <<Flip(b[1]), Flip(b[2]), Flip(b[3]), Flip(b[4]), Flip(b[5])>>
                           ELSE <<Flip(b[1]), b[2], b[3], b[4], b[5]>>
Encode(b) == IF ZeroFix /\ Mag(b) = 0 THEN EncodeBits(<<0, 0, 0, 0, 0>>) ELSE EncodeBits(b)
\* what an order-preserving encoding has to do
NumOrderOK(a, b) == (Val(a) < Val(b)) => LexLess(Encode(a), Encode(b))
NumEqualOK(a, b) == (Val(a) = Val(b)) => Encode(a) = Encode(b)          \* fails exactly for +0 / -0
IsNegZero(b) == b[1] = 1 /\ Mag(b) = 0
NumDesignOK == \A a, b \in Bits : NumOrderOK(a, b)
NumDesignZeroOK == \A a, b \in Bits : NumEqualOK(a, b)
NumDesignOKUnlessNegZero == \A a, b \in Bits : (~IsNegZero(a) /\ ~IsNegZero(b)) => (NumOrderOK(a, b) /\ NumEqualOK(a, b))
=============================================================================
