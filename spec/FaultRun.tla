------------------------------ MODULE FaultRun ------------------------------
(***************************************************************************)
(* C04 on whole runs of pipelines of REAL built-in processors.  A run is   *)
(* abstracted to what the statement talks about:                           *)
(*   n        number of steps                                              *)
(*   failAt   position of the step that raised (0: none raised)            *)
(*   outcome  "returned" | "ProcessorError" | "other"  (what process() /   *)
(*            results() did)                                               *)
(*   causeOK  the ProcessorError's cause is the original exception         *)
(*   obs      sequence of [pos, committed]: every dumper / checkpoint /    *)
(*            stream in the pipeline and whether its descriptor / final    *)
(*            file exists afterwards                                       *)
(* The run as a tiny state machine: steps execute, at most one raises, the *)
(* driver's funnel turns it into the outcome; observers commit only when   *)
(* the stream ends at their position.  Each recorded run is checked to be  *)
(* an outcome this machine allows - which is the statement of C04.         *)
(***************************************************************************)
EXTENDS Naturals, Sequences, FiniteSets, TLC, Json, IOUtils

Runs == ndJsonDeserialize(IOEnv.TRACE_FILE)

VARIABLES t, st      \* trace index; "running" | "raised" | "returned" | "failed"
vars == <<t, st>>
R == Runs[t]

Init == t \in 1..Len(Runs) /\ st = "running"
Raise == st = "running" /\ R.failAt > 0 /\ st' = "raised" /\ UNCHANGED t
Funnel == st = "raised" /\ st' = "failed" /\ UNCHANGED t          \* every except-branch of the driver re-raises
Finish == st = "running" /\ R.failAt = 0 /\ st' = "returned" /\ UNCHANGED t
Next == Raise \/ Funnel \/ Finish
Spec == Init /\ [][Next]_vars

\* the only terminal states: a raised failure never "returns"
FailNeverReturns == (st = "returned") => R.failAt = 0

\* the recorded run agrees with the terminal state of the machine, and nothing after the failure committed
Agrees ==
  /\ (st = "failed")   => /\ R.outcome = "ProcessorError" /\ R.causeOK
                          /\ \A i \in DOMAIN R.obs : R.obs[i].pos > R.failAt => ~R.obs[i].committed
  /\ (st = "returned") => R.outcome = "returned"
Verdict == st \in {"failed", "returned"} => PrintT(<<"VERDICT", t, Agrees>>)
=============================================================================
