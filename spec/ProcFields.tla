------------------------------ MODULE ProcFields ------------------------------
(***************************************************************************)
(* Field-level processors (C15): select_fields, delete_fields,             *)
(* rename_fields, add_field, add_computed_field, find_replace change the   *)
(* schema (a sequence of field names) and every row in lockstep.           *)
(*                                                                         *)
(* Field names are sequences of one-character strings over {a, b, c, .},   *)
(* drawn from a catalogue with prefixes of one another and the             *)
(* metacharacter "."; name patterns are Regex.tla ASTs; with regex=False a *)
(* pattern is the literal text it is written as.  A row is a function from *)
(* the schema's names to values <<"n">> / <<"i", k>> / <<"q", n, d>> /     *)
(* <<"t", tokens>> (text as tokens to be concatenated).                    *)
(***************************************************************************)
EXTENDS Regex, Integers, TLC, SequencesExt, Json

A == "a"  B == "b"  C == "c"  Dt == "."  Bar == "|"  StarCh == "*"
Names == { <<A>>, <<A, B>>, <<A, Dt, B>>, <<B>>, <<C>>, <<A, A, B>> }
Null == <<"n">>
I(k) == <<"i", k>>

Lit(c) == [t |-> "lit", c |-> c]
Dot == [t |-> "dot"]
Cat(x, y) == [t |-> "cat", l |-> x, r |-> y]
Alt(x, y) == [t |-> "alt", l |-> x, r |-> y]
Star(x) == [t |-> "star", l |-> x]
RECURSIVE LitName(_)
LitName(n) == IF Len(n) = 1 THEN Lit(n[1]) ELSE Cat(Lit(n[1]), LitName(Tail(n)))     \* a name written as a pattern ("." stays a dot!)
DotName(n) == LET RECURSIVE D(_) D(s) == LET h == IF s[1] = Dt THEN Dot ELSE Lit(s[1]) IN IF Len(s) = 1 THEN h ELSE Cat(h, D(Tail(s))) IN D(n)
\* the pattern a user writes for each catalogue name ("a.b" is the regex a . b), plus genuinely regular ones
Patterns == {DotName(n) : n \in Names}
            \cup { Cat(Lit(A), Star(Dot)),            \* a.*
                   Alt(Lit(A), Cat(Lit(A), Lit(B))),  \* a|ab   (alternation: must be anchored as a whole)
                   Dot,                               \* .
                   Cat(Dot, Lit(B)) }                 \* .b
\* the text of a pattern (what regex=False compares with the field name)
RECURSIVE Text(_)
Text(p) == CASE p.t = "lit" -> <<p.c>> [] p.t = "dot" -> <<Dt>> [] p.t = "cat" -> Text(p.l) \o Text(p.r)
             [] p.t = "alt" -> Text(p.l) \o <<Bar>> \o Text(p.r) [] p.t = "star" -> Text(p.l) \o <<StarCh>>
Matches(p, regex, name) == IF regex THEN FullMatch(p, name) ELSE Text(p) = name

SeqsOfDistinct(S, n) == {s \in UNION {[1..m -> S] : m \in 1..n} : \A i, j \in DOMAIN s : i # j => s[i] # s[j]}
Keep(s, P(_)) == SelectSeq(s, P)
InSeq(x, s) == \E i \in DOMAIN s : s[i] = x

\* ---------------- definitions ----------------
\* select_fields: for each pattern in SELECTION order, the not yet selected fields it matches, in schema order
RECURSIVE SelectDef(_, _, _, _)
SelectDef(schema, pats, regex, n) ==
  IF n > Len(pats) THEN <<>>
  ELSE LET mine == Keep(schema, LAMBDA f : Matches(pats[n], regex, f))
           rest == Keep(schema, LAMBDA f : ~Matches(pats[n], regex, f))
       IN mine \o SelectDef(rest, pats, regex, n + 1)
\* delete_fields: the fields no pattern matches, original order
DeleteDef(schema, pats, regex) == Keep(schema, LAMBDA f : \A n \in DOMAIN pats : ~Matches(pats[n], regex, f))
\* rename_fields: the first pair (in the order given) whose pattern matches renames the field to its target
RenameOf(pairs, regex, f) == IF \E n \in DOMAIN pairs : Matches(pairs[n].src, regex, f)
                             THEN pairs[CHOOSE n \in DOMAIN pairs : Matches(pairs[n].src, regex, f) /\ \A m \in 1..(n-1) : ~Matches(pairs[m].src, regex, f)].tgt
                             ELSE f
RenameDef(schema, pairs, regex) == [i \in DOMAIN schema |-> RenameOf(pairs, regex, schema[i])]

\* computed values over the non-null source cells of ONE row
NonNull(vals) == SelectSeq(vals, LAMBDA v : v # Null)
Ints(vs) == [i \in DOMAIN vs |-> vs[i][2]]
RECURSIVE SumSeq(_), ProdSeq(_), Gcd(_, _)
SumSeq(s) == IF s = <<>> THEN 0 ELSE Head(s) + SumSeq(Tail(s))
ProdSeq(s) == IF s = <<>> THEN 1 ELSE Head(s) * ProdSeq(Tail(s))
Gcd(x, y) == IF y = 0 THEN x ELSE Gcd(y, x % y)
Q(num, den) == IF num = 0 THEN <<"q", 0, 1>> ELSE LET g == Gcd(num, den) IN <<"q", num \div g, den \div g>>
MinOf(s) == CHOOSE x \in Range(s) : \A y \in Range(s) : x <= y
MaxOf(s) == CHOOSE x \in Range(s) : \A y \in Range(s) : x >= y
Str(v) == IF v = Null THEN "None" ELSE ToString(v[2])
Computed(op, vals) ==          \* vals: the source cells of the row, in source order
  LET nn == Ints(NonNull(vals)) IN
  CASE op = "sum" -> I(SumSeq(nn))
    [] op = "avg" -> Q(SumSeq(nn), Len(nn))
    [] op = "min" -> I(MinOf(nn))
    [] op = "max" -> I(MaxOf(nn))
    [] op = "multiply" -> I(ProdSeq(nn))
    [] op = "constant" -> <<"t", <<"K">>>>
    [] op = "join" -> <<"t", [i \in 1..(2 * Len(nn) - 1) |-> IF i % 2 = 1 THEN ToString(nn[(i + 1) \div 2]) ELSE "-"]>>
    [] op = "format" -> <<"t", <<Str(vals[1]), "-x">>>>       \* '{<first source>}-x'.format(**row): a null shows as None
NeedsValue(op) == op \in {"avg", "min", "max", "multiply"}

\* ---------------- the bounded instance ----------------
VARIABLES schema, op, arg, regex
vars == <<schema, op, arg, regex>>
PatSeqs == SeqsOfDistinct(Patterns, 2)
NewNames == {<<"x">>, <<"y">>}
PermNames == { <<A>>, <<A, B>>, <<B>>, <<C>> }
CompSchema == << <<A>>, <<A, B>>, <<B>> >>
CompRows == [1..3 -> {I(0), I(2), I(-3), Null}]
Ops == {"sum", "avg", "min", "max", "multiply", "constant", "join", "format"}
Init == /\ regex \in BOOLEAN
        /\ \/ /\ op = "select" /\ schema \in SeqsOfDistinct(Names, 3) /\ arg \in PatSeqs
              /\ SelectDef(schema, arg, regex, 1) # <<>>                                       \* select_fields requires a match
           \/ /\ op = "delete" /\ schema \in SeqsOfDistinct(Names, 3) /\ arg \in PatSeqs
           \/ /\ op = "rename" /\ schema \in SeqsOfDistinct(Names, 3)
              /\ arg \in {[i \in DOMAIN ps |-> [src |-> ps[i], tgt |-> IF i = 1 THEN <<"x">> ELSE <<"y">>]] : ps \in PatSeqs}
              /\ \A i, j \in DOMAIN schema : i # j => RenameOf(arg, regex, schema[i]) # RenameOf(arg, regex, schema[j])   \* no two fields end up with one name
           \* ... and renames whose targets are names the schema ALREADY has (swaps, cycles, shifts a -> b -> c): every field gets its new
           \* name at once, from the names as they were; the pairs listed in ascending and in descending field order
           \/ /\ op = "rename" /\ schema \in SeqsOfDistinct(PermNames, 3) /\ Len(schema) >= 2
              /\ \E D \in (SUBSET DOMAIN schema) \ {{}} : \E h \in [D -> Range(schema) \cup {<<"x">>}] : \E up \in BOOLEAN :
                    /\ \E i \in D : h[i] \in Range(schema) /\ h[i] # schema[i]
                    /\ LET idx == IF up THEN SetToSortSeq(D, <) ELSE SetToSortSeq(D, >)
                       IN arg = [k \in DOMAIN idx |-> [src |-> DotName(schema[idx[k]]), tgt |-> h[idx[k]]]]
              /\ \A i, j \in DOMAIN schema : i # j => RenameOf(arg, regex, schema[i]) # RenameOf(arg, regex, schema[j])
           \/ /\ op = "find_replace" /\ schema = CompSchema /\ regex = TRUE
              /\ arg \in { <<"t", <<A, B>>>>, <<"t", <<B, B>>>>, <<"t", <<C>>>>, <<"t", <<>>>>, Null }      \* the cell; find "b", replace by "X"
           \/ /\ op = "computed" /\ schema = CompSchema /\ regex = TRUE
              /\ arg \in [cop : Ops, src : {<<1>>, <<1, 3>>, <<3, 2, 1>>}, row : CompRows]
              /\ NeedsValue(arg.cop) => \E i \in DOMAIN arg.src : arg.row[arg.src[i]] # Null
Next == UNCHANGED vars
Spec == Init /\ [][Next]_vars

Result == CASE op = "select" -> SelectDef(schema, arg, regex, 1)
            [] op = "delete" -> DeleteDef(schema, arg, regex)
            [] op = "rename" -> RenameDef(schema, arg, regex)
            [] op = "find_replace" -> <<IF arg = Null THEN Null ELSE <<"t", [i \in DOMAIN arg[2] |-> IF arg[2][i] = B THEN "X" ELSE arg[2][i]]>>>>
            [] op = "computed" -> <<Computed(arg.cop, [i \in DOMAIN arg.src |-> arg.row[arg.src[i]]])>>
\* C15 as properties of the definitions: schema and rows stay in lockstep by construction (a row is indexed by the
\* resulting schema); the order rules and the no-loss / no-invention rules:
IsSubseqOf(s, t) == \E f \in [DOMAIN s -> DOMAIN t] : (\A i \in DOMAIN s : t[f[i]] = s[i]) /\ (\A i, j \in DOMAIN s : i < j => f[i] < f[j])
NoDup(s) == \A i, j \in DOMAIN s : i # j => s[i] # s[j]
SelectOK == op = "select" => LET r == Result IN
              /\ NoDup(r) /\ \A i \in DOMAIN r : InSeq(r[i], schema) /\ \E n \in DOMAIN arg : Matches(arg[n], regex, r[i])
              /\ \A f \in Range(schema) : (\E n \in DOMAIN arg : Matches(arg[n], regex, f)) => InSeq(f, r)
DeleteOK == op = "delete" => LET r == Result IN
              /\ IsSubseqOf(r, schema)                                                        \* original order
              /\ \A f \in Range(schema) : InSeq(f, r) <=> (\A n \in DOMAIN arg : ~Matches(arg[n], regex, f))
RenameOK == op = "rename" => LET r == Result IN
              /\ Len(r) = Len(schema) /\ NoDup(r)                                             \* positions (and so values) kept
              /\ \A i \in DOMAIN schema : (r[i] # schema[i]) => \E n \in DOMAIN arg : Matches(arg[n].src, regex, schema[i])
Export == PrintT(<<"CASE", ToJson([schema |-> schema, op |-> op, arg |-> arg, regex |-> regex, result |-> Result])>>)
=============================================================================
