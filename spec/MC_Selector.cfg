\* default instance (the harness generates cfgs with other constants)
SPECIFICATION Spec
CONSTANTS MaxRes = 2
 MaxDepth = 2
INVARIANT UniqueNames
INVARIANT FormsOK
INVARIANT Frame
INVARIANT Effect
CHECK_DEADLOCK FALSE
