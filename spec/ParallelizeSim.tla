--------------------------- MODULE ParallelizeSim ---------------------------
(***************************************************************************)
(* Behaviours of Parallelize.tla as scripts for the implementation         *)
(* (spec -> code): every step of Parallelize!Next is labelled with the     *)
(* action taken, the worker it belongs to and the abstract state AFTER the *)
(* step.  A complete behaviour (collector done) is printed as one JSON     *)
(* line; harness/sched.py grants exactly this sequence of operations to    *)
(* the unmodified producer / fetcher / work / fork bodies and compares the *)
(* projected state after every step.                                       *)
(***************************************************************************)
EXTENDS Parallelize, Json

VARIABLE hist
svars == <<vars, hist>>

St == [qin |-> qin, pbuf |-> pbuf, qout |-> qout, obuf |-> obuf, qint |-> qint,
       delivered |-> delivered, applied |-> [r \in 1..R |-> applied[r]], cphase |-> cphase, perr |-> perr]
Rec(a, w) == hist' = Append(hist, [a |-> a, w |-> w, st |-> St'])

SimInit == Init /\ hist = <<>>
SimNext == \/ CPeekYield /\ Rec("CPeekYield", 0)
           \/ CPeekEnd /\ Rec("CPeekEnd", 0)
           \/ CPeekFail /\ Rec("CPeekFail", 0)
           \/ CStart /\ Rec("CStart", 0)
           \/ CFork /\ Rec("CFork", nf)
           \/ CStartF /\ Rec("CStartF", 0)
           \/ CGet /\ Rec("CGet", 0)
           \/ CJoinProd /\ Rec("CJoinProd", 0)
           \/ CJoinW /\ Rec("CJoinW", jw)
           \/ CJoinF /\ Rec("CJoinF", 0)
           \/ PPut /\ Rec("PPut", 0)
           \/ PMarker /\ Rec("PMarker", 0)
           \/ FeedIn /\ Rec("FeedIn", 0)
           \/ FGet /\ Rec("FGet", 0)
           \/ FFwd /\ Rec("FFwd", 0)
           \/ FEnd /\ Rec("FEnd", 0)
           \/ \E w \in W : \/ WGet(w) /\ Rec("WGet", w)
                           \/ WPut(w) /\ Rec("WPut", w)
                           \/ WExit(w) /\ Rec("WExit", w)
                           \/ FeedOut(w) /\ Rec("FeedOut", w)
SimSpec == SimInit /\ [][SimNext]_svars

\* the safety properties of Parallelize hold along every scripted behaviour as well
SimSafe == ExactlyOnce /\ AtMostOnce /\ AppliedBeforeDelivered /\ Quiescent /\ UpstreamFailureSurfaces

\* one line per complete behaviour
Export == (cphase \in {"done", "failed"}) => PrintT(<<"CASE", ToJson([r |-> R, n |-> N, sel |-> Sel, fail |-> Fail, failat |-> FailAt, script |-> hist])>>)
=============================================================================
