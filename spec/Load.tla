---------------------------------- MODULE Load ----------------------------------
(***************************************************************************)
(* load() of a delimited file (C13).  The file is the Codec.tla ENCODING   *)
(* of a table of cell texts (so it is well formed by construction:         *)
(* rectangular, no blank line, CR LF line ends, LF allowed inside cells).  *)
(*   header row  -> field names; duplicates are rejected unless            *)
(*                  de-duplication is requested (case sensitive or not)    *)
(*   data rows   -> one row per line, in order, cell text preserved        *)
(*                  apart from optional stripping of edge whitespace       *)
(*   limit_rows  -> exactly the first n rows                               *)
(* RenameDuplicateHeaders is transcribed from the code (the n-th           *)
(* occurrence of a header gets " (n)", the first one " (1)" once a second  *)
(* shows up), followed by the repair the fix: commit added: repeat until   *)
(* the names are unique.                                                   *)
(***************************************************************************)
EXTENDS Codec, Json, TLC

\* ---------- header de-duplication ----------
Lower(c) == IF c >= 65 /\ c <= 90 THEN c + 32 ELSE c
LowerStr(s) == [i \in DOMAIN s |-> Lower(s[i])]
KeyOfHeader(h, cs) == IF cs THEN h ELSE LowerStr(h)
Digits(n) == IF n < 10 THEN <<48 + n>> ELSE <<48 + (n \div 10), 48 + (n % 10)>>
Suffix(n) == <<32, 40>> \o Digits(n) \o <<41>>                 \* " (n)"
CountBefore(hs, i, cs) == Cardinality({j \in 1..i : KeyOfHeader(hs[j], cs) = KeyOfHeader(hs[i], cs)})
CountAll(hs, i, cs) == Cardinality({j \in DOMAIN hs : KeyOfHeader(hs[j], cs) = KeyOfHeader(hs[i], cs)})
RenameOnce(hs, cs) == [i \in DOMAIN hs |-> IF CountAll(hs, i, cs) > 1 THEN hs[i] \o Suffix(CountBefore(hs, i, cs)) ELSE hs[i]]
HasDup(hs, cs) == \E i, j \in DOMAIN hs : i # j /\ KeyOfHeader(hs[i], cs) = KeyOfHeader(hs[j], cs)
RECURSIVE RenameDuplicateHeaders(_, _)
RenameDuplicateHeaders(hs, cs) == IF HasDup(hs, cs) THEN RenameDuplicateHeaders(RenameOnce(hs, cs), cs) ELSE hs

\* ---------- cells ----------
IsWs(c) == c \in {32, 9, 10, 13}
RECURSIVE LStrip(_), RStrip(_)
LStrip(s) == IF s # <<>> /\ IsWs(Head(s)) THEN LStrip(Tail(s)) ELSE s
RStrip(s) == IF s # <<>> /\ IsWs(s[Len(s)]) THEN RStrip(SubSeq(s, 1, Len(s) - 1)) ELSE s
Strip(s) == RStrip(LStrip(s))

\* ---------- the definition ----------
\* tbl: header row followed by data rows (cell texts); opts: [dedup, cs, strip, limit (0 = none)]
LoadDef(tbl, opts) ==
  LET hdr == tbl[1]   data == Tail(tbl)
      dup == HasDup(hdr, opts.cs)
      names == IF dup /\ opts.dedup THEN RenameDuplicateHeaders(hdr, opts.cs) ELSE hdr
      kept == IF opts.limit > 0 /\ opts.limit < Len(data) THEN SubSeq(data, 1, opts.limit) ELSE data
      cell(x) == IF opts.strip THEN Strip(x) ELSE x
  IN IF dup /\ ~opts.dedup THEN [rejected |-> TRUE, names |-> <<>>, rows |-> <<>>]
     ELSE [rejected |-> FALSE, names |-> names, rows |-> [i \in DOMAIN kept |-> [j \in DOMAIN kept[i] |-> cell(kept[i][j])]]]

\* ---------- extract_missing_values (documented option of load) ----------
\* values: the texts the mapping collects (the option's `values`, default: the schema's missingValues); mv: the schema's missingValues
\* (override_schema sets them; Table Schema's default is {""}) - the texts schema casting turns into nulls;
\* source: the field names looked at ({} = all).  Every row gains an object cell: {field: text} for exactly the cells whose text is
\* one of the values; under schema casting those cells themselves come out as nulls (the mapping is what keeps their text).
ExtractDef(names, rows, values, source, mv) ==
  [i \in DOMAIN rows |->
     [cells |-> [j \in DOMAIN names |-> IF rows[i][j] \in mv THEN <<"null">> ELSE <<"text", rows[i][j]>>],
      missing |-> {<<names[j], rows[i][j]>> : j \in {k \in DOMAIN names : rows[i][k] \in values /\ (source = {} \/ names[k] \in source)}}]]

\* ---------- bounded universe ----------
a == 97  b == 98  UA == 65  x == 120  one == 49
HdrNames == { <<a>>, <<UA>>, <<b>>, <<a>> \o Suffix(2), <<a>> \o Suffix(1), <<a, 37>>, <<37, 115>> }      \* "a%" and "%s": header text is text, not a template
CellTexts == { <<>>, <<x>>, <<Space, x, Space>>, <<one>>, <<x, Comma, x>>, <<x, Quote, x>>, <<x, LF, x>>, <<x, Space, x>> }
VARIABLES tbl, opts
HeaderCase == /\ \E n \in 1..3 : \E h \in [1..n -> HdrNames] : tbl = <<h, [j \in 1..n |-> <<one + j>>]>>
              /\ opts \in [dedup : BOOLEAN, cs : BOOLEAN, strip : {TRUE}, limit : {0}]
CellCase == /\ \E r \in 1..2, c \in 1..2 : \E d \in [1..r -> [1..c -> CellTexts]] : tbl = <<[j \in 1..c |-> <<a + j - 1>>]>> \o d
            /\ opts \in [dedup : {FALSE}, cs : {TRUE}, strip : BOOLEAN, limit : {0, 1}]
LimitCase == /\ \E r \in 1..4 : tbl = << << <<a>> >> >> \o [i \in 1..r |-> << <<one + i>> >>]
             /\ opts \in [dedup : {FALSE}, cs : {TRUE}, strip : {TRUE}, limit : 0..5]
\* (the extract_missing_values universe is explored by MC_LoadExtract.tla, which instantiates ExtractDef)
Init == HeaderCase \/ CellCase \/ LimitCase
Next == UNCHANGED <<tbl, opts>>
Spec == Init /\ [][Next]_<<tbl, opts>>

Result == LoadDef(tbl, opts)
\* C13 as properties of the definition
NoDupSeq(s, cs) == ~HasDup(s, cs)
NamesUnique == ~Result.rejected => NoDupSeq(Result.names, TRUE)
OneRowPerLine == ~Result.rejected => Len(Result.rows) = (IF opts.limit > 0 /\ opts.limit < Len(tbl) - 1 THEN opts.limit ELSE Len(tbl) - 1)
TextPreserved == (~Result.rejected /\ ~opts.strip) => \A i \in DOMAIN Result.rows : Result.rows[i] = tbl[i + 1]
RejectedIffDup == Result.rejected <=> (HasDup(tbl[1], opts.cs) /\ ~opts.dedup)
Export == PrintT(<<"CASE", ToJson([tbl |-> tbl, opts |-> opts, bytes |-> EncodeRows(tbl, Recorded), result |-> Result])>>)
=============================================================================
