SPECIFICATION Spec
CONSTANTS MaxLen = 3
 Sample = 2
 Ahead = 2
 SwallowCast = FALSE
 SrcRows <- SrcRowsSmall
 Kinds = {"src", "map", "filter", "del", "obs", "sort", "fin", "fault"}
INVARIANT NoDeadlock
INVARIANT LazyEqualsEager
INVARIANT FailNeverSucceeds
INVARIANT NoCommitAfterFailure
INVARIANT NoFinalizerAfterFailure
INVARIANT FailureIsReported
INVARIANT ObserverComplete
INVARIANT AllObserversCommit
INVARIANT FinalizerOnce
INVARIANT FinalizerAtEnd
INVARIANT BoundedLookahead
CHECK_DEADLOCK FALSE
