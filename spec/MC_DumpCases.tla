---------------------------- MODULE MC_DumpCases ----------------------------
(* The configuration universe of C09 (and of the structural part of C03), enumerated by TLC and exported as cases. *)
EXTENDS Naturals, Sequences, TLC, Json

Formats == {"csv", "json"}
Targets == {"path", "zip"}
Counters == {"default", "renamed", "dotted", "nohash", "nobytes", "norows", "nototal", "nestedhash", "hashonly"}
Incoming == {"fresh", "second_dumper", "redump_loaded", "package_totals", "same_dir_again"}
   \* package_totals: the package descriptor arrives with totals of its own
   \* same_dir_again: the target directory / zip already holds an earlier dump of OTHER rows made with the same options
Shapes == {<<2>>, <<0>>, <<2, 1, 0>>, <<3, 3>>}
Texts == {"ascii", "multibyte"}

VARIABLE c
Init == c \in [format : Formats, target : Targets, counters : Counters, filehash : BOOLEAN, pretty : BOOLEAN,
               incoming : Incoming, shape : Shapes, text : Texts,
               drops : BOOLEAN]      \* the dumper's own validator (on_error = drop) discards one row per non-empty resource
Next == UNCHANGED c
Spec == Init /\ [][Next]_c
Export == PrintT(<<"CASE", ToJson(c)>>)
=============================================================================
