---------------------------- MODULE EngineTrace ----------------------------
(***************************************************************************)
(* Trace validation for Engine.tla, batched: every line of the ndjson file *)
(* named by the environment variable TRACE_FILE is one execution recorded  *)
(* from the real library:                                                  *)
(*   steps : the program (same records as Engine!steps)                    *)
(*   ev    : what the boundary probes logged, in order                     *)
(*             ["pkg", b] ["dRes", b] ["dRow", b, k] ["sRes", b, k]        *)
(*             ["sRow", b, k, row] ["sEndRes", b, k] ["sEndAll", b]        *)
(*             ["sExc", b]   ["fin", i] (finalizer i's callback is invoked)*)
(*   fin   : what the run left behind - outcome, results, what each        *)
(*           observer persisted / whether it committed, finalizer calls,   *)
(*           measured read-ahead                                           *)
(* The engine is deterministic for a given program, so the model is simply *)
(* run next to the recorded events; `l` counts how many events matched and *)
(* matching stops at the first disagreement (ok = FALSE) while the model   *)
(* runs on, so that the terminal state is always reached and the property  *)
(* formulas are evaluated ON THE RECORDED DATA for every trace.  One       *)
(* VERDICT line per trace names every clause separately.                   *)
(***************************************************************************)
EXTENDS Engine, Json, IOUtils

Traces == ndJsonDeserialize(IOEnv.TRACE_FILE)

VARIABLES t,    \* which trace
          l,    \* next event to match
          ok    \* all visible transitions so far matched their event
tvars == <<vars, t, l, ok>>

Ev == Traces[t].ev
Rec == Traces[t].fin

TraceInit == \E tt \in 1..Len(Traces) :
                /\ t = tt /\ l = 1 /\ ok = TRUE
                /\ InitWith(Traces[tt].steps)

\* the event a transition shows to the probes (<<>> = invisible)
EventOf ==
  IF pkgDone' # pkgDone THEN <<"pkg", pkgDone'>>
  ELSE IF \E i \in 1..N : loc'[i].calls # loc[i].calls
       THEN <<"fin", CHOOSE i \in 1..N : loc'[i].calls # loc[i].calls>>     \* a finalizer's callback runs
  ELSE IF ctl' = ctl \/ ctl'.dir = "none" THEN <<>>
  ELSE IF ctl'.dir = "down"
       THEN IF ctl.dir = "up" /\ ctl.at = ctl'.at THEN <<>>           \* a step re-entering itself (sort starts emitting)
            ELSE IF ctl'.item[1] = "NextRes" THEN <<"dRes", ctl'.at>> ELSE <<"dRow", ctl'.at, ctl'.item[2]>>
  ELSE LET b == ctl'.at - 1  it == ctl'.item IN
       CASE it[1] = "Res"    -> <<"sRes", b, it[2]>>
         [] it[1] = "Row"    -> <<"sRow", b, it[2], it[3]>>
         [] it[1] = "EndRes" -> <<"sEndRes", b, it[2]>>
         [] it[1] = "EndAll" -> <<"sEndAll", b>>
         [] it[1] = "Exc"    -> <<"sExc", b>>

TraceNext == /\ Next
             /\ UNCHANGED t
             /\ LET e == EventOf IN
                IF e = <<>> \/ ~ok THEN UNCHANGED <<l, ok>>
                ELSE IF l <= Len(Ev) /\ Ev[l] = e THEN l' = l + 1 /\ ok' = TRUE
                ELSE l' = l /\ ok' = FALSE
TraceSpec == TraceInit /\ [][TraceNext]_tvars

----------------------------------------------------------------------------
\* the property formulas, on the RECORDED outcome of the real run
ObsIdx == {i \in 1..N : steps[i].kind = "obs"}
FinIdx == {i \in 1..N : steps[i].kind = "fin"}
RecObs(i) == LET S == {j \in DOMAIN Rec.obs : Rec.obs[j].i = i} IN Rec.obs[CHOOSE j \in S : TRUE]
RecFin(i) == LET S == {j \in DOMAIN Rec.fins : Rec.fins[j].i = i} IN Rec.fins[CHOOSE j \in S : TRUE]

Fired == exc # <<>>                 \* decided by the model: does the injected fault fire at all

C01 == (Rec.outcome = "done" /\ ~Fired) => Rec.out = Eval(steps)
C04 == /\ Fired => /\ Rec.outcome = "failed" /\ Rec.causeStep = exc.at
                   /\ \A j \in ObsIdx : j > exc.at => ~RecObs(j).committed
       /\ ~Fired => Rec.outcome = "done"
C05 == /\ \A i \in ObsIdx : RecObs(i).committed => RecObs(i).persisted = EvalPrefix(steps, i)
       /\ (~Fired /\ Rec.outcome = "done") => /\ \A i \in ObsIdx : RecObs(i).committed
                                             /\ \A i \in FinIdx : RecFin(i).calls = 1
       /\ \A i \in FinIdx : RecFin(i).calls <= 1
       /\ Fired => \A j \in FinIdx : j > exc.at => RecFin(j).calls = 0      \* the stream never ended at j: "after the last row" never came
C06 == ~Buffering => Rec.maxLook <= LookBound

\* conformance of the final state (model vs recorded); not a property, drift if it fails alone
FinalEq == /\ (phase = "done") = (Rec.outcome = "done")
           /\ (phase = "done" /\ ~Fired) => Rec.out = out
           /\ \A i \in ObsIdx : RecObs(i).committed = loc[i].committed
           /\ \A i \in ObsIdx : loc[i].committed => RecObs(i).persisted = loc[i].persisted
           /\ \A i \in FinIdx : RecFin(i).calls = loc[i].calls
           /\ Rec.maxLook = maxLook

Verdict == Terminal => PrintT(<<"VERDICT", t, l - 1, Len(Ev), ok /\ l = Len(Ev) + 1, phase, C01, C04, C05, C06, FinalEq>>)
=============================================================================
