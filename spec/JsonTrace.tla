------------------------------ MODULE JsonTrace ------------------------------
(***************************************************************************)
(* Real JSON data files decoded by the specification's reader.  One line   *)
(* of TRACE_FILE: the code points of a data file written by a real dumper  *)
(* with format='json'.  The verdict carries what the reader of             *)
(* JsonCodec.tla makes of them (tagged values), so that the harness can    *)
(* cast the cells with the recorded field descriptors - and whether the    *)
(* bytes are exactly the specification's rendering of that value (one      *)
(* array, keys in the written order, ", " / ": " inside a row, "," between *)
(* rows, every non-ASCII character escaped).                               *)
(***************************************************************************)
EXTENDS JsonCodec, Json, IOUtils
Files == ndJsonDeserialize(IOEnv.TRACE_FILE)
VARIABLE t
TInit == t \in 1..Len(Files) /\ v = Null
TNext == UNCHANGED <<t, v>>
TSpec == TInit /\ [][TNext]_<<t, v>>
Parsed == Parse(Files[t].bytes)
IsArrayOfObjects == Parsed[1] = "a" /\ \A i \in DOMAIN Parsed[2] : Parsed[2][i][1] = "o"
IsSpecRendering == IsArrayOfObjects /\ Files[t].bytes = RenderFile(Parsed[2])
KeysSorted == IsArrayOfObjects => \A i \in DOMAIN Parsed[2] : \A k \in 1..(Len(Parsed[2][i][2]) - 1) : Parsed[2][i][2][k][1] # Parsed[2][i][2][k + 1][1]
Verdict == PrintT(<<"VERDICT", ToJson([t |-> t, ok |-> IsArrayOfObjects, is_spec |-> IsSpecRendering, value |-> Parsed])>>)
=============================================================================
