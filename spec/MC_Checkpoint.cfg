SPECIFICATION Spec
CONSTANTS MaxRes = 2
 MaxRows = 2
 MaxRuns = 3
INVARIANT PickedUpIsComplete
INVARIANT NeverBadResult
PROPERTY InterruptedNeverUsed
PROPERTY ResumeSkipsUpstream
PROPERTY DeleteRecomputes
CHECK_DEADLOCK FALSE
