------------------------------ MODULE Checkpoint ------------------------------
(***************************************************************************)
(* checkpoint(name): stream() writes <dir>/stream.ndjson.active and renames*)
(* it to <dir>/stream.ndjson when the whole stream has passed; a later run *)
(* that finds stream.ndjson replaces everything before the checkpoint by   *)
(* unstream(stream.ndjson).                                                *)
(*                                                                         *)
(* A file is the sequence of LINES durably on disk; `buf` holds what has   *)
(* been written but not flushed.  Lines:                                   *)
(*    <<"D">>  descriptor   <<"R", r, k>> row k of resource r              *)
(*    <<"S", r>> blank separator line after resource r                     *)
(* One action per file operation the code performs:                        *)
(*    Open      open(active, 'w')   (at chain-build time, truncates)       *)
(*    Write     file.write(line)    (descriptor, row, separator)           *)
(*    Flush     file.flush()        (after descriptor and rows, NOT after  *)
(*                                   separators - as the code does)        *)
(*    Close     file.close()                                               *)
(*    Rename    os.rename(active, final)                                   *)
(* and the environment:                                                    *)
(*    Kill      the process dies: any prefix of the unflushed buffer may   *)
(*              have reached the disk, nothing else happens                *)
(*    StepFails some step raises: the run unwinds, the file object is      *)
(*              closed by the interpreter (buffer flushed), NO rename      *)
(*    NextRun   a fresh run: Resume if stream.ndjson exists else Recompute *)
(*    DeleteDir the checkpoint directory is removed                        *)
(***************************************************************************)
EXTENDS Naturals, Sequences, FiniteSets, TLC

CONSTANTS MaxRes, MaxRows, MaxRuns

Absent == <<<<"absent">>>>      \* same shape as a content (a sequence of tuples), so TLC can compare them
ResShapes == UNION {[1..n -> 0..MaxRows] : n \in 0..MaxRes}       \* rows per resource

RECURSIVE LinesOf(_, _)
LinesOf(shape, r) == IF r > Len(shape) THEN <<>>
                     ELSE [k \in 1..shape[r] |-> <<"R", r, k>>] \o <<<<"S", r>>>> \o LinesOf(shape, r + 1)
Complete(shape) == <<<<"D">>>> \o LinesOf(shape, 1)

VARIABLES shape,     \* the data of the pipeline (rows per resource)
          active,    \* durable content of stream.ndjson.active, or Absent
          final,     \* durable content of stream.ndjson, or Absent
          buf,       \* written but not flushed
          pos,       \* lines of Complete(shape) written so far by the current writer
          needFlush, \* the last write is followed by a flush in the code
          wphase,    \* writer: "idle" | "open" | "closed" | "renamed"
          run,       \* number of the current run
          mode,      \* what the current run does: "none" | "recompute" | "resume"
          outcome,   \* per finished run: "ok" (result = the data) | "bad" (result differs) | "died"
          upstream   \* how many runs executed the steps before the checkpoint
vars == <<shape, active, final, buf, pos, needFlush, wphase, run, mode, outcome, upstream>>

Init == /\ shape \in ResShapes
        /\ active = Absent /\ final = Absent /\ buf = <<>> /\ pos = 0 /\ needFlush = FALSE
        /\ wphase = "idle" /\ run = 0 /\ mode = "none" /\ outcome = <<>> /\ upstream = 0

\* ---- a run starts: chain-build time ----
NextRun == /\ mode = "none" /\ run < MaxRuns
           /\ run' = run + 1
           /\ IF final # Absent
              THEN /\ mode' = "resume" /\ UNCHANGED <<active, buf, pos, needFlush, wphase, upstream>>
              ELSE /\ mode' = "recompute" /\ upstream' = upstream + 1
                   /\ active' = <<>> /\ buf' = <<>> /\ pos' = 0 /\ needFlush' = FALSE /\ wphase' = "open"    \* Open: truncates
           /\ UNCHANGED <<shape, final, outcome>>

\* ---- the writer of a recomputing run ----
Line(n) == Complete(shape)[n]
Write == /\ mode = "recompute" /\ wphase = "open" /\ ~needFlush /\ pos < Len(Complete(shape))
         /\ buf' = Append(buf, Line(pos + 1)) /\ pos' = pos + 1
         /\ needFlush' = (Line(pos + 1)[1] # "S")
         /\ UNCHANGED <<shape, active, final, wphase, run, mode, outcome, upstream>>
Flush == /\ mode = "recompute" /\ wphase = "open" /\ needFlush
         /\ active' = active \o buf /\ buf' = <<>> /\ needFlush' = FALSE
         /\ UNCHANGED <<shape, final, pos, wphase, run, mode, outcome, upstream>>
Close == /\ mode = "recompute" /\ wphase = "open" /\ ~needFlush /\ pos = Len(Complete(shape))
         /\ active' = active \o buf /\ buf' = <<>> /\ wphase' = "closed"
         /\ UNCHANGED <<shape, final, pos, needFlush, run, mode, outcome, upstream>>
Rename == /\ mode = "recompute" /\ wphase = "closed"
          /\ final' = active /\ active' = Absent /\ wphase' = "renamed"
          /\ UNCHANGED <<shape, buf, pos, needFlush, run, mode, outcome, upstream>>
FinishRecompute == /\ mode = "recompute" /\ wphase = "renamed"
                   /\ outcome' = Append(outcome, "ok") /\ mode' = "none" /\ wphase' = "idle"
                   /\ UNCHANGED <<shape, active, final, buf, pos, needFlush, run, upstream>>
\* ---- a resuming run reads stream.ndjson: descriptor line, then rows up to a blank line per resource ----
FinishResume == /\ mode = "resume"
                /\ outcome' = Append(outcome, IF final = Complete(shape) THEN "ok" ELSE "bad")
                /\ mode' = "none"
                /\ UNCHANGED <<shape, active, final, buf, pos, needFlush, wphase, run, upstream>>
\* ---- the environment ----
Kill == /\ mode = "recompute" /\ wphase \in {"open", "closed"}
        /\ \E n \in 0..Len(buf) : active' = active \o SubSeq(buf, 1, n)
        /\ buf' = <<>> /\ needFlush' = FALSE /\ wphase' = "idle" /\ mode' = "none"
        /\ outcome' = Append(outcome, "died")
        /\ UNCHANGED <<shape, final, pos, run, upstream>>
StepFails == /\ mode = "recompute" /\ wphase \in {"open", "closed"}
             /\ active' = active \o buf /\ buf' = <<>> /\ needFlush' = FALSE /\ wphase' = "idle" /\ mode' = "none"
             /\ outcome' = Append(outcome, "died")
             /\ UNCHANGED <<shape, final, pos, run, upstream>>
DeleteDir == /\ mode = "none" /\ (active # Absent \/ final # Absent)
             /\ active' = Absent /\ final' = Absent
             /\ UNCHANGED <<shape, buf, pos, needFlush, wphase, run, mode, outcome, upstream>>

Next == NextRun \/ Write \/ Flush \/ Close \/ Rename \/ FinishRecompute \/ FinishResume \/ Kill \/ StepFails \/ DeleteDir
Spec == Init /\ [][Next]_vars

----------------------------------------------------------------------------
\* C08: a checkpoint that can be picked up is always complete
PickedUpIsComplete == final # Absent => final = Complete(shape)
\* ... hence no run ever returns something else than the data, whatever was interrupted before it
NeverBadResult == \A i \in 1..Len(outcome) : outcome[i] # "bad"
\* an interrupted writer leaves nothing under the final name (action property)
InterruptedNeverUsed == [][(Kill \/ StepFails) => final' = final]_vars
\* C07: a resumed run does not execute the steps before the checkpoint; deleting the directory makes the next run recompute
ResumeSkipsUpstream == [][(mode = "none" /\ mode' = "resume") => upstream' = upstream]_vars
DeleteRecomputes == [][(mode = "none" /\ mode' # "none" /\ final = Absent) => mode' = "recompute"]_vars
=============================================================================
