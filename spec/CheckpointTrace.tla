--------------------------- MODULE CheckpointTrace ---------------------------
(***************************************************************************)
(* Crash-point traces of the real checkpoint writer against Checkpoint.tla *)
(* One line of TRACE_FILE = one interrupted (or complete) first run:       *)
(*   shape   rows per resource                                             *)
(*   ev      the file operations the recorder saw before the interruption  *)
(*           ["open"] ["write", kind] ["flush"] ["close"] ["rename"]       *)
(*   crash   "kill" | "fail" | "none"                                      *)
(*   post    what is on disk afterwards: lines in stream.ndjson.active and *)
(*           stream.ndjson (-1 = absent), is the latter byte-identical to  *)
(*           the file an uninterrupted run writes                          *)
(*   follow  the next (fresh) run: did it resume or recompute, was its     *)
(*           result the uninterrupted result; is the checkpoint complete   *)
(*           afterwards; does a third run resume from it with that result  *)
(***************************************************************************)
EXTENDS Checkpoint, Json, IOUtils, Integers

Traces == ndJsonDeserialize(IOEnv.TRACE_FILE)
VARIABLES t, l, stage
tvars == <<vars, t, l, stage>>
T == Traces[t]
Ev == T.ev

TraceInit == /\ t \in 1..Len(Traces) /\ l = 1 /\ stage = "replay"
             /\ shape = Traces[t].shape
             /\ active = Absent /\ final = Absent /\ buf = <<>> /\ pos = 0 /\ needFlush = FALSE
             /\ wphase = "idle" /\ run = 0 /\ mode = "none" /\ outcome = <<>> /\ upstream = 0

Replay == /\ stage = "replay" /\ l <= Len(Ev) /\ l' = l + 1 /\ UNCHANGED <<t, stage>>
          /\ LET e == Ev[l] IN
             \/ e[1] = "open"   /\ NextRun /\ mode' = "recompute"
             \/ e[1] = "write"  /\ Write /\ Line(pos + 1)[1] = e[2]
             \/ e[1] = "flush"  /\ Flush
             \/ e[1] = "close"  /\ Close
             \/ e[1] = "rename" /\ Rename
Interrupt == /\ stage = "replay" /\ l > Len(Ev) /\ stage' = "crashed" /\ UNCHANGED <<t, l>>
             /\ IF mode = "recompute" /\ T.crash = "kill" /\ wphase \in {"open", "closed"}
                THEN Kill /\ (T.post.active >= 0 => Len(active') = T.post.active)
                ELSE IF mode = "recompute" /\ T.crash = "fail" /\ wphase \in {"open", "closed"} THEN StepFails
                ELSE IF mode = "recompute" /\ wphase = "renamed" THEN FinishRecompute
                ELSE UNCHANGED vars
\* the recorded operation is not what the model's writer does next: stop replaying (reported as drift), verdict still printed
Stuck == /\ stage = "replay" /\ l <= Len(Ev) /\ ~ENABLED Replay
         /\ stage' = "stuck" /\ UNCHANGED <<vars, t, l>>
TraceNext == Replay \/ Interrupt \/ Stuck
TraceSpec == TraceInit /\ [][TraceNext]_tvars

Lines(f) == IF f = Absent THEN -1 ELSE Len(f)
\* the model's file system after the interruption is what was found on disk
FsEq == Lines(final) = T.post.final /\ Lines(active) = T.post.active
\* C08 on the recorded facts
C08 == /\ T.post.final >= 0 => T.post.final_complete                  \* a checkpoint that can be picked up is complete
       /\ T.follow.decision = (IF T.post.final >= 0 THEN "resume" ELSE "recompute")
       /\ T.follow.result_ok                                          \* the next run returns the uninterrupted result
       /\ T.follow.final_complete /\ ~T.follow.active_left            \* ... and leaves a complete checkpoint behind (nothing stale)
       /\ T.follow.third_ok                                           \* ... which a third run picks up, reproducing the result
Verdict == stage \in {"crashed", "stuck"} =>
              PrintT(<<"VERDICT", t, l - 1, Len(Ev), stage = "crashed" /\ FsEq, C08, PickedUpIsComplete>>)
=============================================================================
