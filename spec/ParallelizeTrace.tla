-------------------------- MODULE ParallelizeTrace --------------------------
(***************************************************************************)
(* Trace validation for Parallelize.tla, batched.  One line of TRACE_FILE  *)
(* is one execution of the REAL producer / fetcher / work / fork code:     *)
(*   r, n, sel  rows, workers, selected ids                                *)
(*   ev         the queue operations, starts and joins in the order they   *)
(*              happened, each named after the spec action it must be:     *)
(*              ["CPeekYield", r] ["CPeekEnd"] ["CStart"] ["CFork", w]     *)
(*              ["CStartF"] ["PPut", r]                                    *)
(*              ["PMarker"] ["FeedIn", v] ["WGet", w, v] ["WPut", w, v]    *)
(*              ["WExit", w] ["FeedOut", w, v] ["FGet", v] ["FFwd", v]     *)
(*              ["FEnd"] ["CGet", v] ["CJoinProd"] ["CJoinW", w] ["CJoinF"]*)
(*   feeds      TRUE: feeder moves are logged (cooperative scheduler);     *)
(*              FALSE: real multiprocessing - Feed steps are silent        *)
(*   fin        what the consumer saw: delivered ids in order, how often   *)
(*              row_func had been applied to each delivered row, whether   *)
(*              the run terminated normally; failed = it raised the        *)
(*              upstream iterator's own exception; clean = no actor was    *)
(*              left behind                                                *)
(* R, N, Sel are constants of Parallelize, so a batch holds traces of one  *)
(* configuration.                                                          *)
(***************************************************************************)
EXTENDS Parallelize, Json, IOUtils, TLCExt

Traces == ndJsonDeserialize(IOEnv.TRACE_FILE)

VARIABLES t, l, inv,
          ack      \* real multiprocessing only: ack[w] = the worker's last q_in.get() has shown up in the log.  Several workers
                   \* dequeue from q_in and each logs AFTER its get returned, so the log order of two gets can invert the
                   \* dequeue order: the dequeue itself is a silent step (Take) and the logged event acknowledges it.
tvars == <<vars, t, l, inv, ack>>
Ev == Traces[t].ev
Rec == Traces[t].fin

TraceInit == /\ Init /\ t \in 1..Len(Traces) /\ l = 1 /\ inv = TRUE /\ ack = [w \in W |-> TRUE]

E == Ev[l]
Is(name) == l <= Len(Ev) /\ E[1] = name
Step == \/ Is("CPeekYield") /\ CPeekYield /\ nextIn = E[2]
        \/ Is("CPeekEnd") /\ CPeekEnd
        \/ Is("CPeekFail") /\ CPeekFail
        \/ Is("CStart") /\ CStart
        \/ Is("CFork") /\ CFork /\ nf = E[2]
        \/ Is("CStartF") /\ CStartF
        \/ Is("PPut") /\ PPut /\ nextIn = E[2]
        \/ Is("PMarker") /\ PMarker
        \/ Is("FeedIn") /\ FeedIn /\ Head(pbuf) = E[2]
        \/ Is("WGet") /\ Traces[t].feeds /\ WGet(E[2]) /\ Head(qin) = E[3]
        \/ Is("WPut") /\ ack[E[2]] /\ WPut(E[2]) /\ wrow[E[2]] = E[3]
        \/ Is("WExit") /\ ack[E[2]] /\ WExit(E[2])
        \/ Is("FeedOut") /\ FeedOut(E[2]) /\ Head(obuf[E[2]]) = E[3]
        \/ Is("FGet") /\ FGet /\ Head(qout) = E[2]
        \/ Is("FFwd") /\ FFwd /\ frow = E[2]
        \/ Is("FEnd") /\ FEnd
        \/ Is("CGet") /\ CGet /\ Head(qint) = E[2]
        \/ Is("CJoinProd") /\ CJoinProd
        \/ Is("CJoinW") /\ CJoinW /\ jw = E[2]
        \/ Is("CJoinF") /\ CJoinF
\* real multiprocessing does not show its feeder threads: a Feed step may happen silently (bounded: buffers only shrink)
Silent == /\ ~Traces[t].feeds
          /\ (FeedIn \/ \E w \in W : FeedOut(w))
\* real multiprocessing: the dequeue is silent, the logged WGet acknowledges what the worker holds
Take == /\ ~Traces[t].feeds /\ \E w \in W : ack[w] /\ WGet(w) /\ ack' = [ack EXCEPT ![w] = FALSE]
Acknowledge == /\ Is("WGet") /\ ~Traces[t].feeds /\ ~ack[E[2]] /\ wrow[E[2]] = E[3]
               /\ ack' = [ack EXCEPT ![E[2]] = TRUE] /\ UNCHANGED vars
TraceNext == \/ /\ Step /\ l' = l + 1 /\ UNCHANGED <<t, ack>>
                /\ inv' = (inv /\ AtMostOnce' /\ AppliedBeforeDelivered')
             \/ /\ Acknowledge /\ l' = l + 1 /\ UNCHANGED <<t, inv>>
             \/ /\ Silent /\ UNCHANGED <<t, l, inv, ack>>
             \/ /\ Take /\ UNCHANGED <<t, l>> /\ inv' = (inv /\ AtMostOnce' /\ AppliedBeforeDelivered')
TraceSpec == TraceInit /\ [][TraceNext]_tvars

\* the property, on the RECORDED outcome
RecOnce == /\ Rec.terminated
           /\ Len(Rec.delivered) = R
           /\ \A r \in 1..R : Cardinality({i \in 1..Len(Rec.delivered) : Rec.delivered[i] = r}) = 1
           /\ \A i \in 1..Len(Rec.delivered) : Rec.applied[i] = (IF Rec.delivered[i] \in Sel \ Fail THEN 1 ELSE 0)
\* progress register per trace: the furthest point reached (monotone in l), with the model-side verdicts there
Progress == LET old == TLCGetOrDefault(t, <<0>>) IN
            IF l - 1 >= old[1]
            THEN TLCSet(t, <<l - 1, Len(Ev), inv, cphase \in {"done", "failed"},
                             (cphase = "done" => (ExactlyOnce /\ Quiescent)) /\ UpstreamFailureSurfaces, delivered = Rec.delivered>>)
            ELSE TRUE
Report == \A i \in 1..Len(Traces) : PrintT(<<"VERDICT", i, TLCGet(i),
             LET rec == Traces[i].fin IN
             IF FailAt = 0
             THEN /\ rec.terminated /\ Len(rec.delivered) = R
                  /\ \A r \in 1..R : Cardinality({k \in 1..Len(rec.delivered) : rec.delivered[k] = r}) = 1
                  /\ \A k \in 1..Len(rec.delivered) : rec.applied[k] = (IF rec.delivered[k] \in Sel \ Fail THEN 1 ELSE 0)
             \* a failing upstream (C04 inside parallelize): the run raises THAT failure, nobody is left behind, and what was
             \* delivered before are rows that precede the failure, at most once each
             ELSE /\ ~rec.terminated /\ rec.failed /\ rec.clean
                  /\ \A k \in 1..Len(rec.delivered) : rec.delivered[k] < FailAt
                  /\ \A r \in 1..R : Cardinality({k \in 1..Len(rec.delivered) : rec.delivered[k] = r}) <= 1>>)
=============================================================================
