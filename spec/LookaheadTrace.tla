--------------------------- MODULE LookaheadTrace ---------------------------
(***************************************************************************)
(* C06 on long real streams.  A record is one run of a row-wise pipeline   *)
(* over a counted source of n rows:                                        *)
(*   id, pair   run id and the id of the same pipeline run at another size *)
(*   n          rows in the source                                         *)
(*   bound      K(program): the constant the read-ahead may reach - sum of *)
(*              the inference samples / reader pre-reads of its sources    *)
(*              plus the write batches of its steps (computed from the     *)
(*              PROGRAM only, never from n)                                *)
(*   obs        deliveries <<k, pulled>> at the end of the pipeline: row k *)
(*              of the source delivered when `pulled` rows had been read   *)
(*              (down-sampled: every new maximum of pulled-k, every 1000th *)
(*              delivery, the last one)                                    *)
(* The deliveries are replayed as a state machine; the invariant is        *)
(* Engine!BoundedLookahead with the real constants.                        *)
(***************************************************************************)
EXTENDS Naturals, Sequences, FiniteSets, TLC, Json, IOUtils

Runs == ndJsonDeserialize(IOEnv.TRACE_FILE)

VARIABLES t, pos, maxLook, okOrder
vars == <<t, pos, maxLook, okOrder>>
R == Runs[t]
MaxNat(a, b) == IF a > b THEN a ELSE b

Init == t \in 1..Len(Runs) /\ pos = 0 /\ maxLook = 0 /\ okOrder = TRUE
Deliver == /\ pos < Len(R.obs)
           /\ pos' = pos + 1
           /\ LET o == R.obs[pos + 1] IN
              /\ maxLook' = MaxNat(maxLook, o[2] - o[1])
              /\ okOrder' = (okOrder /\ o[2] >= o[1] /\ o[2] <= R.n
                             /\ (pos > 0 => (R.obs[pos][1] <= o[1] /\ R.obs[pos][2] <= o[2])))      \* (<=: a last observation after the consumer stopped repeats the row)
           /\ UNCHANGED t
Next == Deliver
Spec == Init /\ [][Next]_vars

\* rows are pulled only as rows are delivered: never more than the constant ahead
BoundedLookahead == maxLook <= R.bound
\* a delivery never precedes its own read, reads never exceed the source, both advance monotonically
Causal == okOrder

Done == pos = Len(R.obs)
\* size independence: the same pipeline at another size reached the same maximum (when both sizes exceed the bound)
Pair(id) == CHOOSE j \in 1..Len(Runs) : Runs[j].id = id
Verdict == Done => PrintT(<<"VERDICT", t, maxLook, maxLook <= R.bound, okOrder>>)
=============================================================================
