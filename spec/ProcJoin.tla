------------------------------ MODULE ProcJoin ------------------------------
(***************************************************************************)
(* join / join_with_self (C11), written twice:                             *)
(*  (i)  JoinDef - the declarative relational definition: each target row, *)
(*       in order, extended with aggregates over exactly the source rows   *)
(*       that render the same key; unmatched handling per mode; one row    *)
(*       per unmatched source key in full-outer mode; deduplication mode;  *)
(*  (ii) the streaming design the code implements: IndexRow folds every    *)
(*       source row into a per-key state, EmitTarget extends target rows   *)
(*       and marks keys used, the unused keys are emitted at the end.      *)
(* TLC checks (ii) = (i) on every case of the bounded universe and exports *)
(* the cases for replay.                                                   *)
(*                                                                         *)
(* Values: <<"n">> null, <<"i", k>> integer, <<"q", num, den>> rational in *)
(* lowest terms (results of avg / median), <<"a", seq>> array,             *)
(* <<"c", set of <<value, count>>>> counters, <<"s", set>> set.            *)
(* A source row is [k, v], a target row [k, t]; the joined field is x.     *)
(***************************************************************************)
EXTENDS Naturals, Integers, Sequences, FiniteSets, TLC, SequencesExt, FiniteSetsExt, Functions, Json

CONSTANTS MaxSrc, MaxTgt, Aggs, Modes, KeyShapes,
          NegVals      \* FALSE: source values {0, 2, null}; TRUE: {0, -1, null} (order aggregates meet a negative value after a zero)

Null == <<"n">>
I(k) == <<"i", k>>
Keys == {I(1), I(2), Null}
Vals == (IF NegVals THEN {I(0), I(0 - 1)} ELSE {I(0), I(2)}) \cup {Null}        \* 0 is there on purpose: a falsy running aggregate
AllAggs == {"sum", "avg", "median", "min", "max", "first", "last", "count", "counters", "set", "array", "any"}

SrcRow == [k : Keys, v : Vals]
TgtRow == [k : Keys, t : {I(7)}]
SeqsUpTo(S, n) == UNION {[1..m -> S] : m \in 0..n}

RECURSIVE Gcd(_, _)
Gcd(a, b) == IF b = 0 THEN a ELSE Gcd(b, a % b)
Q(num, den) == LET g == Gcd(num, den) IN <<"q", num \div g, den \div g>>     \* num, den > 0 here

\* ------------------ (i) declarative definition ------------------
\* the key of row i under a key shape: its key field, or its row number ("{#}")
KeyOf(shape, rows, i) == IF shape = "rownum" THEN I(i) ELSE rows[i].k
Matching(shape, s, key) == LET idx == SelectSeq([i \in 1..Len(s) |-> i], LAMBDA i : KeyOf(shape, s, i) = key)
                           IN [n \in 1..Len(idx) |-> s[idx[n]]]
NonNull(rows) == SelectSeq([i \in 1..Len(rows) |-> rows[i].v], LAMBDA x : x # Null)
Ints(vs) == [i \in 1..Len(vs) |-> vs[i][2]]
RECURSIVE SumSeq(_)
SumSeq(s) == IF s = <<>> THEN 0 ELSE Head(s) + SumSeq(Tail(s))
SortedInts(vs) == SortSeq(Ints(vs), <)
AggDef(a, rows) ==            \* rows: the matching source rows (non-empty), in order
  LET nn == NonNull(rows) IN
  CASE a = "count" -> I(Len(rows))
    [] a = "array" -> <<"a", nn>>
    [] a = "set"   -> <<"s", Range(nn)>>
    [] a = "counters" -> <<"c", {<<x, Cardinality({i \in 1..Len(nn) : nn[i] = x})>> : x \in Range(nn)}>>
    [] nn = <<>>   -> Null
    [] a = "sum"   -> I(SumSeq(Ints(nn)))
    [] a = "avg"   -> Q(SumSeq(Ints(nn)), Len(nn))
    [] a = "median" -> LET so == SortedInts(nn) n == Len(so) IN
                       IF n % 2 = 1 THEN I(so[(n + 1) \div 2]) ELSE Q(so[n \div 2] + so[n \div 2 + 1], 2)
    [] a = "first" -> nn[1]
    [] a \in {"last", "any"} -> nn[Len(nn)]
    [] a = "min"   -> I(Min(Range(Ints(nn))))
    [] a = "max"   -> I(Max(Range(Ints(nn))))
SrcKeys(shape, s) == {KeyOf(shape, s, i) : i \in 1..Len(s)}
TgtKeys(shape, t) == {KeyOf(shape, t, i) : i \in 1..Len(t)}
JoinDef(shape, s, t, m, a) ==
  LET hit(i) == KeyOf(shape, t, i) \in SrcKeys(shape, s)
      keep == SelectSeq([i \in 1..Len(t) |-> i], LAMBDA i : m # "inner" \/ hit(i))
      rowOf(i) == [k |-> t[i].k, t |-> t[i].t, x |-> IF hit(i) THEN AggDef(a, Matching(shape, s, KeyOf(shape, t, i))) ELSE Null]
      unmatched == IF m = "full-outer"
                   \* a row of its own, with the target's own fields null (it carries EVERY field the target declares)
                   THEN {[key |-> key, t |-> Null, x |-> AggDef(a, Matching(shape, s, key))] : key \in SrcKeys(shape, s) \ TgtKeys(shape, t)}
                   ELSE {}
  IN [ordered |-> [n \in 1..Len(keep) |-> rowOf(keep[n])], extra |-> unmatched]
\* deduplication mode (join_with_self): exactly one aggregated row per distinct key
DedupDef(s, a) == {[key |-> key, x |-> AggDef(a, Matching("field", s, key))] : key \in SrcKeys("field", s)}

\* ------------------ (ii) the streaming design ------------------
VARIABLES src, tgt, mode, agg, shape, phase, db, used, pos, outp
vars == <<src, tgt, mode, agg, shape, phase, db, used, pos, outp>>

AggStep(a, curr, new) ==       \* curr = <<"none">> or <<"some", state>>; nulls are skipped except by count
  IF new = Null /\ a # "count" THEN curr
  ELSE IF curr[1] = "none"
       THEN <<"some", CASE a = "count" -> 1
                        [] a \in {"array", "median"} -> <<new>>
                        [] a = "set" -> {new}
                        [] a = "counters" -> <<new>>
                        [] a = "avg" -> <<1, new[2]>>
                        [] OTHER -> new>>
       ELSE <<"some", CASE a = "sum" -> I(new[2] + curr[2][2])
                        [] a = "avg" -> <<curr[2][1] + 1, curr[2][2] + new[2]>>
                        [] a = "count" -> curr[2] + 1
                        [] a = "first" -> curr[2]
                        [] a \in {"last", "any"} -> new
                        [] a = "min" -> IF new[2] < curr[2][2] THEN new ELSE curr[2]
                        [] a = "max" -> IF new[2] > curr[2][2] THEN new ELSE curr[2]
                        [] a = "set" -> curr[2] \cup {new}
                        [] a \in {"array", "median", "counters"} -> Append(curr[2], new)>>
Final(a, st) ==
  IF st[1] = "none" THEN (CASE a = "array" -> <<"a", <<>>>> [] a = "set" -> <<"s", {}>> [] a = "counters" -> <<"c", {}>> [] OTHER -> Null)
  ELSE CASE a = "count" -> I(st[2])
         [] a = "array" -> <<"a", st[2]>>
         [] a = "set" -> <<"s", st[2]>>
         [] a = "counters" -> <<"c", {<<x, Cardinality({i \in 1..Len(st[2]) : st[2][i] = x})>> : x \in Range(st[2])}>>
         [] a = "avg" -> Q(st[2][2], st[2][1])
         [] a = "median" -> LET so == SortedInts(st[2]) n == Len(so) IN
                            IF n % 2 = 1 THEN I(so[(n + 1) \div 2]) ELSE Q(so[n \div 2] + so[n \div 2 + 1], 2)
         [] OTHER -> st[2]

Init == /\ src \in SeqsUpTo(SrcRow, MaxSrc) /\ tgt \in SeqsUpTo(TgtRow, MaxTgt)
        /\ mode \in Modes /\ agg \in Aggs /\ shape \in KeyShapes
        /\ phase = "index" /\ db = <<>> /\ used = {} /\ pos = 1 /\ outp = <<>>
DbGet(key) == IF \E i \in 1..Len(db) : db[i][1] = key THEN (CHOOSE i \in 1..Len(db) : db[i][1] = key) ELSE 0
IndexRow == /\ phase = "index" /\ pos <= Len(src)
            /\ LET key == KeyOf(shape, src, pos)  i == DbGet(key)  curr == IF i = 0 THEN <<"none">> ELSE db[i][2]
                   nxt == AggStep(agg, curr, src[pos].v)
               IN db' = IF i = 0 THEN Append(db, <<key, nxt>>) ELSE [db EXCEPT ![i] = <<key, nxt>>]
            /\ pos' = pos + 1 /\ UNCHANGED <<src, tgt, mode, agg, shape, phase, used, outp>>
IndexDone == /\ phase = "index" /\ pos > Len(src) /\ phase' = "target" /\ pos' = 1
             /\ UNCHANGED <<src, tgt, mode, agg, shape, db, used, outp>>
EmitTarget == /\ phase = "target" /\ pos <= Len(tgt)
              /\ LET r == tgt[pos]  key == KeyOf(shape, tgt, pos)  i == DbGet(key) IN
                 IF i # 0 THEN /\ outp' = Append(outp, [k |-> r.k, t |-> r.t, x |-> Final(agg, db[i][2])])
                               /\ used' = used \cup {key}
                 ELSE IF mode = "inner" THEN UNCHANGED <<outp, used>>
                 ELSE /\ outp' = Append(outp, [k |-> r.k, t |-> r.t, x |-> Null]) /\ UNCHANGED used
              /\ pos' = pos + 1 /\ UNCHANGED <<src, tgt, mode, agg, shape, phase, db>>
TargetDone == /\ phase = "target" /\ pos > Len(tgt) /\ phase' = "done"
              /\ UNCHANGED <<src, tgt, mode, agg, shape, db, used, pos, outp>>
Next == IndexRow \/ IndexDone \/ EmitTarget \/ TargetDone
Spec == Init /\ [][Next]_vars

Extra == IF mode = "full-outer" THEN {[key |-> db[i][1], t |-> Null, x |-> Final(agg, db[i][2])] : i \in {j \in 1..Len(db) : db[j][1] \notin used}} ELSE {}
Dedup == {[key |-> db[i][1], x |-> Final(agg, db[i][2])] : i \in 1..Len(db)}

\* C11 at the design level: the streaming design computes the declarative join
StreamingMeetsDefinition ==
   phase = "done" => LET d == JoinDef(shape, src, tgt, mode, agg) IN outp = d.ordered /\ Extra = d.extra
DedupMeetsDefinition == (phase = "target" /\ pos = 1 /\ shape = "field") => Dedup = DedupDef(src, agg)

Export == phase = "done" =>
   PrintT(<<"CASE", ToJson([src |-> src, tgt |-> tgt, mode |-> mode, agg |-> agg, shape |-> shape,
                            ordered |-> outp, extra |-> SetToSeq(Extra), dedup |-> SetToSeq(Dedup)])>>)
=============================================================================
