----------------------------- MODULE Parallelize -----------------------------
(***************************************************************************)
(* dataflows.processors.parallelize: one resource stream of R rows is      *)
(* fanned out to N worker PROCESSES and collected again.                   *)
(*                                                                         *)
(*   collector  the `fork` generator, driven by the downstream consumer    *)
(*   producer   thread: reads the upstream rows, routes selected rows to   *)
(*              q_in and the others straight to q_internal, then sends N   *)
(*              end markers on q_in                                        *)
(*   worker w   process: q_in.get -> row_func -> q_out.put; on an end      *)
(*              marker puts its own end marker on q_out (in `finally`)     *)
(*   fetcher    thread: forwards q_out to q_internal, swallows N-1 end     *)
(*              markers and forwards the N-th                              *)
(*                                                                         *)
(* Channels as they really behave: q_in and q_out are multiprocessing      *)
(* Queues, i.e. a buffer PER PUTTING PROCESS drained by that process's     *)
(* feeder thread into one shared pipe - FIFO per producer, arbitrary       *)
(* across processes (Feed actions); q_internal is a thread queue (atomic). *)
(* Rows are identified by 1..R; Sel is the set the predicate selects.      *)
(* The start is lazy: rows before the first selected one are yielded by    *)
(* the collector itself and nothing is started if none is selected.        *)
(***************************************************************************)
EXTENDS Naturals, Sequences, FiniteSets, TLC

CONSTANTS R,        \* number of input rows (ids 1..R)
          N,        \* number of workers
          Sel,      \* set of selected row ids (the predicate pattern)
          Fail,     \* selected rows on which row_func raises: the worker reports it and STILL delivers the row (unchanged)
          FailAt    \* 0: the upstream iterator is healthy; k in 1..R+1: it raises when asked for its k-th item (R+1 = at exhaustion)
ClosesIn == FALSE           \* cfg: ClosesIn <- SwallowsOn = the rejected design "release the pipe early" (a seeded change of round 8)
SwallowUpstream == FALSE   \* cfg: SwallowUpstream <- SwallowsOn = the pinned tree (defect): the producer swallowed an upstream failure,
SwallowsOn == TRUE         \*      only ended the collector's loop and never released the workers
W == 1..N
NONE == 0           \* end marker

VARIABLES nextIn,   \* next upstream row not yet taken
          cphase,   \* collector: "peek" | "run" | "joinprod" | "joinw" | "joinf" | "done"
          jw,       \* next worker the collector joins
          pphase,   \* producer: "off" | "rows" | "markers" | "done"
          pmark,    \* end markers the producer still has to send
          pbuf,     \* the producer process's feeder buffer for q_in
          qin,      \* q_in pipe
          wst,      \* worker: "off" | "get" | "put" | "exit" | "done"
          wrow,     \* row a worker holds
          obuf,     \* per-worker feeder buffer for q_out
          qout,     \* q_out pipe
          fst,      \* fetcher: "off" | "get" | "fwd" | "end" | "done"
          frow,     \* row the fetcher holds
          fexp,     \* end markers the fetcher still expects
          qint,     \* q_internal (thread queue)
          delivered,\* sequence of row ids yielded downstream
          applied,  \* applied[r] = how often row_func ran on row r
          perr,     \* the producer thread has caught an upstream failure (it is re-raised by the collector after the joins)
          nf,       \* the next worker process the collector forks (the start is NOT atomic: producer thread, then one fork per worker, then the fetcher thread)
          inClosed  \* (rejected design ClosesIn) the parent's ends of the q_in pipe are closed: a worker forked now inherits dead handles
vars == <<nextIn, cphase, jw, pphase, pmark, pbuf, qin, wst, wrow, obuf, qout, fst, frow, fexp, qint, delivered, applied, perr, nf, inClosed>>

Init == /\ nextIn = 1 /\ cphase = "peek" /\ jw = 1
        /\ pphase = "off" /\ pmark = 0 /\ pbuf = <<>> /\ qin = <<>>
        /\ wst = [w \in W |-> "off"] /\ wrow = [w \in W |-> 0] /\ obuf = [w \in W |-> <<>>] /\ qout = <<>>
        /\ fst = "off" /\ frow = 0 /\ fexp = N /\ qint = <<>>
        /\ delivered = <<>> /\ applied = [r \in 1..R |-> 0] /\ perr = FALSE
        /\ nf = 1 /\ inClosed = FALSE

\* ---- collector before the lazy start ----
CPeekYield == /\ cphase = "peek" /\ nextIn <= R /\ nextIn \notin Sel /\ nextIn # FailAt
              /\ delivered' = Append(delivered, nextIn) /\ nextIn' = nextIn + 1
              /\ UNCHANGED <<cphase, jw, pphase, pmark, pbuf, qin, wst, wrow, obuf, qout, fst, frow, fexp, qint, applied, perr, nf, inClosed>>
CPeekEnd == /\ cphase = "peek" /\ nextIn > R /\ nextIn # FailAt /\ cphase' = "done"
            /\ UNCHANGED <<nextIn, jw, pphase, pmark, pbuf, qin, wst, wrow, obuf, qout, fst, frow, fexp, qint, delivered, applied, perr, nf, inClosed>>
\* the collector itself reads the rows before the first selected one: a failure there propagates as it is
CPeekFail == /\ cphase = "peek" /\ nextIn = FailAt /\ cphase' = "failed"
             /\ UNCHANGED <<nextIn, jw, pphase, pmark, pbuf, qin, wst, wrow, obuf, qout, fst, frow, fexp, qint, delivered, applied, perr, nf, inClosed>>
\* first selected row: chained back in front; the PRODUCER THREAD starts (it may run ahead while the collector is still forking)
CStart == /\ cphase = "peek" /\ nextIn <= R /\ nextIn \in Sel /\ nextIn # FailAt
          /\ cphase' = "fork" /\ pphase' = "rows"
          /\ UNCHANGED <<nextIn, jw, pmark, pbuf, qin, wst, wrow, obuf, qout, fst, frow, fexp, qint, delivered, applied, perr, nf, inClosed>>
\* init_mp: one fork per worker; the child gets the parent's queue handles AS THEY ARE NOW - closed ones stay closed: its first
\* q_in.get() raises, the worker body swallows that and reports its end
CFork == /\ cphase = "fork" /\ nf <= N
         /\ wst' = [wst EXCEPT ![nf] = IF inClosed THEN "exit" ELSE "get"]
         /\ nf' = nf + 1
         /\ UNCHANGED <<nextIn, cphase, jw, pphase, pmark, pbuf, qin, wrow, obuf, qout, fst, frow, fexp, qint, delivered, applied, perr, inClosed>>
\* ... then the fetcher thread; the collector enters its loop
CStartF == /\ cphase = "fork" /\ nf > N
           /\ fst' = "get" /\ cphase' = "run"
           /\ UNCHANGED <<nextIn, jw, pphase, pmark, pbuf, qin, wst, wrow, obuf, qout, frow, fexp, qint, delivered, applied, perr, nf, inClosed>>
\* ---- producer thread ----
PPut == /\ pphase = "rows" /\ nextIn <= R /\ nextIn # FailAt   \* next upstream row, routed by the predicate
        /\ nextIn' = nextIn + 1
        /\ IF nextIn \in Sel THEN /\ pbuf' = Append(pbuf, nextIn) /\ UNCHANGED qint
                             ELSE /\ qint' = Append(qint, nextIn) /\ UNCHANGED pbuf
        /\ UNCHANGED <<cphase, jw, pphase, pmark, qin, wst, wrow, obuf, qout, fst, frow, fexp, delivered, applied, perr, nf, inClosed>>
\* upstream exhausted: N end markers, one put each; the thread ends after the last one
\* ... or failed: the failure is remembered and the workers are released all the same (finally)
PMarker == /\ ~(SwallowUpstream /\ pphase = "rows" /\ nextIn = FailAt)
           /\ \/ (pphase = "rows" /\ (nextIn > R \/ nextIn = FailAt) /\ pmark' = N - 1 /\ perr' = (nextIn = FailAt))
              \/ (pphase = "markers" /\ pmark > 0 /\ pmark' = pmark - 1 /\ UNCHANGED perr)
           /\ pbuf' = Append(pbuf, NONE)
           /\ pphase' = IF pmark' = 0 THEN "done" ELSE "markers"
           /\ UNCHANGED <<nextIn, cphase, jw, qin, wst, wrow, obuf, qout, fst, frow, fexp, qint, delivered, applied, nf, inClosed>>
\* (deviation, the pinned tree) the failure only ends the collector's loop: no end markers, nothing remembered
PSwallow == /\ SwallowUpstream /\ pphase = "rows" /\ nextIn = FailAt
            /\ qint' = Append(qint, NONE) /\ pphase' = "done"
            /\ UNCHANGED <<nextIn, cphase, jw, pmark, pbuf, qin, wst, wrow, obuf, qout, fst, frow, fexp, delivered, applied, perr, nf, inClosed>>
\* (rejected design, ClosesIn = TRUE) the producer calls q_in.close() after the end markers: once the feeder has flushed, BOTH pipe
\* ends are closed in the parent process (CPython's Queue._feed on the close sentinel)
PClosed == /\ ClosesIn /\ pphase = "done" /\ pbuf = <<>> /\ ~inClosed
           /\ inClosed' = TRUE
           /\ UNCHANGED <<nextIn, cphase, jw, pphase, pmark, pbuf, qin, wst, wrow, obuf, qout, fst, frow, fexp, qint, delivered, applied, perr, nf>>
FeedIn == /\ pbuf # <<>> /\ qin' = Append(qin, Head(pbuf)) /\ pbuf' = Tail(pbuf)
          /\ UNCHANGED <<nextIn, cphase, jw, pphase, pmark, wst, wrow, obuf, qout, fst, frow, fexp, qint, delivered, applied, perr, nf, inClosed>>
\* ---- workers ----
WGet(w) == /\ wst[w] = "get" /\ qin # <<>>
           /\ qin' = Tail(qin) /\ wrow' = [wrow EXCEPT ![w] = Head(qin)]
           /\ IF Head(qin) = NONE THEN /\ wst' = [wst EXCEPT ![w] = "exit"] /\ UNCHANGED applied
                                  ELSE /\ wst' = [wst EXCEPT ![w] = "put"]            \* row_func runs right after the get
                                       /\ applied' = IF Head(qin) \in Fail THEN applied ELSE [applied EXCEPT ![Head(qin)] = @ + 1]
           /\ UNCHANGED <<nextIn, cphase, jw, pphase, pmark, pbuf, obuf, qout, fst, frow, fexp, qint, delivered, perr, nf, inClosed>>
WPut(w) == /\ wst[w] = "put" /\ obuf' = [obuf EXCEPT ![w] = Append(@, wrow[w])]
           /\ wst' = [wst EXCEPT ![w] = "get"] /\ wrow' = [wrow EXCEPT ![w] = 0]
           /\ UNCHANGED <<nextIn, cphase, jw, pphase, pmark, pbuf, qin, qout, fst, frow, fexp, qint, delivered, applied, perr, nf, inClosed>>
WExit(w) == /\ wst[w] = "exit" /\ obuf' = [obuf EXCEPT ![w] = Append(@, NONE)]
            /\ wst' = [wst EXCEPT ![w] = "done"]
            /\ UNCHANGED <<nextIn, cphase, jw, pphase, pmark, pbuf, qin, wrow, qout, fst, frow, fexp, qint, delivered, applied, perr, nf, inClosed>>
FeedOut(w) == /\ obuf[w] # <<>> /\ qout' = Append(qout, Head(obuf[w])) /\ obuf' = [obuf EXCEPT ![w] = Tail(@)]
              /\ UNCHANGED <<nextIn, cphase, jw, pphase, pmark, pbuf, qin, wst, wrow, fst, frow, fexp, qint, delivered, applied, perr, nf, inClosed>>
\* ---- fetcher thread ----
FGet == /\ fst = "get" /\ qout # <<>> /\ qout' = Tail(qout) /\ frow' = Head(qout)
        /\ IF Head(qout) = NONE
             THEN /\ fexp' = fexp - 1 /\ fst' = IF fexp - 1 = 0 THEN "end" ELSE "get"
             ELSE /\ fst' = "fwd" /\ UNCHANGED fexp
        /\ UNCHANGED <<nextIn, cphase, jw, pphase, pmark, pbuf, qin, wst, wrow, obuf, qint, delivered, applied, perr, nf, inClosed>>
FFwd == /\ fst = "fwd" /\ qint' = Append(qint, frow) /\ fst' = "get"
        /\ UNCHANGED <<nextIn, cphase, jw, pphase, pmark, pbuf, qin, wst, wrow, obuf, qout, frow, fexp, delivered, applied, perr, nf, inClosed>>
FEnd == /\ fst = "end" /\ qint' = Append(qint, NONE) /\ fst' = "done"
        /\ UNCHANGED <<nextIn, cphase, jw, pphase, pmark, pbuf, qin, wst, wrow, obuf, qout, frow, fexp, delivered, applied, perr, nf, inClosed>>
\* ---- collector after the start ----
CGet == /\ cphase = "run" /\ qint # <<>> /\ qint' = Tail(qint)
        /\ IF Head(qint) = NONE THEN /\ cphase' = "joinprod" /\ UNCHANGED delivered
                                ELSE /\ delivered' = Append(delivered, Head(qint)) /\ UNCHANGED cphase
        /\ UNCHANGED <<nextIn, jw, pphase, pmark, pbuf, qin, wst, wrow, obuf, qout, fst, frow, fexp, applied, perr, nf, inClosed>>
CJoinProd == /\ cphase = "joinprod" /\ pphase = "done" /\ cphase' = "joinw"
             /\ UNCHANGED <<nextIn, jw, pphase, pmark, pbuf, qin, wst, wrow, obuf, qout, fst, frow, fexp, qint, delivered, applied, perr, nf, inClosed>>
CJoinW == /\ cphase = "joinw"
          /\ wst[jw] = "done" /\ obuf[jw] = <<>>                 \* a process exits only after its feeder has flushed
          /\ jw' = jw + 1
          /\ cphase' = IF jw = N THEN "joinf" ELSE "joinw"
          /\ UNCHANGED <<nextIn, pphase, pmark, pbuf, qin, wst, wrow, obuf, qout, fst, frow, fexp, qint, delivered, applied, perr, nf, inClosed>>
CJoinF == /\ cphase = "joinf" /\ fst = "done" /\ cphase' = (IF perr THEN "failed" ELSE "done")     \* the remembered failure is raised now
          /\ UNCHANGED <<nextIn, jw, pphase, pmark, pbuf, qin, wst, wrow, obuf, qout, fst, frow, fexp, qint, delivered, applied, perr, nf, inClosed>>

Collector == CPeekYield \/ CPeekEnd \/ CPeekFail \/ CStart \/ CFork \/ CStartF \/ CGet \/ CJoinProd \/ CJoinW \/ CJoinF
Producer == PPut \/ PMarker \/ PSwallow
Fetcher == FGet \/ FFwd \/ FEnd
Worker(w) == WGet(w) \/ WPut(w) \/ WExit(w)
Next == Collector \/ Producer \/ FeedIn \/ PClosed \/ Fetcher \/ \E w \in W : Worker(w) \/ FeedOut(w)
Spec == Init /\ [][Next]_vars
FairSpec == Spec /\ WF_vars(Collector) /\ WF_vars(Producer) /\ WF_vars(FeedIn) /\ WF_vars(Fetcher)
                 /\ \A w \in W : WF_vars(Worker(w)) /\ WF_vars(FeedOut(w))

----------------------------------------------------------------------------
\* Properties (C18)
SeqToSet(s) == {s[i] : i \in 1..Len(s)}
NoDup == \A i, j \in 1..Len(delivered) : i # j => delivered[i] # delivered[j]
\* every row delivered exactly once; row_func applied exactly once to selected rows, never to the others
ExactlyOnce == cphase = "done" => /\ SeqToSet(delivered) = 1..R /\ Len(delivered) = R
                                  /\ \A r \in 1..R : applied[r] = IF r \in Sel \ Fail THEN 1 ELSE 0
AtMostOnce == NoDup /\ \A r \in 1..R : applied[r] <= 1
\* a selected row is delivered only after row_func has been applied to it
AppliedBeforeDelivered == \A i \in 1..Len(delivered) : delivered[i] \in Sel \ Fail => applied[delivered[i]] = 1
\* nothing is left in any queue or buffer at the end
Quiescent == cphase = "done" => /\ qin = <<>> /\ qout = <<>> /\ qint = <<>> /\ pbuf = <<>> /\ \A w \in W : obuf[w] = <<>>
\* the end-of-stream marker reaches the collector only after every row (action property)
NoRowAfterEnd == [][cphase # "run" /\ cphase # "peek" => delivered' = delivered]_vars
\* rows not selected keep their relative order; so do rows that went through one and the same... (only order may differ)
OnlyOrderDiffers == cphase = "done" => \A r \in 1..R : \E i \in 1..Len(delivered) : delivered[i] = r
\* liveness: under weak fairness of every activity the collector finishes
Termination == <>(cphase \in {"done", "failed"})
\* C04 inside parallelize: an upstream failure always surfaces, with every actor finished and nothing left in a queue;
\* a healthy upstream never fails; what was delivered before the failure are rows that precede it, at most once each
Started == pphase # "off"
UpstreamFailureSurfaces ==
   /\ cphase = "done" => FailAt = 0
   /\ cphase = "failed" => /\ FailAt # 0
                            /\ Started => /\ pphase = "done" /\ fst = "done" /\ (\A w \in W : wst[w] = "done" /\ obuf[w] = <<>>)
                                           /\ qin = <<>> /\ qout = <<>> /\ qint = <<>> /\ pbuf = <<>>
                            /\ \A i \in 1..Len(delivered) : delivered[i] < FailAt
=============================================================================
