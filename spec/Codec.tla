--------------------------------- MODULE Codec ---------------------------------
(***************************************************************************)
(* Byte-level CSV codec used by the file dumpers and by load (C03, C13).   *)
(* Text is a sequence of code points.  The WRITER is Python's csv writer   *)
(* as the dumper configures it (QUOTE_MINIMAL, delimiter ",", quote char   *)
(* '"' doubled inside quoted cells, line terminator CR LF, null as the     *)
(* empty cell); the READER is driven only by the dialect the dumper        *)
(* RECORDS in the descriptor (delimiter, quoteChar, doubleQuote,           *)
(* lineTerminator, skipInitialSpace).  Readers are written as folds over   *)
(* the bytes (deep recursion overflows TLC's stack on long inputs).        *)
(***************************************************************************)
EXTENDS Naturals, Sequences, FiniteSets, TLC, SequencesExt, Functions, Folds

Comma == 44  Quote == 34  LF == 10  CR == 13  Space == 32

Dialect(delim, quote) == [delimiter |-> delim, quoteChar |-> quote, doubleQuote |-> TRUE, skipInitialSpace |-> FALSE]
Recorded == Dialect(Comma, Quote)          \* what CSVFormat.prepare_resource records

\* ---------------- writer ----------------
NeedsQuote(s, d) == \E i \in DOMAIN s : s[i] \in {d.delimiter, d.quoteChar, LF, CR}
RECURSIVE Doubled(_, _)
Doubled(s, q) == IF s = <<>> THEN <<>> ELSE (IF Head(s) = q THEN <<q, q>> ELSE <<Head(s)>>) \o Doubled(Tail(s), q)
EncodeCell(s, d) == IF NeedsQuote(s, d) THEN <<d.quoteChar>> \o Doubled(s, d.quoteChar) \o <<d.quoteChar>> ELSE s
RECURSIVE JoinCells(_, _)
JoinCells(cells, d) == IF Len(cells) = 1 THEN EncodeCell(cells[1], d)
                       ELSE EncodeCell(cells[1], d) \o <<d.delimiter>> \o JoinCells(Tail(cells), d)
\* a row that consists of one empty cell is written as "" (otherwise the line would be empty)
EncodeRow(cells, d) == (IF Len(cells) = 1 /\ cells[1] = <<>> THEN <<d.quoteChar, d.quoteChar>> ELSE JoinCells(cells, d)) \o <<CR, LF>>
RECURSIVE EncodeRows(_, _)
EncodeRows(rows, d) == IF rows = <<>> THEN <<>> ELSE EncodeRow(Head(rows), d) \o EncodeRows(Tail(rows), d)

\* ---------------- reader: a state machine folded over the bytes ----------------
\* state: [rows, row, cell, st]   st: "start" (of a cell) | "plain" | "quoted" | "quoteInQuoted" | "cr"
R0 == [rows |-> <<>>, row |-> <<>>, cell |-> <<>>, st |-> "start", any |-> FALSE]
EndCell(s) == [s EXCEPT !.row = Append(s.row, s.cell), !.cell = <<>>, !.st = "start"]
EndRow(s) == LET e == EndCell(s) IN [e EXCEPT !.rows = Append(e.rows, e.row), !.row = <<>>, !.any = FALSE]
Step(s, c, d) ==
  CASE s.st = "quoted" -> IF c = d.quoteChar THEN [s EXCEPT !.st = "quoteInQuoted"] ELSE [s EXCEPT !.cell = Append(s.cell, c)]
    [] s.st = "quoteInQuoted" /\ c = d.quoteChar -> [s EXCEPT !.cell = Append(s.cell, c), !.st = "quoted"]       \* doubled quote
    [] s.st = "cr" /\ c = LF -> [s EXCEPT !.st = "start"]                                                       \* CR LF is one terminator
    [] c = d.delimiter -> [EndCell(s) EXCEPT !.any = TRUE]
    [] c = CR -> [EndRow(s) EXCEPT !.st = "cr"]
    [] c = LF -> EndRow(s)
    [] c = d.quoteChar /\ s.st \in {"start", "cr"} -> [s EXCEPT !.st = "quoted", !.any = TRUE]
    [] OTHER -> [s EXCEPT !.cell = Append(s.cell, c), !.st = "plain", !.any = TRUE]
DecodeCSV(bytes, d) ==
  LET fin == FoldLeft(LAMBDA s, c : Step(s, c, d), R0, bytes)
  IN IF fin.st \in {"start", "cr"} /\ fin.row = <<>> /\ fin.cell = <<>> /\ ~fin.any THEN fin.rows ELSE EndRow(fin).rows

\* ---------------- the round-trip equation ----------------
RoundTrip(rows, d) == DecodeCSV(EncodeRows(rows, d), d) = rows
=============================================================================
