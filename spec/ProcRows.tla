------------------------------ MODULE ProcRows ------------------------------
(***************************************************************************)
(* filter_rows, deduplicate, unpivot (C17): neither lose nor invent data.  *)
(*                                                                         *)
(* A table has fields <<"a","b","xa","xb","xab">> ("xa","xb" are the ones  *)
(* an unpivot pattern x(.) selects, "xab" is not); a row is a record over   *)
(* them; values are <<"n">> (null) or <<"i", k>>.                          *)
(*                                                                         *)
(* filter_rows : cond = [kind, ...]                                        *)
(*    "equals"      any-of:  \E alternative [field, value] : row = value   *)
(*    "not_equals"  any-of:  \E alternative : row # value                  *)
(*    "callable"    an arbitrary predicate (here: field a is not 1)        *)
(* deduplicate : first row of each distinct primary-key tuple (nulls are   *)
(*    ordinary key values); idempotent                                     *)
(* unpivot     : spec = sequence of [pat, key] where pat is               *)
(*    [t |-> "lit", name |-> f]           a literal field name             *)
(*    [t |-> "re",  prefix |-> "x"]       the regex  x(.)  (one group)     *)
(*    key = "const" (a constant key value), "name" (the field name,        *)
(*    i.e. back-reference to the whole match) or "group" (\1)              *)
(*    For each row in order, each spec entry in order, each matching field *)
(*    in schema order: kept fields + derived key + the cell value.         *)
(***************************************************************************)
EXTENDS Integers, Sequences, FiniteSets, TLC, SequencesExt, Json

CONSTANTS MaxRows

Fields == <<"a", "b", "xa", "xb", "xab">>       \* "xab" starts like a match of x(.) but is not one: it must be KEPT
Null == <<"n">>
I(k) == <<"i", k>>
Vals == {I(-1), I(-2), Null}                    \* -1 and -2 on purpose: distinct values with the same hash in CPython
Row == [a : Vals, b : {I(1), Null}, xa : {I(5), Null}, xb : {I(6)}, xab : {I(9)}]
Tables == UNION {[1..n -> Row] : n \in 0..MaxRows}

\* ---------------- filter_rows ----------------
Conds == { [kind |-> "equals", alts |-> <<[f |-> "a", v |-> I(-1)]>>],
           [kind |-> "equals", alts |-> <<[f |-> "a", v |-> I(-1)], [f |-> "b", v |-> Null]>>],
           [kind |-> "not_equals", alts |-> <<[f |-> "a", v |-> I(-2)]>>],
           [kind |-> "not_equals", alts |-> <<[f |-> "a", v |-> I(-1)], [f |-> "b", v |-> I(1)]>>],
           [kind |-> "equals", alts |-> <<[f |-> "a", v |-> Null]>>],
           [kind |-> "callable", alts |-> <<>>] }
Holds(c, r) == CASE c.kind = "equals" -> \E i \in DOMAIN c.alts : r[c.alts[i].f] = c.alts[i].v
                 [] c.kind = "not_equals" -> \E i \in DOMAIN c.alts : r[c.alts[i].f] # c.alts[i].v
                 [] c.kind = "callable" -> r.a # I(-1)
FilterDef(c, t) == SelectSeq(t, LAMBDA r : Holds(c, r))

\* ---------------- deduplicate ----------------
PKs == {<<"a">>, <<"a", "b">>, <<"b">>, <<>>}
KeyOf(pk, r) == [i \in DOMAIN pk |-> r[pk[i]]]
DedupDef(pk, t) == IF pk = <<>> THEN t
                   ELSE LET keep == SelectSeq([i \in 1..Len(t) |-> i],
                                              LAMBDA i : \A j \in 1..(i - 1) : KeyOf(pk, t[j]) # KeyOf(pk, t[i]))
                        IN [n \in 1..Len(keep) |-> t[keep[n]]]

\* ---------------- unpivot ----------------
Lit(f) == [t |-> "lit", name |-> f, prefix |-> ""]
ReX == [t |-> "re", name |-> "", prefix |-> "x"]
Specs == { <<[pat |-> Lit("xa"), key |-> "const"]>>,
           <<[pat |-> ReX, key |-> "group"]>>,
           <<[pat |-> ReX, key |-> "name"]>>,
           <<[pat |-> Lit("xb"), key |-> "name"], [pat |-> Lit("xa"), key |-> "const"]>>,     \* specification order, not schema order
           <<[pat |-> Lit("b"), key |-> "const"], [pat |-> ReX, key |-> "group"]>>,
           <<[pat |-> Lit("xa"), key |-> "const"], [pat |-> ReX, key |-> "group"]>>,        \* overlapping entries: a field belongs to the FIRST entry that matches it
           <<[pat |-> ReX, key |-> "name"], [pat |-> Lit("xb"), key |-> "const"]>> }         \* ... so this second entry selects nothing
Matches(pat, f) == IF pat.t = "lit" THEN f = pat.name ELSE f \in {"xa", "xb"}        \* x(.) fully matches xa, xb
GroupOf(f) == IF f = "xa" THEN "a" ELSE "b"
DerivedKey(e, f) == CASE e.key = "const" -> "K" [] e.key = "name" -> f [] e.key = "group" -> GroupOf(f)
\* fields an entry unpivots: among those not taken by an earlier entry, in schema order
RECURSIVE Plan(_, _, _)
Plan(spec, n, avail) ==      \* sequence of <<entry index, field>>
  IF n > Len(spec) THEN <<>>
  ELSE LET mine == SelectSeq(avail, LAMBDA f : Matches(spec[n].pat, f))
           rest == SelectSeq(avail, LAMBDA f : ~Matches(spec[n].pat, f))
       IN [i \in 1..Len(mine) |-> <<n, mine[i]>>] \o Plan(spec, n + 1, rest)
RECURSIVE KeptAfter(_, _, _)
KeptAfter(spec, n, avail) == IF n > Len(spec) THEN avail ELSE KeptAfter(spec, n + 1, SelectSeq(avail, LAMBDA f : ~Matches(spec[n].pat, f)))
UnpivotDef(spec, t) ==
  LET plan == Plan(spec, 1, Fields)  kept == KeptAfter(spec, 1, Fields)
      rowsOf(r) == [p \in 1..Len(plan) |-> [kept |-> [i \in DOMAIN kept |-> r[kept[i]]],
                                            key |-> DerivedKey(spec[plan[p][1]], plan[p][2]),
                                            value |-> r[plan[p][2]]]]
  IN [kept |-> kept, rows |-> FlattenSeq([i \in 1..Len(t) |-> rowsOf(t[i])])]

\* ---------------- the bounded instance ----------------
VARIABLES tbl, op, arg
Init == /\ tbl \in Tables
        /\ \/ op = "filter" /\ arg \in Conds
           \/ op = "dedup" /\ arg \in PKs
           \/ op = "unpivot" /\ arg \in Specs
Next == UNCHANGED <<tbl, op, arg>>
Spec == Init /\ [][Next]_<<tbl, op, arg>>

\* C17 as properties of the definitions
IsSubsequence(s, t) == \E f \in [1..Len(s) -> 1..Len(t)] : (\A i \in 1..Len(s) : t[f[i]] = s[i]) /\ (\A i, j \in 1..Len(s) : i < j => f[i] < f[j])
FilterOK == op = "filter" => LET o == FilterDef(arg, tbl) IN
               /\ IsSubsequence(o, tbl) /\ \A i \in 1..Len(o) : Holds(arg, o[i])
               /\ Len(o) = Cardinality({i \in 1..Len(tbl) : Holds(arg, tbl[i])})
DedupOK == op = "dedup" => LET o == DedupDef(arg, tbl) IN
               /\ IsSubsequence(o, tbl)
               /\ DedupDef(arg, o) = o                                               \* idempotent
               /\ arg # <<>> => /\ \A i, j \in 1..Len(o) : i # j => KeyOf(arg, o[i]) # KeyOf(arg, o[j])
                                /\ {KeyOf(arg, tbl[i]) : i \in 1..Len(tbl)} = {KeyOf(arg, o[i]) : i \in 1..Len(o)}
\* no cell lost or invented: the value cells of the output are exactly the cells of the unpivoted fields, row by row
CellConservation == op = "unpivot" => LET u == UnpivotDef(arg, tbl) plan == Plan(arg, 1, Fields) IN
               /\ Len(u.rows) = Len(tbl) * Len(plan)
               /\ \A i \in 1..Len(tbl) : \A p \in 1..Len(plan) : u.rows[(i - 1) * Len(plan) + p].value = tbl[i][plan[p][2]]
               /\ \A f \in {Fields[i] : i \in DOMAIN Fields} : (f \in {u.kept[i] : i \in DOMAIN u.kept}) # (\E p \in 1..Len(plan) : plan[p][2] = f)
Export == PrintT(<<"CASE", ToJson([tbl |-> tbl, op |-> op, arg |-> arg,
             out |-> CASE op = "filter" -> FilterDef(arg, tbl) [] op = "dedup" -> DedupDef(arg, tbl) [] op = "unpivot" -> UnpivotDef(arg, tbl)])>>)
=============================================================================
