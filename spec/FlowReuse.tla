------------------------------ MODULE FlowReuse ------------------------------
(***************************************************************************)
(* Histories of runs of ONE Flow OBJECT that ends in a checkpoint (C07):   *)
(*     f = Flow(source ..., checkpoint(name));  f.results(); f.results()   *)
(* A user who keeps the Flow object - a notebook cell run again - expects  *)
(* what fresh Flows give (CheckpointChain.tla): a run resumes when the     *)
(* checkpoint is there and computes from the sources ONCE when it is not.  *)
(*                                                                         *)
(* The mechanism: before every run the enclosing Flow hands the links in   *)
(* front of the checkpoint to it (handle_flow_checkpoint), which chains    *)
(* them behind what it already holds.  A run that COMPUTES consumes what   *)
(* the checkpoint holds; a run that RESUMES does not.  Accumulates = TRUE  *)
(* (pinned): the links handed over before a resumed run stay there, so     *)
(* the next computing run executes the upstream steps once per stale copy  *)
(* plus once - the sources appear several times in the result.  FALSE (the *)
(* repair): the checkpoint starts from its own steps on every run.         *)
(***************************************************************************)
EXTENDS Naturals, Sequences, TLC, Json

CONSTANTS MaxLen, Accumulates

VARIABLES exists,   \* the checkpoint file is there
          stale,    \* copies of the upstream links the checkpoint still holds from earlier runs
          hist,     \* <<"run">> / <<"del">>
          mult      \* per past run: how many times the upstream steps were executed (0 = resumed)
vars == <<exists, stale, hist, mult>>

Init == exists = FALSE /\ stale = 0 /\ hist = <<>> /\ mult = <<>>
Run == /\ Len(hist) < MaxLen
       /\ IF exists
          THEN /\ mult' = Append(mult, 0)                                  \* resumed: nothing upstream runs ...
               /\ stale' = IF Accumulates THEN stale + 1 ELSE 0            \* ... and what was handed over stays unconsumed
               /\ UNCHANGED exists
          ELSE /\ mult' = Append(mult, stale + 1)                          \* computed: every copy held is executed
               /\ stale' = 0 /\ exists' = TRUE
       /\ hist' = Append(hist, <<"run">>)
Delete == /\ Len(hist) < MaxLen /\ exists
          /\ exists' = FALSE /\ hist' = Append(hist, <<"del">>) /\ UNCHANGED <<stale, mult>>
Next == Run \/ Delete
Spec == Init /\ [][Next]_vars

\* every run either resumes or executes the upstream steps exactly once
ComputesOnce == \A r \in DOMAIN mult : mult[r] \in {0, 1}
Export == Len(hist) > 0 => PrintT(<<"CASE", ToJson([hist |-> hist, mult |-> mult])>>)
=============================================================================
