---------------------------- MODULE ProcResources ----------------------------
(***************************************************************************)
(* Resource-level restructuring (C16): concatenate, duplicate,             *)
(* delete_resource, and sources (iterables / load / sources) appending.    *)
(*                                                                         *)
(* A package is a sequence of resources [name, fields, n]: fields a        *)
(* sequence over {"a","b","c"}, n rows.  Row k of the resource that        *)
(* ORIGINALLY stood at position r is identified by <<r, k>>; its value in  *)
(* each of its fields is the same id, so a row after a step is written     *)
(*      [id |-> <<r, k>>, has |-> set of fields holding the value]         *)
(* (every other target field is null).  Conservation = accounting of ids.  *)
(***************************************************************************)
EXTENDS Naturals, Sequences, FiniteSets, TLC, SequencesExt, Json

CONSTANTS MaxRes, Sizes

FieldSets == { <<"a", "b">>, <<"a", "c">>, <<"b">>, <<"c", "a">> }
Res(pos, fs, n) == [name |-> pos, fields |-> fs, n |-> n]             \* names are the original positions 1, 2, ...
Packages == UNION {{[i \in 1..m |-> Res(i, fs[i], sz[i])] : fs \in [1..m -> FieldSets], sz \in [1..m -> Sizes]} : m \in 1..MaxRes}
RowsOf(res) == [k \in 1..res.n |-> [id |-> <<res.name, k>>, has |-> Range(res.fields)]]

\* ---------------- concatenate ----------------
\* mapping {a: [], b: [c]}: target a takes source a; target b takes source b or c
Target(f) == IF f = "c" THEN "b" ELSE f
TargetFields == <<"a", "b">>
Consecutive(S) == S # {} /\ \A x, y \in S : \A z \in x..y : z \in S
MinOf(S) == CHOOSE x \in S : \A y \in S : x <= y
Keep(p, S) == LET idx == SetToSortSeq({i \in DOMAIN p : i \in S}, <) IN [j \in DOMAIN idx |-> p[idx[j]]]
ConcatRows(p, S) == FlattenSeq([j \in 1..Len(Keep(p, S)) |->
                       LET res == Keep(p, S)[j] IN
                       [k \in 1..res.n |-> [id |-> <<res.name, k>>, has |-> {Target(f) : f \in Range(res.fields)}]]])
ConcatDef(p, S) ==   \* [names, rows per resource]
  LET f == MinOf(S)
      before == Keep(p, {i \in DOMAIN p : i < f})   after == Keep(p, {i \in DOMAIN p : i > f /\ i \notin S})
  IN [names |-> [i \in DOMAIN before |-> before[i].name] \o <<0>> \o [i \in DOMAIN after |-> after[i].name],     \* 0 = the target resource
      rows  |-> [i \in DOMAIN before |-> RowsOf(before[i])] \o <<ConcatRows(p, S)>> \o [i \in DOMAIN after |-> RowsOf(after[i])]]
\* ---------------- duplicate ----------------
DupDef(p, s, toEnd) ==      \* copy = name 100 + s
  LET names == [i \in DOMAIN p |-> p[i].name]   rows == [i \in DOMAIN p |-> RowsOf(p[i])] IN
  IF toEnd THEN [names |-> Append(names, 100 + s), rows |-> Append(rows, RowsOf(p[s]))]
  ELSE [names |-> SubSeq(names, 1, s) \o <<100 + s>> \o SubSeq(names, s + 1, Len(p)),
        rows  |-> SubSeq(rows, 1, s) \o <<RowsOf(p[s])>> \o SubSeq(rows, s + 1, Len(p))]
\* ---------------- delete_resource ----------------
DeleteDef(p, S) == LET q == Keep(p, DOMAIN p \ S) IN [names |-> [i \in DOMAIN q |-> q[i].name], rows |-> [i \in DOMAIN q |-> RowsOf(q[i])]]
\* ---------------- a source appended ----------------
AppendDef(p, n) == [names |-> [i \in DOMAIN p |-> p[i].name] \o <<200>>,
                    rows  |-> [i \in DOMAIN p |-> RowsOf(p[i])] \o <<[k \in 1..n |-> [id |-> <<200, k>>, has |-> {"a", "b"}]]>>]

VARIABLES pkg, op, arg
Init == /\ pkg \in Packages
        /\ \/ op = "concat" /\ arg \in {S \in SUBSET DOMAIN pkg : Consecutive(S)}
           \/ op = "duplicate" /\ arg \in [s : DOMAIN pkg, toEnd : BOOLEAN]
           \/ op = "delete" /\ arg \in (SUBSET DOMAIN pkg) \ {{}}
           \/ op = "append" /\ arg \in Sizes
Next == UNCHANGED <<pkg, op, arg>>
Spec == Init /\ [][Next]_<<pkg, op, arg>>

Result == CASE op = "concat" -> ConcatDef(pkg, arg) [] op = "duplicate" -> DupDef(pkg, arg.s, arg.toEnd)
            [] op = "delete" -> DeleteDef(pkg, arg) [] op = "append" -> AppendDef(pkg, arg)
\* C16: no row lost or invented; all other resources keep their rows
IdsOf(rowsSeq) == UNION {{rowsSeq[i][k].id : k \in DOMAIN rowsSeq[i]} : i \in DOMAIN rowsSeq}
Count(rowsSeq) == LET RECURSIVE S(_) S(i) == IF i > Len(rowsSeq) THEN 0 ELSE Len(rowsSeq[i]) + S(i + 1) IN S(1)
InIds == UNION {{<<pkg[i].name, k>> : k \in 1..pkg[i].n} : i \in DOMAIN pkg}
InCount == LET RECURSIVE S(_) S(i) == IF i > Len(pkg) THEN 0 ELSE pkg[i].n + S(i + 1) IN S(1)
Conserve ==
  LET r == Result IN
  CASE op = "concat" -> IdsOf(r.rows) = InIds /\ Count(r.rows) = InCount                      \* merged, nothing lost, nothing twice
    [] op = "duplicate" -> IdsOf(r.rows) = InIds /\ Count(r.rows) = InCount + pkg[arg.s].n     \* exactly one extra copy
    [] op = "delete" -> IdsOf(r.rows) = InIds \ UNION {{<<pkg[i].name, k>> : k \in 1..pkg[i].n} : i \in arg}
    [] op = "append" -> Count(r.rows) = InCount + arg /\ SubSeq(r.names, 1, Len(pkg)) = [i \in DOMAIN pkg |-> pkg[i].name]
OthersUnchanged == LET r == Result IN
  \A i \in DOMAIN pkg : (op = "delete" => i \notin arg) /\ (op = "concat" => i \notin arg) =>
        \E j \in DOMAIN r.names : r.names[j] = pkg[i].name /\ r.rows[j] = RowsOf(pkg[i])
Export == PrintT(<<"CASE", ToJson([pkg |-> pkg, op |-> op,
             arg |-> IF op \in {"concat", "delete"} THEN SetToSortSeq(arg, <) ELSE arg,
             names |-> Result.names,
             rows |-> [i \in DOMAIN Result.rows |-> [k \in DOMAIN Result.rows[i] |->
                        [id |-> Result.rows[i][k].id, has |-> SetToSortSeq(Result.rows[i][k].has, LAMBDA x, y : x = "a" \/ (x = "b" /\ y = "c"))]]]])>>)
=============================================================================
