------------------------------ MODULE CodecTrace ------------------------------
(***************************************************************************)
(* Real CSV files decoded by the specification's reader.  One line of      *)
(* TRACE_FILE: the bytes of a data file written by a real dumper (as code  *)
(* points of its UTF-8 decoding), the dialect RECORDED in the written      *)
(* descriptor, and - when the harness knows them - the cell texts that     *)
(* went in.  The verdict carries the decoded table, so that the harness    *)
(* can cast the cells with the recorded field descriptors.                 *)
(***************************************************************************)
EXTENDS Codec, Json, IOUtils
Files == ndJsonDeserialize(IOEnv.TRACE_FILE)
VARIABLE t
Init == t \in 1..Len(Files)
Next == UNCHANGED t
Spec == Init /\ [][Next]_t
F == Files[t]
D == [delimiter |-> F.delimiter, quoteChar |-> F.quoteChar, doubleQuote |-> TRUE, skipInitialSpace |-> FALSE]
Decoded == DecodeCSV(F.bytes, D)
\* when the expected cell texts are known: the file decodes to them, and it is the specification's encoding of them
DecodesTo == F.has_cells => Decoded = F.cells
IsSpecEncoding == F.has_cells => F.bytes = EncodeRows(F.cells, D)
\* one JSON payload (TLC wraps long tuples over several lines, a 2-tuple with one string stays on one line)
Verdict == PrintT(<<"VERDICT", ToJson([t |-> t, decodes |-> DecodesTo, is_spec |-> IsSpecEncoding, table |-> Decoded])>>)
=============================================================================
