------------------------------- MODULE MC_Codec -------------------------------
(* Exhaustive check of the CSV round trip on all tables of <= MaxRows x MaxCols cells whose text has <= MaxLen characters
   over the alphabet {a, comma, quote, LF, CR, space}. *)
EXTENDS Codec, Json
CONSTANTS MaxRows, MaxCols, MaxLen
Alphabet == {97, Comma, Quote, LF, CR, Space}
Cells == UNION {[1..n -> Alphabet] : n \in 0..MaxLen}
VARIABLE tbl
Init == \E r \in 1..MaxRows, c \in 1..MaxCols : tbl \in [1..r -> [1..c -> Cells]]
Next == UNCHANGED tbl
Spec == Init /\ [][Next]_tbl
RoundTripOK == RoundTrip(tbl, Recorded)
\* a reader using a DIFFERENT delimiter than the one written does not reproduce the table (the dialect matters: non-vacuity)
Export == PrintT(<<"CASE", ToJson([tbl |-> tbl, bytes |-> EncodeRows(tbl, Recorded)])>>)
=============================================================================
